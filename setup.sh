#!/bin/sh
# Builds nothing persistent: every check assembles its units from /repo on each run.
# This only confirms that the pre-installed tools the checks need are present.
set -e
cd "$(dirname "$0")"
for t in verus cbmc goto-cc goto-instrument python3 cargo clang; do
  command -v $t >/dev/null || { echo "missing tool: $t"; exit 1; }
done
python3 -c "import sys; sys.path.insert(0,'lib'); import extract, verus_backend, props, units; print('units:', sorted(units.UNITS))"
mkdir -p evidence replay
echo setup ok
