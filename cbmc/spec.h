/* spec.h -- specification vocabulary for the CBMC contracts of the BLAKE3 C library.
 *
 * Included BEFORE the (unmodified) repository sources, so that loop-contract clauses that
 * the backend inserts at loops can use these macros too.  Nothing here defines code that
 * the library calls: only macros, ghost variables and "observer" functions that make the
 * pre-state of a counterexample visible in cbmc's trace (they return true, always).
 */
#ifndef VERIF_CBMC_SPEC_H
#define VERIF_CBMC_SPEC_H
#include <stdbool.h>
#include <stddef.h>
#include <stdint.h>
#include <stdlib.h>

/* CBMC's pointer model with --object-bits 12 caps one object at 2^51 bytes and
 * __CPROVER_is_fresh asserts size < __CPROVER_max_malloc_size.  Every "unbounded" length
 * in the contracts is therefore bounded by this constant (documented in the trusted base).
 */
#define VERIF_MAX_OBJ ((size_t)1 << 50)

/* ---- integer specifications ------------------------------------------------------- */
#define SPEC_BIT(x, i) ((unsigned)((((uint64_t)(x)) >> (i)) & 1u))
#define SPEC_POP8(x, i)                                                                  \
  (SPEC_BIT(x, (i) + 0) + SPEC_BIT(x, (i) + 1) + SPEC_BIT(x, (i) + 2) +                  \
   SPEC_BIT(x, (i) + 3) + SPEC_BIT(x, (i) + 4) + SPEC_BIT(x, (i) + 5) +                  \
   SPEC_BIT(x, (i) + 6) + SPEC_BIT(x, (i) + 7))
/* the definition of "number of one bits": the sum of the 64 bits */
#define SPEC_POPCOUNT64(x)                                                               \
  (SPEC_POP8(x, 0) + SPEC_POP8(x, 8) + SPEC_POP8(x, 16) + SPEC_POP8(x, 24) +             \
   SPEC_POP8(x, 32) + SPEC_POP8(x, 40) + SPEC_POP8(x, 48) + SPEC_POP8(x, 56))
/* relational contracts use the builtin; unit `popcnt` proves builtin == SPEC_POPCOUNT64 */
#define POPCNT(x) ((size_t)__builtin_popcountll((unsigned long long)(x)))
#define IS_POW2(x) ((x) != 0 && (((x) & ((x)-1)) == 0))

/* ---- data invariants ---------------------------------------------------------------- */
#define CS_LEN(s) (64 * (size_t)(s)->blocks_compressed + (size_t)(s)->buf_len)
#define CS_LEN_OLD(s)                                                                    \
  (64 * (size_t)__CPROVER_old((s)->blocks_compressed) + (size_t)__CPROVER_old((s)->buf_len))
/* chunk state: at most one chunk; the last block is kept lazily in buf
 * (blocks_compressed > 0 ==> buf_len > 0), which is what CHUNK_END relies on */
#define CS_WF(s)                                                                         \
  ((s)->buf_len <= 64 && CS_LEN(s) <= 1024 &&                                            \
   ((s)->buf_len == 0 ==> (s)->blocks_compressed == 0))

#define H_T(h) ((h)->chunk.chunk_counter)
/* hasher: the documented domain is < 2^64 input bytes, i.e. chunk_counter < 2^54 and
 * 1024*chunk_counter + chunk_state_len <= 2^64 - 1 (second line of the macro).
 * Stack shape (lazy merging):
 *   bytes pending in the chunk state   ==> fully merged: cv_stack_len == popcnt(t)
 *   none pending, t == 0               ==> empty stack
 *   none pending, t  > 0               ==> 2 <= len, popcnt(t) <= len <= popcnt(t-1)+1
 * (len <= popcnt(t-1)+1 <= 55 == MAX_DEPTH+1 is what keeps cv_stack in bounds; len >= 2
 *  is what keeps `cv_stack_len - 2` in blake3_hasher_finalize_seek from wrapping.) */
#define HASHER_WF(h)                                                                     \
  (CS_WF(&(h)->chunk) && H_T(h) < ((uint64_t)1 << 54) && (h)->cv_stack_len <= 55 &&      \
   (H_T(h) < ((uint64_t)1 << 54) - 1 || CS_LEN(&(h)->chunk) <= 1023) &&                  \
   (CS_LEN(&(h)->chunk) > 0                                                              \
        ? (size_t)(h)->cv_stack_len == POPCNT(H_T(h))                                    \
        : (H_T(h) == 0 ? (h)->cv_stack_len == 0                                          \
                       : ((h)->cv_stack_len >= 2 &&                                      \
                          (size_t)(h)->cv_stack_len >= POPCNT(H_T(h)) &&                 \
                          (size_t)(h)->cv_stack_len <= POPCNT(H_T(h) - 1) + 1))))
/* total number of input bytes absorbed so far */
#define H_TOTAL(h) (H_T(h) * (uint64_t)1024 + (uint64_t)CS_LEN(&(h)->chunk))
#define H_TOTAL_OLD(h)                                                                   \
  (__CPROVER_old((h)->chunk.chunk_counter) * (uint64_t)1024 +                            \
   (uint64_t)CS_LEN_OLD(&(h)->chunk))

/* ---- the CPU feature cache (static g_cpu_features of blake3_dispatch.c) ------------- */
/* the cache is either still UNDEFINED or holds feature bits only */
#define VERIF_FEATURE_BITS (SSE2 | SSSE3 | SSE41 | AVX | AVX2 | AVX512F | AVX512VL)
#define VERIF_GCPU_OK (g_cpu_features == UNDEFINED || (g_cpu_features & ~VERIF_FEATURE_BITS) == 0)

/* vacuity guard used by the self-test only (-DVERIF_SANITY): the end of every harness must
 * be reachable, i.e. this assertion must FAIL; in normal runs the macro is empty */
#ifdef VERIF_SANITY
#define VERIF_REACHABLE() __CPROVER_assert(0, "VERIF_SANITY: end of harness is reachable")
#else
#define VERIF_REACHABLE() do { } while (0)
#endif

/* ---- observers: make pre-state fields show up in counterexample traces ------------- */
#define VERIF_OBS(name, type)                                                            \
  static inline _Bool verif_obs_##name(type obs_##name) { (void)obs_##name; return 1; }
VERIF_OBS(buf_len, uint8_t)
VERIF_OBS(blocks_compressed, uint8_t)
VERIF_OBS(chunk_counter, uint64_t)
VERIF_OBS(chunk_flags, uint8_t)
VERIF_OBS(cv_stack_len, uint8_t)
VERIF_OBS(block_len, uint8_t)
VERIF_OBS(out_flags, uint8_t)
VERIF_OBS(out_counter, uint64_t)
VERIF_OBS(g_cpu_features, int)
#define OBS_CS(s)                                                                        \
  (verif_obs_buf_len((s)->buf_len) && verif_obs_blocks_compressed((s)->blocks_compressed) && \
   verif_obs_chunk_counter((s)->chunk_counter) && verif_obs_chunk_flags((s)->flags))
#define OBS_HASHER(h) (OBS_CS(&(h)->chunk) && verif_obs_cv_stack_len((h)->cv_stack_len))
#define OBS_OUTPUT(o)                                                                    \
  (verif_obs_block_len((o)->block_len) && verif_obs_out_flags((o)->flags) &&            \
   verif_obs_out_counter((o)->counter))

/* units *_fn (-DVERIF_FN): uninterpreted kernels, the ghost witness byte, FN() contract clauses */
#ifdef VERIF_FN
#include "spec_fn.h"
#define FN(clause) clause
#else
#define FN(clause)
#define VERIF_FN_PROLOGUE() do { } while (0)
#endif

/* first statement of every harness: start from an arbitrary feature-cache state (not only
 * the initial UNDEFINED), and reference the observers so that the backend's
 * `goto-instrument --drop-unused-functions` pre-pass keeps them */
#define VERIF_PROLOGUE()                                                                 \
  do {                                                                                   \
    int verif_nd_;                                                                       \
    g_cpu_features = verif_nd_;                                                          \
    (void)(verif_obs_buf_len(0) && verif_obs_blocks_compressed(0) &&                     \
           verif_obs_chunk_counter(0) && verif_obs_chunk_flags(0) &&                     \
           verif_obs_cv_stack_len(0) && verif_obs_block_len(0) && verif_obs_out_flags(0) && \
           verif_obs_out_counter(0) && verif_obs_g_cpu_features(0));                     \
    VERIF_FN_PROLOGUE();                                                                 \
  } while (0)

/* ---- ghost state for blake3_hasher_init_derive_key (the C string and its length) --- */
static const char *verif_ghost_str;
static size_t verif_ghost_strlen;

/* 16 = MAX_SIMD_DEGREE on x86 = MAX_SIMD_DEGREE_OR_2: rows of an `inputs` pointer array.
 * A quantified r_ok over inputs[i] is not usable with CBMC's SAT back end, so the row
 * validity is spelled out for the (proven) maximum of 16 rows. */
#define ROW_OK(inputs, n, i, sz) ((n) > (i) ==> __CPROVER_r_ok((inputs)[i], (sz)))
#define ROWS16_OK(inputs, n, sz)                                                         \
  (ROW_OK(inputs, n, 0, sz) && ROW_OK(inputs, n, 1, sz) && ROW_OK(inputs, n, 2, sz) &&   \
   ROW_OK(inputs, n, 3, sz) && ROW_OK(inputs, n, 4, sz) && ROW_OK(inputs, n, 5, sz) &&   \
   ROW_OK(inputs, n, 6, sz) && ROW_OK(inputs, n, 7, sz) && ROW_OK(inputs, n, 8, sz) &&   \
   ROW_OK(inputs, n, 9, sz) && ROW_OK(inputs, n, 10, sz) && ROW_OK(inputs, n, 11, sz) && \
   ROW_OK(inputs, n, 12, sz) && ROW_OK(inputs, n, 13, sz) && ROW_OK(inputs, n, 14, sz) && \
   ROW_OK(inputs, n, 15, sz))

#endif
