/* spec_fn.h -- vocabulary of the one-level FUNCTIONAL contracts (units *_fn, -DVERIF_FN).
 *
 * The compression kernels are abstracted by CBMC uninterpreted functions (UFs): symbols about
 * which the solver knows nothing but functional consistency (equal arguments => equal results).
 * A contract "result == UF(all value arguments)" therefore ties every argument of a call to its
 * result: a caller that passes a wrong/swapped/stale argument can no longer prove its own
 * postcondition, because for SOME function (and the real kernel may be that function) the result
 * differs.  What is assumed: a kernel is a deterministic function of its value arguments (cv
 * words, block bytes, block_len, counter, flags, ...), all ISA variants of one kernel family
 * compute the same function, and they write nothing but their output.  What is NOT claimed:
 * that this function is the BLAKE3 compression function (units compress_spec_* are about that).
 *
 *   VERIF_UF_CIP  (cv[8], block[64], block_len, counter, flags) -> 256 bit  blake3_compress_in_place*
 *   VERIF_UF_XOF  (cv[8], block[64], block_len, counter, flags) -> 512 bit  blake3_compress_xof*, and
 *                                                       block b of blake3_xof_many* with counter + b
 *   VERIF_UF_PRE  (same) -> 512 bit   compress_pre (the 16 state words after the 7 rounds), used ONLY in the two
 *                 units blake3_compress_{in_place,xof}_portable_fn, which check the feed-forward that the two
 *                 portable kernels implement themselves: cv' = lo ^ hi, out = (lo ^ hi, hi ^ cv).  (Everywhere
 *                 else the portable kernels are, like the SIMD ones, the functions CIP / XOF: writing CIP and XOF
 *                 as expressions over PRE made the nested parent formulas of finalize grow exponentially.)
 *   VERIF_UF_ROW  (row[64*blocks] zero-padded to 1024 bytes, key[8], counter, flags, flags_start,
 *                  flags_end, blocks) -> 256 bit       one input of blake3_hash_many* (blocks <= 16)
 *
 * Byte ranges of unbounded length are specified through ONE ghost witness pointer `verif_w`
 * (nondeterministic, never written by any code): "verif_w in out[0..n) ==> *verif_w == ..." holds
 * for every value of verif_w, i.e. for every byte, and -- being an absolute address -- carries
 * over unchanged from a callee that fills a sub-range to its caller.
 */
#ifndef VERIF_CBMC_SPEC_FN_H
#define VERIF_CBMC_SPEC_FN_H

typedef unsigned __CPROVER_bitvector[256] verif_bv256;
typedef unsigned __CPROVER_bitvector[512] verif_bv512;

verif_bv512 __CPROVER_uninterpreted_blake3_pre(verif_bv256 cv, verif_bv512 block, uint8_t block_len,
                                               uint64_t counter, uint8_t flags);
verif_bv256 __CPROVER_uninterpreted_blake3_cip(verif_bv256 cv, verif_bv512 block, uint8_t block_len,
                                               uint64_t counter, uint8_t flags);
verif_bv512 __CPROVER_uninterpreted_blake3_xof(verif_bv256 cv, verif_bv512 block, uint8_t block_len,
                                               uint64_t counter, uint8_t flags);
/* on VALUES (cv as 256 bit, block as 512 bit) */
#define VERIF_PRE_V(cv, blk, bl, ctr, fl)                                                 \
  __CPROVER_uninterpreted_blake3_pre((verif_bv256)(cv), (verif_bv512)(blk), (uint8_t)(bl), (uint64_t)(ctr), (uint8_t)(fl))
#define VERIF_CIP_V(cv, blk, bl, ctr, fl)                                                 \
  __CPROVER_uninterpreted_blake3_cip((verif_bv256)(cv), (verif_bv512)(blk), (uint8_t)(bl), (uint64_t)(ctr), (uint8_t)(fl))
#define VERIF_XOF_V(cv, blk, bl, ctr, fl)                                                 \
  __CPROVER_uninterpreted_blake3_xof((verif_bv256)(cv), (verif_bv512)(blk), (uint8_t)(bl), (uint64_t)(ctr), (uint8_t)(fl))
/* the feed-forward over the state p after the rounds (lo = words 0..7, hi = words 8..15) */
#define VERIF_LO(p) ((verif_bv256)(p))
#define VERIF_HI(p) ((verif_bv256)((p) >> 256))
#define VERIF_FF_CIP(p) (VERIF_LO(p) ^ VERIF_HI(p))
#define VERIF_FF_XOF(p, cv) ((verif_bv512)VERIF_FF_CIP(p) | ((verif_bv512)(VERIF_HI(p) ^ (verif_bv256)(cv)) << 256))
verif_bv256 __CPROVER_uninterpreted_blake3_row(
    verif_bv512, verif_bv512, verif_bv512, verif_bv512, verif_bv512, verif_bv512, verif_bv512, verif_bv512,
    verif_bv512, verif_bv512, verif_bv512, verif_bv512, verif_bv512, verif_bv512, verif_bv512, verif_bv512,
    verif_bv256 key, uint64_t counter, uint8_t flags, uint8_t flags_start, uint8_t flags_end, size_t blocks);

/* 32 / 64 bytes at p as ONE little-endian bit vector (x86-64: the in-memory order of the cv words
 * and of the bytes stored by store32 / store_cv_words): a single read instead of 32 / 64 */
#define V256(p) (*(const verif_bv256 *)(p))
#define V512(p) (*(const verif_bv512 *)(p))
/* two 32-byte CVs l, r as the 64-byte block of a parent node */
#define V512_PAIR(l, r) ((verif_bv512)V256(l) | ((verif_bv512)V256(r) << 256))

/* on pointers */
#define VERIF_UF_PRE(cv, blk, bl, ctr, fl) VERIF_PRE_V(V256(cv), V512(blk), bl, ctr, fl)
#define VERIF_UF_CIP(cv, blk, bl, ctr, fl) VERIF_CIP_V(V256(cv), V512(blk), bl, ctr, fl)
#define VERIF_UF_CIP_OLDCV(cv, blk, bl, ctr, fl) VERIF_CIP_V(__CPROVER_old(V256(cv)), V512(blk), bl, ctr, fl)
#define VERIF_UF_XOF(cv, blk, bl, ctr, fl) VERIF_XOF_V(V256(cv), V512(blk), bl, ctr, fl)

/* block b (0..15) of a hash_many input of 64*blocks bytes, zero beyond the row */
#ifndef VERIF_HM_MAXBLOCKS
#define VERIF_HM_MAXBLOCKS 16 /* a unit may lower it: its UF clauses then speak about blocks <= this only */
#endif
#define VROWB(p, blocks, b)                                                               \
  (((b) < VERIF_HM_MAXBLOCKS && (size_t)(b) < (size_t)(blocks)) ? V512((p) + 64 * (b)) : (verif_bv512)0)
#define VROW(p, n)                                                                        \
  VROWB(p, n, 0), VROWB(p, n, 1), VROWB(p, n, 2), VROWB(p, n, 3), VROWB(p, n, 4), VROWB(p, n, 5),     \
  VROWB(p, n, 6), VROWB(p, n, 7), VROWB(p, n, 8), VROWB(p, n, 9), VROWB(p, n, 10), VROWB(p, n, 11),   \
  VROWB(p, n, 12), VROWB(p, n, 13), VROWB(p, n, 14), VROWB(p, n, 15)
#define VERIF_UF_ROW(p, blocks, key, ctr, fl, fs, fe)                                     \
  __CPROVER_uninterpreted_blake3_row(VROW(p, blocks), V256(key), (uint64_t)(ctr), (uint8_t)(fl), \
                                     (uint8_t)(fs), (uint8_t)(fe), (size_t)(blocks))

/* byte j of a UF result */
#define VBYTE(v, j) ((uint8_t)((v) >> (8 * (size_t)(j))))

/* ---- the ghost witness byte --------------------------------------------------------- */
static const uint8_t *verif_w;
#define VPOFF(p) ((size_t)__CPROVER_POINTER_OFFSET(p))
/* verif_w points into base[0..n) */
#define VW_IN(base, n)                                                                    \
  (__CPROVER_same_object(verif_w, (base)) && VPOFF(verif_w) >= VPOFF(base) &&             \
   VPOFF(verif_w) - VPOFF(base) < (size_t)(n))
/* its index relative to base, and the byte itself (read through base: cbmc resolves a dereference
 * by points-to sets, a nondeterministic pointer has none) */
#define VW_IDX(base) (VPOFF(verif_w) - VPOFF(base))
#define VW_AT(base) ((base)[VW_IDX(base)])
/* proof device for loops: a value the harness computes from the arguments before the call (loop
 * invariants must not contain function applications, not even uninterpreted ones) */
static uint8_t verif_expect_byte;

#define VERIF_FN_PROLOGUE()                                                               \
  do {                                                                                    \
    const uint8_t *verif_nd_w_;                                                           \
    verif_w = verif_nd_w_;                                                                \
  } while (0)

#endif
