/* spec_fn.h -- vocabulary of the one-level FUNCTIONAL contracts (units *_fn, -DVERIF_FN).
 *
 * The compression kernels are abstracted by CBMC uninterpreted functions (UFs): symbols about
 * which the solver knows nothing but functional consistency (equal arguments => equal results).
 * A contract "result == UF(all value arguments)" therefore ties every argument of a call to its
 * result: a caller that passes a wrong/swapped/stale argument can no longer prove its own
 * postcondition, because for SOME function (and the real kernel may be that function) the result
 * differs.  What is assumed: a kernel is a deterministic function of its value arguments (cv
 * words, block bytes, block_len, counter, flags, ...), all ISA variants of one kernel family
 * compute the same function, and they write nothing but their output.  What is NOT claimed:
 * that this function is the BLAKE3 compression function (units compress_spec_* are about that).
 *
 *   VERIF_UF_CIP  (cv[8], block[64], block_len, counter, flags) -> 256 bit  blake3_compress_in_place*
 *   VERIF_UF_XOF  (cv[8], block[64], block_len, counter, flags) -> 512 bit  blake3_compress_xof*, and
 *                                                       block b of blake3_xof_many* with counter + b
 *   VERIF_UF_ROW  (row[64*blocks] zero-padded to 1024 bytes, key[8], counter, flags, flags_start,
 *                  flags_end, blocks) -> 256 bit       one input of blake3_hash_many* (blocks <= 16)
 *
 * Byte ranges of unbounded length are specified through ONE ghost witness pointer `verif_w`
 * (nondeterministic, never written by any code): "verif_w in out[0..n) ==> *verif_w == ..." holds
 * for every value of verif_w, i.e. for every byte, and -- being an absolute address -- carries
 * over unchanged from a callee that fills a sub-range to its caller.
 */
#ifndef VERIF_CBMC_SPEC_FN_H
#define VERIF_CBMC_SPEC_FN_H

typedef unsigned __CPROVER_bitvector[256] verif_bv256;
typedef unsigned __CPROVER_bitvector[512] verif_bv512;

verif_bv256 __CPROVER_uninterpreted_blake3_cip(uint64_t, uint64_t, uint64_t, uint64_t,             /* cv */
                                               uint64_t, uint64_t, uint64_t, uint64_t, uint64_t,
                                               uint64_t, uint64_t, uint64_t,                        /* block */
                                               uint8_t, uint64_t, uint8_t);
verif_bv512 __CPROVER_uninterpreted_blake3_xof(uint64_t, uint64_t, uint64_t, uint64_t,
                                               uint64_t, uint64_t, uint64_t, uint64_t, uint64_t,
                                               uint64_t, uint64_t, uint64_t,
                                               uint8_t, uint64_t, uint8_t);
verif_bv256 __CPROVER_uninterpreted_blake3_row(uint64_t, uint64_t, uint64_t, uint64_t, uint64_t, uint64_t, uint64_t, uint64_t, uint64_t, uint64_t, uint64_t, uint64_t, uint64_t, uint64_t, uint64_t, uint64_t, uint64_t, uint64_t, uint64_t, uint64_t, uint64_t, uint64_t, uint64_t, uint64_t, uint64_t, uint64_t, uint64_t, uint64_t, uint64_t, uint64_t, uint64_t, uint64_t, uint64_t, uint64_t, uint64_t, uint64_t, uint64_t, uint64_t, uint64_t, uint64_t, uint64_t, uint64_t, uint64_t, uint64_t, uint64_t, uint64_t, uint64_t, uint64_t, uint64_t, uint64_t, uint64_t, uint64_t, uint64_t, uint64_t, uint64_t, uint64_t, uint64_t, uint64_t, uint64_t, uint64_t, uint64_t, uint64_t, uint64_t, uint64_t, uint64_t, uint64_t, uint64_t, uint64_t, uint64_t, uint64_t, uint64_t, uint64_t, uint64_t, uint64_t, uint64_t, uint64_t, uint64_t, uint64_t, uint64_t, uint64_t, uint64_t, uint64_t, uint64_t, uint64_t, uint64_t, uint64_t, uint64_t, uint64_t, uint64_t, uint64_t, uint64_t, uint64_t, uint64_t, uint64_t, uint64_t, uint64_t, uint64_t, uint64_t, uint64_t, uint64_t, uint64_t, uint64_t, uint64_t, uint64_t, uint64_t, uint64_t, uint64_t, uint64_t, uint64_t, uint64_t, uint64_t, uint64_t, uint64_t, uint64_t, uint64_t, uint64_t, uint64_t, uint64_t, uint64_t, uint64_t, uint64_t, uint64_t, uint64_t, uint64_t, uint64_t, uint64_t, uint64_t, uint64_t,
                                               uint64_t, uint64_t, uint64_t, uint64_t,             /* key */
                                               uint64_t, uint8_t, uint8_t, uint8_t, size_t);

/* little-endian 64-bit word w of a byte array / of an array of 32-bit words */
#define VW64(p, w)                                                                        \
  ((uint64_t)(p)[8 * (w) + 0] | (uint64_t)(p)[8 * (w) + 1] << 8 | (uint64_t)(p)[8 * (w) + 2] << 16 |  \
   (uint64_t)(p)[8 * (w) + 3] << 24 | (uint64_t)(p)[8 * (w) + 4] << 32 |                  \
   (uint64_t)(p)[8 * (w) + 5] << 40 | (uint64_t)(p)[8 * (w) + 6] << 48 | (uint64_t)(p)[8 * (w) + 7] << 56)
#define VC64(c, w) ((uint64_t)(c)[2 * (w)] | (uint64_t)(c)[2 * (w) + 1] << 32)
#define VC64_OLD(c, w)                                                                    \
  ((uint64_t)__CPROVER_old((c)[2 * (w)]) | (uint64_t)__CPROVER_old((c)[2 * (w) + 1]) << 32)
#define VBLK(b) VW64(b, 0), VW64(b, 1), VW64(b, 2), VW64(b, 3), VW64(b, 4), VW64(b, 5), VW64(b, 6), VW64(b, 7)
#define VCV(c) VC64(c, 0), VC64(c, 1), VC64(c, 2), VC64(c, 3)
#define VCV_OLD(c) VC64_OLD(c, 0), VC64_OLD(c, 1), VC64_OLD(c, 2), VC64_OLD(c, 3)
/* a CV given as 32 little-endian bytes (cv_stack entries, key bytes) */
#define VCVB(b) VW64(b, 0), VW64(b, 1), VW64(b, 2), VW64(b, 3)

#define VERIF_UF_CIP(cv, blk, bl, ctr, fl)                                                \
  __CPROVER_uninterpreted_blake3_cip(VCV(cv), VBLK(blk), (uint8_t)(bl), (uint64_t)(ctr), (uint8_t)(fl))
#define VERIF_UF_CIP_OLDCV(cv, blk, bl, ctr, fl)                                          \
  __CPROVER_uninterpreted_blake3_cip(VCV_OLD(cv), VBLK(blk), (uint8_t)(bl), (uint64_t)(ctr), (uint8_t)(fl))
#define VERIF_UF_XOF(cv, blk, bl, ctr, fl)                                                \
  __CPROVER_uninterpreted_blake3_xof(VCV(cv), VBLK(blk), (uint8_t)(bl), (uint64_t)(ctr), (uint8_t)(fl))
/* a parent node: block = two 32-byte CVs l, r (byte pointers) */
#define VERIF_UF_CIP_PARENT(key, l, r, fl)                                                \
  __CPROVER_uninterpreted_blake3_cip(VCV(key), VCVB(l), VCVB(r), (uint8_t)64, (uint64_t)0, (uint8_t)(fl))
#define VERIF_UF_XOF_PARENT(key, l, r, ctr, fl)                                           \
  __CPROVER_uninterpreted_blake3_xof(VCV(key), VCVB(l), VCVB(r), (uint8_t)64, (uint64_t)(ctr), (uint8_t)(fl))

/* row word w (0..127) of a hash_many input of 64*blocks bytes, zero beyond the row */
#define VROWW(p, blocks, w) (((size_t)(8 * (w)) < 64 * (size_t)(blocks)) ? VW64(p, w) : (uint64_t)0)
#define VROW(p, blocks) VROWW(p, blocks, 0), VROWW(p, blocks, 1), VROWW(p, blocks, 2), VROWW(p, blocks, 3), VROWW(p, blocks, 4), VROWW(p, blocks, 5), VROWW(p, blocks, 6), VROWW(p, blocks, 7), VROWW(p, blocks, 8), VROWW(p, blocks, 9), VROWW(p, blocks, 10), VROWW(p, blocks, 11), VROWW(p, blocks, 12), VROWW(p, blocks, 13), VROWW(p, blocks, 14), VROWW(p, blocks, 15), VROWW(p, blocks, 16), VROWW(p, blocks, 17), VROWW(p, blocks, 18), VROWW(p, blocks, 19), VROWW(p, blocks, 20), VROWW(p, blocks, 21), VROWW(p, blocks, 22), VROWW(p, blocks, 23), VROWW(p, blocks, 24), VROWW(p, blocks, 25), VROWW(p, blocks, 26), VROWW(p, blocks, 27), VROWW(p, blocks, 28), VROWW(p, blocks, 29), VROWW(p, blocks, 30), VROWW(p, blocks, 31), VROWW(p, blocks, 32), VROWW(p, blocks, 33), VROWW(p, blocks, 34), VROWW(p, blocks, 35), VROWW(p, blocks, 36), VROWW(p, blocks, 37), VROWW(p, blocks, 38), VROWW(p, blocks, 39), VROWW(p, blocks, 40), VROWW(p, blocks, 41), VROWW(p, blocks, 42), VROWW(p, blocks, 43), VROWW(p, blocks, 44), VROWW(p, blocks, 45), VROWW(p, blocks, 46), VROWW(p, blocks, 47), VROWW(p, blocks, 48), VROWW(p, blocks, 49), VROWW(p, blocks, 50), VROWW(p, blocks, 51), VROWW(p, blocks, 52), VROWW(p, blocks, 53), VROWW(p, blocks, 54), VROWW(p, blocks, 55), VROWW(p, blocks, 56), VROWW(p, blocks, 57), VROWW(p, blocks, 58), VROWW(p, blocks, 59), VROWW(p, blocks, 60), VROWW(p, blocks, 61), VROWW(p, blocks, 62), VROWW(p, blocks, 63), VROWW(p, blocks, 64), VROWW(p, blocks, 65), VROWW(p, blocks, 66), VROWW(p, blocks, 67), VROWW(p, blocks, 68), VROWW(p, blocks, 69), VROWW(p, blocks, 70), VROWW(p, blocks, 71), VROWW(p, blocks, 72), VROWW(p, blocks, 73), VROWW(p, blocks, 74), VROWW(p, blocks, 75), VROWW(p, blocks, 76), VROWW(p, blocks, 77), VROWW(p, blocks, 78), VROWW(p, blocks, 79), VROWW(p, blocks, 80), VROWW(p, blocks, 81), VROWW(p, blocks, 82), VROWW(p, blocks, 83), VROWW(p, blocks, 84), VROWW(p, blocks, 85), VROWW(p, blocks, 86), VROWW(p, blocks, 87), VROWW(p, blocks, 88), VROWW(p, blocks, 89), VROWW(p, blocks, 90), VROWW(p, blocks, 91), VROWW(p, blocks, 92), VROWW(p, blocks, 93), VROWW(p, blocks, 94), VROWW(p, blocks, 95), VROWW(p, blocks, 96), VROWW(p, blocks, 97), VROWW(p, blocks, 98), VROWW(p, blocks, 99), VROWW(p, blocks, 100), VROWW(p, blocks, 101), VROWW(p, blocks, 102), VROWW(p, blocks, 103), VROWW(p, blocks, 104), VROWW(p, blocks, 105), VROWW(p, blocks, 106), VROWW(p, blocks, 107), VROWW(p, blocks, 108), VROWW(p, blocks, 109), VROWW(p, blocks, 110), VROWW(p, blocks, 111), VROWW(p, blocks, 112), VROWW(p, blocks, 113), VROWW(p, blocks, 114), VROWW(p, blocks, 115), VROWW(p, blocks, 116), VROWW(p, blocks, 117), VROWW(p, blocks, 118), VROWW(p, blocks, 119), VROWW(p, blocks, 120), VROWW(p, blocks, 121), VROWW(p, blocks, 122), VROWW(p, blocks, 123), VROWW(p, blocks, 124), VROWW(p, blocks, 125), VROWW(p, blocks, 126), VROWW(p, blocks, 127)
#define VERIF_UF_ROW(p, blocks, key, ctr, fl, fs, fe)                                     \
  __CPROVER_uninterpreted_blake3_row(VROW(p, blocks), VCV(key), (uint64_t)(ctr), (uint8_t)(fl), \
                                     (uint8_t)(fs), (uint8_t)(fe), (size_t)(blocks))

/* result selectors */
#define VBYTE(v, j) ((uint8_t)((v) >> (8 * (size_t)(j))))
#define VWORD64(v, w) ((uint64_t)((v) >> (64 * (w))))
/* 8 cv words / 32 bytes / 64 bytes equal to a UF result */
#define VCVW_IS(c, v)                                                                     \
  (VC64(c, 0) == VWORD64(v, 0) && VC64(c, 1) == VWORD64(v, 1) && VC64(c, 2) == VWORD64(v, 2) &&   \
   VC64(c, 3) == VWORD64(v, 3))
#define VB32_IS(b, v)                                                                     \
  (VW64(b, 0) == VWORD64(v, 0) && VW64(b, 1) == VWORD64(v, 1) && VW64(b, 2) == VWORD64(v, 2) &&   \
   VW64(b, 3) == VWORD64(v, 3))
#define VB64_IS(b, v)                                                                     \
  (VB32_IS(b, v) && VW64(b, 4) == VWORD64(v, 4) && VW64(b, 5) == VWORD64(v, 5) &&         \
   VW64(b, 6) == VWORD64(v, 6) && VW64(b, 7) == VWORD64(v, 7))
#define VB32_EQ(a, b)                                                                     \
  (VW64(a, 0) == VW64(b, 0) && VW64(a, 1) == VW64(b, 1) && VW64(a, 2) == VW64(b, 2) && VW64(a, 3) == VW64(b, 3))

/* ---- the ghost witness byte --------------------------------------------------------- */
static const uint8_t *verif_w;
#define VPOFF(p) ((size_t)__CPROVER_POINTER_OFFSET(p))
/* verif_w points into base[0..n) */
#define VW_IN(base, n)                                                                    \
  (__CPROVER_same_object(verif_w, (base)) && VPOFF(verif_w) >= VPOFF(base) &&             \
   VPOFF(verif_w) - VPOFF(base) < (size_t)(n))
/* its index relative to base */
#define VW_IDX(base) (VPOFF(verif_w) - VPOFF(base))

#define VERIF_FN_PROLOGUE()                                                               \
  do {                                                                                    \
    const uint8_t *verif_nd_w_;                                                           \
    verif_w = verif_nd_w_;                                                                \
  } while (0)

#endif
