/* all arguments nondeterministic: the contract's requires clauses (is_fresh, lengths,
 * data invariants) define the domain; pointers are allocated by __CPROVER_is_fresh */
void harness(void) {
  VERIF_PROLOGUE();
  blake3_hasher *self;
  const void *context;
  size_t context_len;
  blake3_hasher_init_derive_key_raw(self, context, context_len);
  VERIF_REACHABLE();
}
