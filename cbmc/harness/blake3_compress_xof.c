#include "kernel_compress_in_place.h"
HARNESS_COMPRESS_XOF(blake3_compress_xof)
