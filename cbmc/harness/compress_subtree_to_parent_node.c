/* all arguments nondeterministic: the contract's requires clauses (is_fresh, lengths,
 * data invariants) define the domain; pointers are allocated by __CPROVER_is_fresh */
void harness(void) {
  VERIF_PROLOGUE();
  const uint8_t *input;
  size_t input_len;
  const uint32_t *key;
  uint64_t chunk_counter;
  uint8_t flags;
  uint8_t *out;
  bool use_tbb;
  compress_subtree_to_parent_node(input, input_len, key, chunk_counter, flags, out, use_tbb);
  VERIF_REACHABLE();
}
