/* all arguments nondeterministic: the contract's requires clauses (is_fresh, lengths,
 * data invariants) define the domain; pointers are allocated by __CPROVER_is_fresh */
void harness(void) {
  VERIF_PROLOGUE();
  const uint8_t *child_chaining_values;
  size_t num_chaining_values;
  const uint32_t *key;
  uint8_t flags;
  uint8_t *out;
  compress_parents_parallel(child_chaining_values, num_chaining_values, key, flags, out);
  VERIF_REACHABLE();
}
