void harness(void) {
  VERIF_PROLOGUE();
  size_t input_len;
  left_subtree_len(input_len);
  VERIF_REACHABLE();
}
