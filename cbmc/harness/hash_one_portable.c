/* blocks is unbounded (up to the object-size limit) */
void harness(void) {
  VERIF_PROLOGUE();
  size_t blocks;
  __CPROVER_assume(blocks <= VERIF_MAX_OBJ / 64);
  uint8_t *input = malloc(64 * blocks);
  __CPROVER_assume(input != NULL);
  uint32_t key[8];
  uint8_t out[32];
  uint64_t counter;
  uint8_t flags, flags_start, flags_end;
  hash_one_portable(input, blocks, key, counter, flags, flags_start, flags_end, out);
  VERIF_REACHABLE();
}
