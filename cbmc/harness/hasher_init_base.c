/* all arguments nondeterministic: the contract's requires clauses (is_fresh, lengths,
 * data invariants) define the domain; pointers are allocated by __CPROVER_is_fresh */
void harness(void) {
  VERIF_PROLOGUE();
  blake3_hasher *self;
  const uint32_t *key;
  uint8_t flags;
  hasher_init_base(self, key, flags);
  VERIF_REACHABLE();
}
