/* all arguments nondeterministic: the contract's requires clauses (is_fresh, lengths,
 * data invariants) define the domain; pointers are allocated by __CPROVER_is_fresh */
void harness(void) {
  VERIF_PROLOGUE();
  blake3_hasher *self;
  uint64_t total_len;
  hasher_merge_cv_stack(self, total_len);
  VERIF_REACHABLE();
}
