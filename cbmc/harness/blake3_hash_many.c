#include "kernel_hash_many.h"
HARNESS_HASH_MANY(blake3_hash_many)
