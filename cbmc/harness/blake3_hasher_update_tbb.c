/* all arguments nondeterministic: the contract's requires clauses (is_fresh, lengths,
 * data invariants) define the domain; pointers are allocated by __CPROVER_is_fresh */
void harness(void) {
  VERIF_PROLOGUE();
  blake3_hasher *self;
  const void *input;
  size_t input_len;
  blake3_hasher_update_tbb(self, input, input_len);
  VERIF_REACHABLE();
}
