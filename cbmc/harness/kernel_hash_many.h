/* up to 16 rows of 64*blocks bytes each, allocated by the harness (a quantified requires
 * cannot make row pointers valid); out has exactly 32*num_inputs bytes */
#define HARNESS_HASH_MANY(F)                                                             \
  void harness(void) {                                                                   \
    VERIF_HAVOC_GLOBALS();                                                               \
    const uint8_t *rows[16];                                                             \
    size_t num_inputs, blocks;                                                           \
    __CPROVER_assume(num_inputs <= 16 && blocks <= VERIF_MAX_OBJ / 64);                  \
    for (size_t i = 0; i < 16; i++) {                                                    \
      if (i < num_inputs) {                                                              \
        uint8_t *r = malloc(64 * blocks);                                                \
        __CPROVER_assume(r != NULL);                                                     \
        rows[i] = r;                                                                     \
      }                                                                                  \
    }                                                                                    \
    uint32_t key[8];                                                                     \
    uint8_t *out = num_inputs ? malloc(32 * num_inputs) : NULL;                          \
    __CPROVER_assume(num_inputs == 0 || out != NULL);                                    \
    uint64_t counter;                                                                    \
    bool increment_counter;                                                              \
    uint8_t flags, flags_start, flags_end;                                               \
    F(rows, num_inputs, blocks, key, counter, increment_counter, flags, flags_start,     \
      flags_end, out);                                                                   \
    VERIF_REACHABLE();                                                            \
  }
