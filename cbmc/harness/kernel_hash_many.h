/* up to 16 rows of 64*blocks bytes each, set up by the harness (a quantified requires cannot
 * make row pointers valid).  As in compress_chunks_parallel / compress_parents_parallel the
 * rows are consecutive slices of one buffer that has exactly num_inputs*64*blocks bytes;
 * out has exactly 32*num_inputs bytes */
#define HARNESS_HASH_MANY(F)                                                             \
  void harness(void) {                                                                   \
    VERIF_HAVOC_GLOBALS();                                                               \
    const uint8_t *rows[16];                                                             \
    size_t num_inputs, blocks;                                                           \
    __CPROVER_assume(num_inputs <= 16 && blocks <= VERIF_MAX_OBJ / 64);                  \
    __CPROVER_assume(blocks <= VERIF_MAX_OBJ / 64 / 16);                                 \
    uint8_t *base = malloc(num_inputs * 64 * blocks);                                    \
    __CPROVER_assume(base != NULL);                                                      \
    for (size_t i = 0; i < 16; i++) {                                                    \
      if (i < num_inputs) {                                                              \
        rows[i] = base + i * 64 * blocks;                                                \
      }                                                                                  \
    }                                                                                    \
    uint32_t key[8];                                                                     \
    uint8_t *out = num_inputs ? malloc(32 * num_inputs) : NULL;                          \
    __CPROVER_assume(num_inputs == 0 || out != NULL);                                    \
    uint64_t counter;                                                                    \
    bool increment_counter;                                                              \
    uint8_t flags, flags_start, flags_end;                                               \
    F(rows, num_inputs, blocks, key, counter, increment_counter, flags, flags_start,     \
      flags_end, out);                                                                   \
    VERIF_REACHABLE();                                                            \
  }
