/* 16 rows of exactly 64*blocks bytes each, allocated by the harness (a quantified requires
 * cannot make row pointers valid); only the first num_inputs <= 16 are passed;
 * out has 32*16 bytes, of which only out[0..32*num_inputs) is assignable */
#define HARNESS_HASH_MANY(F)                                                             \
  void harness(void) {                                                                   \
    VERIF_PROLOGUE();                                                            \
    const uint8_t *rows[16];                                                             \
    size_t num_inputs, blocks;                                                           \
    __CPROVER_assume(num_inputs <= 16 && blocks <= VERIF_MAX_OBJ / 64);                  \
    for (size_t i = 0; i < 16; i++) {                                                    \
      uint8_t *r = malloc(64 * blocks);                                                  \
      __CPROVER_assume(r != NULL);                                                       \
      rows[i] = r;                                                                       \
    }                                                                                    \
    uint32_t key[8];                                                                     \
    /* 512 = 32*16 bytes; writes beyond out[0..32*num_inputs) violate the assigns clause */ \
    uint8_t out[512];                                                                    \
    uint64_t counter;                                                                    \
    bool increment_counter;                                                              \
    uint8_t flags, flags_start, flags_end;                                               \
    F(rows, num_inputs, blocks, key, counter, increment_counter, flags, flags_start,     \
      flags_end, out);                                                                   \
    VERIF_REACHABLE();                                                            \
  }
