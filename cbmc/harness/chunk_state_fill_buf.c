void harness(void) {
  VERIF_PROLOGUE();
  blake3_chunk_state *self;
  const uint8_t *input;
  size_t input_len;
  chunk_state_fill_buf(self, input, input_len);
  VERIF_REACHABLE();
}
