/* all arguments nondeterministic: the contract's requires clauses (is_fresh, lengths,
 * data invariants) define the domain; pointers are allocated by __CPROVER_is_fresh */
void harness(void) {
  VERIF_PROLOGUE();
  get_cpu_features();
  VERIF_REACHABLE();
}
