/* Sanity of the specification transcription AND of the C kernel on the official test vector
 * for the empty input: one block, block_len 0, counter 0, flags CHUNK_START|CHUNK_END|ROOT,
 * BLAKE3("") = af1349b9 f5f9a1a6 a0404dea 36dcc949 9bcb25c9 adc112b7 cc9a93ca e41f3262.
 * Everything is concrete: cbmc evaluates it by constant propagation. */
#include "../compress_spec.h"
void harness(void) {
  VERIF_PROLOGUE();
  static const uint8_t digest[32] = {
      0xaf, 0x13, 0x49, 0xb9, 0xf5, 0xf9, 0xa1, 0xa6, 0xa0, 0x40, 0x4d, 0xea, 0x36, 0xdc, 0xc9, 0x49,
      0x9b, 0xcb, 0x25, 0xc9, 0xad, 0xc1, 0x12, 0xb7, 0xcc, 0x9a, 0x93, 0xca, 0xe4, 0x1f, 0x32, 0x62};
  uint32_t mw[16] = {0}, spec_out[16];
  uint8_t block[64] = {0}, out[64];
  uint8_t fl = CHUNK_START | CHUNK_END | ROOT;
  spec_compress(SPEC_IV, mw, 0, 0, fl, spec_out);
  blake3_compress_xof_portable(IV, block, 0, 0, fl, out);
  for (int i = 0; i < 8; i++) {
    __CPROVER_assert(spec_out[i] == spec_le32(digest + 4 * i), "paper spec reproduces BLAKE3(\"\")");
    __CPROVER_assert(spec_le32(out + 4 * i) == spec_le32(digest + 4 * i), "C kernel reproduces BLAKE3(\"\")");
  }
  VERIF_REACHABLE();
}
