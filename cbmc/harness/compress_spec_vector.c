/* Sanity of the specification transcription AND of the C kernel on two official test vectors
 * (test_vectors/test_vectors.json, input byte i = i % 251), each a single compression with
 * counter 0 and flags CHUNK_START|CHUNK_END|ROOT:
 *   input_len  0: af1349b9 f5f9a1a6 a0404dea 36dcc949 9bcb25c9 adc112b7 cc9a93ca e41f3262
 *   input_len 64: 4eed7141 ea4a5cd4 b788606b d23f46e2 12af9cac ebacdc7d 1f4c6dc7 f2511b98
 * (the second one has 16 distinct non-zero message words, so the message schedule matters).
 * Everything is concrete: cbmc evaluates it by constant propagation. */
#include "../compress_spec.h"
void harness(void) {
  VERIF_PROLOGUE();
  static const uint8_t digest0[32] = {
      0xaf, 0x13, 0x49, 0xb9, 0xf5, 0xf9, 0xa1, 0xa6, 0xa0, 0x40, 0x4d, 0xea, 0x36, 0xdc, 0xc9, 0x49,
      0x9b, 0xcb, 0x25, 0xc9, 0xad, 0xc1, 0x12, 0xb7, 0xcc, 0x9a, 0x93, 0xca, 0xe4, 0x1f, 0x32, 0x62};
  static const uint8_t digest64[32] = {
      0x4e, 0xed, 0x71, 0x41, 0xea, 0x4a, 0x5c, 0xd4, 0xb7, 0x88, 0x60, 0x6b, 0xd2, 0x3f, 0x46, 0xe2,
      0x12, 0xaf, 0x9c, 0xac, 0xeb, 0xac, 0xdc, 0x7d, 0x1f, 0x4c, 0x6d, 0xc7, 0xf2, 0x51, 0x1b, 0x98};
  uint8_t fl = CHUNK_START | CHUNK_END | ROOT;
  uint32_t mw[16] = {0}, spec_out[16];
  uint8_t block[64] = {0}, out[64];
  spec_compress(SPEC_IV, mw, 0, 0, fl, spec_out);
  blake3_compress_xof_portable(IV, block, 0, 0, fl, out);
  for (int i = 0; i < 8; i++) {
    __CPROVER_assert(spec_out[i] == spec_le32(digest0 + 4 * i), "paper spec reproduces BLAKE3 of the empty input");
    __CPROVER_assert(spec_le32(out + 4 * i) == spec_le32(digest0 + 4 * i), "C kernel reproduces BLAKE3 of the empty input");
  }
  uint32_t cv[8];
  for (int i = 0; i < 8; i++) cv[i] = IV[i];
  for (int i = 0; i < 64; i++) block[i] = (uint8_t)i;
  for (int i = 0; i < 16; i++) mw[i] = spec_le32(block + 4 * i);
  spec_compress(SPEC_IV, mw, 0, 64, fl, spec_out);
  blake3_compress_xof_portable(IV, block, 64, 0, fl, out);
  blake3_compress_in_place_portable(cv, block, 64, 0, fl);
  for (int i = 0; i < 8; i++) {
    __CPROVER_assert(spec_out[i] == spec_le32(digest64 + 4 * i), "paper spec reproduces the 64-byte vector");
    __CPROVER_assert(spec_le32(out + 4 * i) == spec_le32(digest64 + 4 * i), "C compress_xof reproduces the 64-byte vector");
    __CPROVER_assert(cv[i] == spec_le32(digest64 + 4 * i), "C compress_in_place reproduces the 64-byte vector");
  }
  VERIF_REACHABLE();
}
