/* objects allocated by the harness: key may be the hasher's own key (same object as self),
 * exactly as in blake3_hasher_reset / blake3_hasher_update_base, or a separate array */
void harness(void) {
  VERIF_PROLOGUE();
  blake3_hasher h; /* nondeterministic contents */
  uint32_t other_key[8];
  uint64_t chunk_counter;
  _Bool alias;
  chunk_state_reset(&h.chunk, alias ? h.key : other_key, chunk_counter);
  VERIF_REACHABLE();
}
