/* functional twin of kernel_hash_many.h: the contract's UF clause speaks about blocks <= 16 only, so
 * the 16 rows are 16 separate fixed 1024-byte objects (constant size and 64-bit elements: no array
 * theory, constant offsets inside every row); num_inputs, blocks <= 16 and every scalar are
 * nondeterministic; the function is told that a row has 64*blocks bytes */
#define ROW(i) uint64_t row##i[128]; rows[i] = (const uint8_t *)row##i
void harness(void) {
  VERIF_PROLOGUE();
  const uint8_t *rows[16];
  ROW(0); ROW(1); ROW(2); ROW(3); ROW(4); ROW(5); ROW(6); ROW(7);
  ROW(8); ROW(9); ROW(10); ROW(11); ROW(12); ROW(13); ROW(14); ROW(15);
  size_t num_inputs, blocks;
  __CPROVER_assume(num_inputs <= 16 && blocks <= 16);
  uint32_t key[8];
  uint8_t out[512];
  uint64_t counter;
  bool increment_counter;
  uint8_t flags, flags_start, flags_end;
  blake3_hash_many(rows, num_inputs, blocks, key, counter, increment_counter, flags, flags_start,
                   flags_end, out);
  VERIF_REACHABLE();
}
