/* functional twin of kernel_hash_many.h: the contract's UF clause speaks about blocks <= 16 only, so
 * the 16 rows are fixed 1024-byte arrays (constant-size objects need no array theory); num_inputs,
 * blocks <= 16 and every scalar are nondeterministic; rows may also be shorter than 1024 bytes as far as
 * the function can tell (it is given 64*blocks) */
void harness(void) {
  VERIF_PROLOGUE();
  uint64_t row_words[16][128];     /* 1024 bytes each; 64-bit elements keep cbmc from using array theory */
  const uint8_t *rows[16];
  size_t num_inputs, blocks;
  __CPROVER_assume(num_inputs <= 16 && blocks <= 16);
  for (size_t i = 0; i < 16; i++) rows[i] = (const uint8_t *)row_words[i];
  uint32_t key[8];
  uint8_t out[512];
  uint64_t counter;
  bool increment_counter;
  uint8_t flags, flags_start, flags_end;
  blake3_hash_many(rows, num_inputs, blocks, key, counter, increment_counter, flags, flags_start,
                   flags_end, out);
  VERIF_REACHABLE();
}
