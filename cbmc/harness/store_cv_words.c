/* all arguments nondeterministic: the contract's requires clauses (is_fresh, lengths,
 * data invariants) define the domain; pointers are allocated by __CPROVER_is_fresh */
void harness(void) {
  VERIF_PROLOGUE();
  uint8_t *bytes_out;
  uint32_t *cv_words;
  store_cv_words(bytes_out, cv_words);
  VERIF_REACHABLE();
}
