/* all arguments nondeterministic: the contract's requires clauses (is_fresh, lengths,
 * data invariants) define the domain; pointers are allocated by __CPROVER_is_fresh */
void harness(void) {
  VERIF_PROLOGUE();
  blake3_version();
  VERIF_REACHABLE();
}
