/* all arguments nondeterministic: the contract's requires clauses (is_fresh, lengths,
 * data invariants) define the domain; pointers are allocated by __CPROVER_is_fresh */
void harness(void) {
  VERIF_PROLOGUE();
  blake3_chunk_state *self;
  const uint32_t *key;
  uint8_t flags;
  chunk_state_init(self, key, flags);
  VERIF_REACHABLE();
}
