void harness(void) {
  VERIF_PROLOGUE();
  uint64_t x;
  round_down_to_power_of_2(x);
  VERIF_REACHABLE();
}
