/* all arguments nondeterministic: the contract's requires clauses (is_fresh, lengths,
 * data invariants) define the domain; pointers are allocated by __CPROVER_is_fresh */
void harness(void) {
  VERIF_PROLOGUE();
  const output_t *self;
  uint64_t seek;
  uint8_t *out;
  size_t out_len;
  output_root_bytes(self, seek, out, out_len);
  VERIF_REACHABLE();
}
