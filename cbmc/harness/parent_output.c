/* block and key may live in one object (hasher_merge_cv_stack passes &self->cv_stack[..], self->key) */
void harness(void) {
  VERIF_PROLOGUE();
  blake3_hasher h; /* nondeterministic contents */
  uint32_t other_key[8];
  uint8_t other_block[64];
  _Bool a, b;
  size_t idx;
  uint8_t flags;
  __CPROVER_assume(idx == 0 || idx == 1 || idx == 53);
  parent_output(a ? &h.cv_stack[idx * 32] : other_block, b ? h.key : other_key, flags);
  VERIF_REACHABLE();
}
