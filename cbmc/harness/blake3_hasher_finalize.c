/* all arguments nondeterministic: the contract's requires clauses (is_fresh, lengths,
 * data invariants) define the domain; pointers are allocated by __CPROVER_is_fresh */
void harness(void) {
  VERIF_PROLOGUE();
  const blake3_hasher *self;
  uint8_t *out;
  size_t out_len;
  blake3_hasher_finalize(self, out, out_len);
  VERIF_REACHABLE();
}
