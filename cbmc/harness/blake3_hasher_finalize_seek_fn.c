/* functional unit of blake3_hasher_finalize_seek, enforce = "callees": the harness calls the function
 * directly (no DFCC wrapper around it: the frame is the base unit's business), assumes the contract's
 * requires clauses and asserts the contract's FN ensures clause VFIN_POST; the callees
 * (output_chaining_value, output_root_bytes) are replaced by their contracts.
 * The hasher is a harness object with an arbitrary state satisfying HASHER_WF and the function is
 * called for ONE concrete (stack length, bytes pending?) combination per path, so that the roll-up
 * loop unwinds exactly and every stack index is a constant.  seek and out_len are unconstrained,
 * the output buffer has exactly out_len bytes (symbolic). */
static void verif_fin_case(blake3_hasher *h, uint8_t len, _Bool pending) {
  uint64_t seek;
  size_t out_len;
  h->cv_stack_len = len;
  if (!pending) {           /* CS_LEN == 0 under CS_WF  <=>  buf_len == 0 (== blocks_compressed) */
    h->chunk.buf_len = 0;
    h->chunk.blocks_compressed = 0;
  }
  __CPROVER_assume(0 < out_len && out_len <= VERIF_MAX_OBJ);
  __CPROVER_assume(HASHER_WF(h) && (pending == (CS_LEN(&h->chunk) > 0)) && VERIF_GCPU_OK);
  uint8_t *out = malloc(out_len);
  __CPROVER_assume(out != NULL);
  blake3_hasher_finalize_seek(h, seek, out, out_len);
  __CPROVER_assert(VFIN_POST(h, seek, out, out_len), "FN ensures of blake3_hasher_finalize_seek (VFIN_POST)");
  __CPROVER_assert(VERIF_GCPU_OK, "feature cache stays well-formed");
}

/* VERIF_FIN_CASES: bit k set = case k is part of this unit (one DFCC-replaced callee call costs about
 * 5 M clauses, so the cases are spread over two units) */
#ifndef VERIF_FIN_CASES
#define VERIF_FIN_CASES 0x7f
#endif
#define CASE(k, len, pending) if ((VERIF_FIN_CASES >> (k)) & 1) { if (which == (k)) verif_fin_case(&h, len, pending); }
void harness(void) {
  VERIF_PROLOGUE();
  blake3_hasher h;
  uint8_t which;
  __CPROVER_assume(which < 7 && ((VERIF_FIN_CASES >> which) & 1));
  CASE(0, 0, 0)   /* empty hasher: the (empty) chunk is the root */
  CASE(1, 0, 1)   /* a partial first chunk is the root */
  CASE(2, 2, 0)   /* no bytes pending: root = parent(S0, S1) */
  CASE(3, 1, 1)   /* root = parent(S0, CV(chunk)) */
  CASE(4, 3, 0)   /* root = parent(S0, P(S1, S2)) */
  CASE(5, 2, 1)   /* root = parent(S0, P(S1, CV(chunk))) */
  CASE(6, 3, 1)   /* root = parent(S0, P(S1, P(S2, CV(chunk)))) */
  VERIF_REACHABLE();
}
