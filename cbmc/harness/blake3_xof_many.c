/* outblocks is unbounded (up to the object-size limit); out has exactly 64*outblocks bytes */
void harness(void) {
  VERIF_PROLOGUE();
  output_t o;
  uint32_t other_cv[8];
  uint8_t other_block[64];
  _Bool a, b;
  uint8_t block_len, flags;
  uint64_t counter;
  size_t outblocks;
  __CPROVER_assume(outblocks <= VERIF_MAX_OBJ / 64);
  uint8_t *out = outblocks ? malloc(64 * outblocks) : NULL;
  __CPROVER_assume(outblocks == 0 || out != NULL);
#ifdef VERIF_FN
  /* proof device for the loop invariant of the fallback loop (verif/cbmc/loop_contracts.txt): what the
   * witness byte must become, computed from the arguments; the contract's ensures states it with the UF */
  if (outblocks && VW_IN(out, 64 * outblocks))
    verif_expect_byte = VBYTE(VERIF_UF_XOF(a ? o.input_cv : other_cv, b ? o.block : other_block, block_len,
                                           counter + VW_IDX(out) / 64, flags), VW_IDX(out) % 64);
#endif
  blake3_xof_many(a ? o.input_cv : other_cv, b ? o.block : other_block, block_len, counter, flags,
                  out, outblocks);
  VERIF_REACHABLE();
}
