void harness(void) {
  VERIF_PROLOGUE();
  uint64_t x;
  popcnt(x);
  VERIF_REACHABLE();
}
