void harness(void) {
  uint64_t x;
  popcnt(x);
}
