void harness(void) {
  uint64_t x;
  popcnt(x);
  VERIF_REACHABLE();
}
