/* all arguments nondeterministic: the contract's requires clauses (is_fresh, lengths,
 * data invariants) define the domain; pointers are allocated by __CPROVER_is_fresh */
void harness(void) {
  VERIF_PROLOGUE();
  const output_t *self;
  uint8_t *cv;
  output_chaining_value(self, cv);
  VERIF_REACHABLE();
}
