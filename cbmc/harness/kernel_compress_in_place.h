/* shared by the compress_in_place units: cv and block in one object (as in
 * chunk_state_update: self->cv, self->buf) or in two */
#define HARNESS_COMPRESS_IN_PLACE(F)                                                     \
  void harness(void) {                                                                   \
    VERIF_PROLOGUE();                                                            \
    blake3_chunk_state s;                                                                \
    uint8_t other_block[64];                                                             \
    _Bool alias;                                                                         \
    uint8_t block_len, flags;                                                            \
    uint64_t counter;                                                                    \
    F(s.cv, alias ? s.buf : other_block, block_len, counter, flags);                     \
    VERIF_REACHABLE();                                                            \
  }
#define HARNESS_COMPRESS_XOF(F)                                                          \
  void harness(void) {                                                                   \
    VERIF_PROLOGUE();                                                            \
    output_t o;                                                                          \
    uint32_t other_cv[8];                                                                \
    uint8_t other_block[64];                                                             \
    uint8_t out[64];                                                                     \
    _Bool a, b;                                                                          \
    uint8_t block_len, flags;                                                            \
    uint64_t counter;                                                                    \
    F(a ? o.input_cv : other_cv, b ? o.block : other_block, block_len, counter, flags, out); \
    VERIF_REACHABLE();                                                            \
  }
