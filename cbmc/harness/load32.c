/* all arguments nondeterministic: the contract's requires clauses (is_fresh, lengths,
 * data invariants) define the domain; pointers are allocated by __CPROVER_is_fresh */
void harness(void) {
  VERIF_PROLOGUE();
  const void *src;
  load32(src);
  VERIF_REACHABLE();
}
