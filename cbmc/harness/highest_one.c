/* every argument is nondeterministic; the contract's requires clause restricts the domain */
void harness(void) {
  VERIF_PROLOGUE();
  uint64_t x;
  highest_one(x);
  VERIF_REACHABLE();
}
