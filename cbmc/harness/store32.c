/* all arguments nondeterministic: the contract's requires clauses (is_fresh, lengths,
 * data invariants) define the domain; pointers are allocated by __CPROVER_is_fresh */
void harness(void) {
  VERIF_PROLOGUE();
  void *dst;
  uint32_t w;
  store32(dst, w);
  VERIF_REACHABLE();
}
