/* all arguments nondeterministic: the contract's requires clauses (is_fresh, lengths,
 * data invariants) define the domain; pointers are allocated by __CPROVER_is_fresh */
void harness(void) {
  VERIF_PROLOGUE();
  blake3_chunk_state *self;
  const uint8_t *input;
  size_t input_len;
  chunk_state_update(self, input, input_len);
  VERIF_REACHABLE();
}
