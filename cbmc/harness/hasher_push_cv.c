/* all arguments nondeterministic: the contract's requires clauses (is_fresh, lengths,
 * data invariants) define the domain; pointers are allocated by __CPROVER_is_fresh */
void harness(void) {
  VERIF_PROLOGUE();
  blake3_hasher *self;
  uint8_t *new_cv;
  uint64_t chunk_counter;
  hasher_push_cv(self, new_cv, chunk_counter);
  VERIF_REACHABLE();
}
