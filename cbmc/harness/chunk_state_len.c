/* all arguments nondeterministic: the contract's requires clauses (is_fresh, lengths,
 * data invariants) define the domain; pointers are allocated by __CPROVER_is_fresh */
void harness(void) {
  VERIF_PROLOGUE();
  const blake3_chunk_state *self;
  chunk_state_len(self);
  VERIF_REACHABLE();
}
