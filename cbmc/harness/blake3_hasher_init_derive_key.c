/* context: a NUL-terminated string of arbitrary length n; the ghost variables name the
 * string and its length so that the (assumed) contract of strlen and the extra requires
 * clause on blake3_hasher_init_derive_key_raw can talk about them */
void harness(void) {
  VERIF_PROLOGUE();
  size_t n;
  __CPROVER_assume(n < VERIF_MAX_OBJ);
  char *ctx = malloc(n + 1);
  __CPROVER_assume(ctx != NULL);
  ctx[n] = 0;
  verif_ghost_str = ctx;
  verif_ghost_strlen = n;
  blake3_hasher *self = malloc(sizeof(blake3_hasher));
  __CPROVER_assume(self != NULL);
  blake3_hasher_init_derive_key(self, ctx);
  VERIF_REACHABLE();
}
