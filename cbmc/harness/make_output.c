/* cv and block may live in one object (chunk_state_output passes self->cv, self->buf) */
void harness(void) {
  VERIF_PROLOGUE();
  blake3_chunk_state s; /* nondeterministic contents */
  uint32_t other_cv[8];
  uint8_t other_block[64];
  _Bool a, b;
  uint8_t block_len, flags;
  uint64_t counter;
  make_output(a ? s.cv : other_cv, b ? s.buf : other_block, block_len, counter, flags);
  VERIF_REACHABLE();
}
