/* state is a separate 16-word object; cv and block in one object (a chunk state) or in two */
void harness(void) {
  VERIF_PROLOGUE();
  uint32_t state[16];
  blake3_chunk_state s;
  uint32_t other_cv[8];
  uint8_t other_block[64];
  _Bool a, b;
  uint8_t block_len, flags;
  uint64_t counter;
  compress_pre(state, a ? s.cv : other_cv, b ? s.buf : other_block, block_len, counter, flags);
  VERIF_REACHABLE();
}
