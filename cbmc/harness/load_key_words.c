/* all arguments nondeterministic: the contract's requires clauses (is_fresh, lengths,
 * data invariants) define the domain; pointers are allocated by __CPROVER_is_fresh */
void harness(void) {
  VERIF_PROLOGUE();
  const uint8_t *key;
  uint32_t *key_words;
  load_key_words(key, key_words);
  VERIF_REACHABLE();
}
