/* C portable compression == paper specification, for EVERY (cv, block, block_len, counter,
 * flags): loop-free after unwinding the 7 rounds, full symbolic domain, no contract. */
#include "../compress_spec.h"
void harness(void) {
  VERIF_PROLOGUE();
  uint32_t cv[8], cv_in_place[8], mw[16], spec_out[16];
  uint8_t block[64], out[64];
  uint8_t block_len, flags;
  uint64_t counter;
  for (int i = 0; i < 8; i++) cv_in_place[i] = cv[i];
  for (int i = 0; i < 16; i++) mw[i] = spec_le32(block + 4 * i);
  spec_compress(cv, mw, counter, block_len, flags, spec_out);
  blake3_compress_in_place_portable(cv_in_place, block, block_len, counter, flags);
  blake3_compress_xof_portable(cv, block, block_len, counter, flags, out);
  for (int i = 0; i < 8; i++)
    __CPROVER_assert(cv_in_place[i] == spec_out[i], "compress_in_place_portable: cv word == spec");
  for (int i = 0; i < 16; i++)
    __CPROVER_assert(spec_le32(out + 4 * i) == spec_out[i], "compress_xof_portable: output word == spec");
  VERIF_REACHABLE();
}
