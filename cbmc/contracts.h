/* contracts.h -- CBMC function contracts for the BLAKE3 C library.
 *
 * Included AFTER the repository sources (blake3.c, blake3_dispatch.c, blake3_portable.c are
 * textually included into one translation unit, so `static inline` functions, `output_t`
 * and the static `g_cpu_features` are in scope).  CBMC merges the clauses of these
 * re-declarations into the contract of the function.  The same contract text is used both
 * when a function is checked (`--enforce-contract f`) and when a caller relies on it
 * (`--replace-call-with-contract f`), which is what makes the verification modular.
 *
 * Pointer validity:
 *   __CPROVER_is_fresh(p, n)  - p points to n bytes of an object distinct from every other
 *                               is_fresh argument of the same call (checked at call sites).
 *   __CPROVER_r_ok / w_ok     - used instead where the library itself passes two pointers
 *                               into one object (cv and block of a chunk state / output_t,
 *                               the rows of hash_many); the harness allocates the objects.
 */
#ifndef VERIF_CBMC_CONTRACTS_H
#define VERIF_CBMC_CONTRACTS_H

#define SPEC_LOAD32(p, i)                                                                \
  (((uint32_t)(p)[4 * (i) + 0]) | ((uint32_t)(p)[4 * (i) + 1] << 8) |                    \
   ((uint32_t)(p)[4 * (i) + 2] << 16) | ((uint32_t)(p)[4 * (i) + 3] << 24))

#define WORDS8_EQ(a, b)                                                                  \
  ((a)[0] == (b)[0] && (a)[1] == (b)[1] && (a)[2] == (b)[2] && (a)[3] == (b)[3] &&       \
   (a)[4] == (b)[4] && (a)[5] == (b)[5] && (a)[6] == (b)[6] && (a)[7] == (b)[7])
#define BYTES64_ZERO(a) (__CPROVER_forall { size_t vi_; (vi_ < 64) ==> (a)[vi_] == 0 })
#define BYTES64_EQ(a, b) (__CPROVER_forall { size_t vj_; (vj_ < 64) ==> (a)[vj_] == (b)[vj_] })

/* the state hasher_init_base(key, fl) produces, minus the key itself */
#define CS_IS_INIT(s, keyp, fl, ctr)                                                     \
  (WORDS8_EQ((s)->cv, keyp) && (s)->chunk_counter == (ctr) && BYTES64_ZERO((s)->buf) &&  \
   (s)->buf_len == 0 && (s)->blocks_compressed == 0 && (s)->flags == (fl))
#define HASHER_IS_INIT(h, keyp, fl)                                                      \
  (WORDS8_EQ((h)->key, keyp) && CS_IS_INIT(&(h)->chunk, keyp, fl, 0) &&                  \
   (h)->cv_stack_len == 0)

/* ===================================================================================== */
/* blake3_impl.h integer helpers: exact over the whole machine domain                    */
/* ===================================================================================== */

static unsigned int highest_one(uint64_t x)
__CPROVER_requires(x != 0)
__CPROVER_assigns()
__CPROVER_ensures(__CPROVER_return_value < 64)
__CPROVER_ensures((x >> __CPROVER_return_value) == 1)
;

static inline unsigned int popcnt(uint64_t x)
__CPROVER_assigns()
__CPROVER_ensures(__CPROVER_return_value == SPEC_POPCOUNT64(x))
__CPROVER_ensures((size_t)__CPROVER_return_value == POPCNT(x))
;

static inline uint64_t round_down_to_power_of_2(uint64_t x)
__CPROVER_assigns()
__CPROVER_ensures(IS_POW2(__CPROVER_return_value))
__CPROVER_ensures(x == 0 ==> __CPROVER_return_value == 1)
__CPROVER_ensures(x != 0 ==> (__CPROVER_return_value <= x && (x >> 1) < __CPROVER_return_value))
;

/* r = 1024 * 2^k, r < input_len <= 2r : the unique such r */
static inline size_t left_subtree_len(size_t input_len)
__CPROVER_requires(input_len > 1024)
__CPROVER_assigns()
__CPROVER_ensures(__CPROVER_return_value % 1024 == 0 && IS_POW2(__CPROVER_return_value / 1024))
__CPROVER_ensures(__CPROVER_return_value < input_len)
__CPROVER_ensures(input_len - __CPROVER_return_value <= __CPROVER_return_value)
;

static inline uint32_t load32(const void *src)
__CPROVER_requires(__CPROVER_is_fresh(src, 4))
__CPROVER_assigns()
__CPROVER_ensures(__CPROVER_return_value == SPEC_LOAD32((const uint8_t *)src, 0))
;

static inline void store32(void *dst, uint32_t w)
__CPROVER_requires(__CPROVER_is_fresh(dst, 4))
__CPROVER_assigns(__CPROVER_object_upto(dst, 4))
__CPROVER_ensures(SPEC_LOAD32((uint8_t *)dst, 0) == w)
;

static inline void load_key_words(const uint8_t key[BLAKE3_KEY_LEN], uint32_t key_words[8])
__CPROVER_requires(__CPROVER_is_fresh(key, 32))
__CPROVER_requires(__CPROVER_is_fresh(key_words, 32))
__CPROVER_assigns(__CPROVER_object_upto(key_words, 32))
__CPROVER_ensures(key_words[0] == SPEC_LOAD32(key, 0) && key_words[1] == SPEC_LOAD32(key, 1) &&
                  key_words[2] == SPEC_LOAD32(key, 2) && key_words[3] == SPEC_LOAD32(key, 3) &&
                  key_words[4] == SPEC_LOAD32(key, 4) && key_words[5] == SPEC_LOAD32(key, 5) &&
                  key_words[6] == SPEC_LOAD32(key, 6) && key_words[7] == SPEC_LOAD32(key, 7))
;

static inline void store_cv_words(uint8_t bytes_out[32], uint32_t cv_words[8])
__CPROVER_requires(__CPROVER_is_fresh(bytes_out, 32))
__CPROVER_requires(__CPROVER_is_fresh(cv_words, 32))
__CPROVER_assigns(__CPROVER_object_upto(bytes_out, 32))
__CPROVER_ensures(cv_words[0] == SPEC_LOAD32(bytes_out, 0) && cv_words[1] == SPEC_LOAD32(bytes_out, 1) &&
                  cv_words[2] == SPEC_LOAD32(bytes_out, 2) && cv_words[3] == SPEC_LOAD32(bytes_out, 3) &&
                  cv_words[4] == SPEC_LOAD32(bytes_out, 4) && cv_words[5] == SPEC_LOAD32(bytes_out, 5) &&
                  cv_words[6] == SPEC_LOAD32(bytes_out, 6) && cv_words[7] == SPEC_LOAD32(bytes_out, 7))
;

/* ===================================================================================== */
/* kernels and dispatch (blake3_dispatch.c, blake3_portable.c, SIMD back ends)           */
/* ===================================================================================== */

/* documented domain of a compression: 32-byte cv, 64-byte block, block_len <= 64 */
#define COMPRESS_IN_PLACE_REQUIRES                                                       \
  __CPROVER_requires(__CPROVER_w_ok(cv, 32))                                             \
  __CPROVER_requires(__CPROVER_r_ok(block, 64))                                          \
  __CPROVER_requires(block_len <= 64)
#define COMPRESS_XOF_REQUIRES                                                            \
  __CPROVER_requires(__CPROVER_r_ok(cv, 32))                                             \
  __CPROVER_requires(__CPROVER_r_ok(block, 64))                                          \
  __CPROVER_requires(block_len <= 64)                                                    \
  __CPROVER_requires(__CPROVER_w_ok(out, 64))
/* units *_fn only (FN(...) is empty otherwise): the result is an uninterpreted function of ALL
 * value arguments (spec_fn.h); inputs and output must not overlap for that to be meaningful */
#define VERIF_DISJ(a, na, b, nb)                                                         \
  (!__CPROVER_same_object(a, b) || VPOFF(a) + (size_t)(na) <= VPOFF(b) ||                \
   VPOFF(b) + (size_t)(nb) <= VPOFF(a))
#define COMPRESS_IN_PLACE_FN                                                             \
  FN(__CPROVER_requires(VERIF_DISJ(cv, 32, block, 64)))                                  \
  FN(__CPROVER_ensures(V256(cv) == VERIF_UF_CIP_OLDCV(cv, block, block_len, counter, flags)))
#define COMPRESS_XOF_FN                                                                  \
  FN(__CPROVER_requires(VERIF_DISJ(out, 64, cv, 32) && VERIF_DISJ(out, 64, block, 64)))  \
  FN(__CPROVER_ensures(V512(out) == VERIF_UF_XOF(cv, block, block_len, counter, flags)))
/* block b of the output is the XOF block with counter + b: every byte, via the witness */
#define XOF_MANY_FN                                                                      \
  FN(__CPROVER_requires(outblocks == 0 || (VERIF_DISJ(out, 64 * outblocks, cv, 32) &&    \
                                           VERIF_DISJ(out, 64 * outblocks, block, 64)))) \
  FN(__CPROVER_ensures(VW_IN(out, 64 * outblocks) ==>                                    \
       VW_AT(out) == VBYTE(VERIF_UF_XOF(cv, block, block_len, counter + VW_IDX(out) / 64, flags), \
                         VW_IDX(out) % 64)))
#define XOF_MANY_REQUIRES                                                                \
  __CPROVER_requires(__CPROVER_r_ok(cv, 32))                                             \
  __CPROVER_requires(__CPROVER_r_ok(block, 64))                                          \
  __CPROVER_requires(block_len <= 64)                                                    \
  __CPROVER_requires(outblocks <= VERIF_MAX_OBJ / 64)                                    \
  __CPROVER_requires(outblocks == 0 || __CPROVER_w_ok(out, 64 * outblocks))
/* at most 16 inputs (= MAX_SIMD_DEGREE = MAX_SIMD_DEGREE_OR_2 on x86): the bound every
 * caller in blake3.c is proven to respect (units compress_chunks_parallel and
 * compress_parents_parallel check this precondition at their call sites) */
#define HASH_MANY_REQUIRES                                                               \
  __CPROVER_requires(num_inputs <= 16)                                                   \
  __CPROVER_requires(blocks <= VERIF_MAX_OBJ / 64)                                       \
  __CPROVER_requires(__CPROVER_r_ok(inputs, num_inputs * sizeof(const uint8_t *)))       \
  __CPROVER_requires(ROWS16_OK(inputs, num_inputs, 64 * blocks))                         \
  __CPROVER_requires(__CPROVER_r_ok(key, 32))                                            \
  __CPROVER_requires(num_inputs == 0 || __CPROVER_w_ok(out, 32 * num_inputs))

/* *_fn: output i (32 bytes) is an uninterpreted function of the WHOLE row i (64*blocks bytes, for
 * blocks <= 16: the only values blake3.c uses are 1 and 16), the 8 key words, counter (+ i iff
 * increment_counter), flags, flags_start, flags_end and blocks; every output byte via the witness.
 * The output must lie in another OBJECT than rows, key and pointer array (true of every call in
 * blake3.c, checked at each of them): the clause reads the inputs in the post-state */
#define ROW_DISJ(inputs, n, i, sz, out) ((n) > (i) ==> !__CPROVER_same_object(out, (inputs)[i]))
#define ROWS16_DISJ(inputs, n, sz, out)                                                  \
  (ROW_DISJ(inputs, n, 0, sz, out) && ROW_DISJ(inputs, n, 1, sz, out) && ROW_DISJ(inputs, n, 2, sz, out) && \
   ROW_DISJ(inputs, n, 3, sz, out) && ROW_DISJ(inputs, n, 4, sz, out) && ROW_DISJ(inputs, n, 5, sz, out) && \
   ROW_DISJ(inputs, n, 6, sz, out) && ROW_DISJ(inputs, n, 7, sz, out) && ROW_DISJ(inputs, n, 8, sz, out) && \
   ROW_DISJ(inputs, n, 9, sz, out) && ROW_DISJ(inputs, n, 10, sz, out) && ROW_DISJ(inputs, n, 11, sz, out) && \
   ROW_DISJ(inputs, n, 12, sz, out) && ROW_DISJ(inputs, n, 13, sz, out) && ROW_DISJ(inputs, n, 14, sz, out) && \
   ROW_DISJ(inputs, n, 15, sz, out))
#define VERIF_HM_ROW_BYTE(inputs, blocks, key, counter, inc, flags, fs, fe, i, j)        \
  VBYTE(VERIF_UF_ROW((inputs)[i], blocks, key, (counter) + ((inc) ? (uint64_t)(i) : (uint64_t)0), flags, fs, fe), j)
#define HASH_MANY_FN                                                                     \
  FN(__CPROVER_requires(num_inputs == 0 ||                                               \
       (ROWS16_DISJ(inputs, num_inputs, 64 * blocks, out) && !__CPROVER_same_object(out, key) &&  \
        !__CPROVER_same_object(out, inputs))))                                           \
  FN(__CPROVER_ensures((blocks <= VERIF_HM_MAXBLOCKS && VW_IN(out, 32 * num_inputs)) ==>                 \
       VW_AT(out) == VERIF_HM_ROW_BYTE(inputs, blocks, key, counter, increment_counter, flags, \
                                       flags_start, flags_end, VW_IDX(out) / 32, VW_IDX(out) % 32)))

/* ---- portable kernels (bodies verified in their own units) -------------------------- */
/* the 7 rounds: writes exactly the 16 state words.  *_fn: they are THE uninterpreted function PRE of the five
 * value arguments (this clause is the definition of VERIF_UF_PRE: compress_pre is a deterministic C function
 * of exactly these arguments, see its frame unit).  In the two units blake3_compress_{in_place,xof}_portable_fn
 * (-DVERIF_FN_PORTABLE) the portable kernels are ENFORCED against the feed-forward they implement themselves,
 * cv' = lo ^ hi resp. out = (lo ^ hi, hi ^ cv); everywhere else they are, like the SIMD kernels, CIP / XOF. */
#ifdef VERIF_FN_PORTABLE
#define COMPRESS_IN_PLACE_PORTABLE_FN                                                    \
  FN(__CPROVER_requires(VERIF_DISJ(cv, 32, block, 64)))                                  \
  FN(__CPROVER_ensures(V256(cv) == VERIF_FF_CIP(VERIF_PRE_V(__CPROVER_old(V256(cv)), V512(block), block_len, counter, flags))))
#define COMPRESS_XOF_PORTABLE_FN                                                         \
  FN(__CPROVER_requires(VERIF_DISJ(out, 64, cv, 32) && VERIF_DISJ(out, 64, block, 64)))  \
  FN(__CPROVER_ensures(V512(out) == VERIF_FF_XOF(VERIF_UF_PRE(cv, block, block_len, counter, flags), V256(cv))))
#else
#define COMPRESS_IN_PLACE_PORTABLE_FN COMPRESS_IN_PLACE_FN
#define COMPRESS_XOF_PORTABLE_FN COMPRESS_XOF_FN
#endif
static inline void compress_pre(uint32_t state[16], const uint32_t cv[8],
                                const uint8_t block[BLAKE3_BLOCK_LEN], uint8_t block_len,
                                uint64_t counter, uint8_t flags)
__CPROVER_requires(__CPROVER_w_ok(state, 64))
__CPROVER_requires(__CPROVER_r_ok(cv, 32))
__CPROVER_requires(__CPROVER_r_ok(block, 64))
FN(__CPROVER_requires(VERIF_DISJ(state, 64, cv, 32) && VERIF_DISJ(state, 64, block, 64)))
__CPROVER_assigns(__CPROVER_object_upto(state, 64))
FN(__CPROVER_ensures(V512(state) == VERIF_UF_PRE(cv, block, block_len, counter, flags)))
;

void blake3_compress_in_place_portable(uint32_t cv[8], const uint8_t block[BLAKE3_BLOCK_LEN],
                                       uint8_t block_len, uint64_t counter, uint8_t flags)
COMPRESS_IN_PLACE_REQUIRES
__CPROVER_assigns(__CPROVER_object_upto(cv, 32))
COMPRESS_IN_PLACE_PORTABLE_FN
;

void blake3_compress_xof_portable(const uint32_t cv[8], const uint8_t block[BLAKE3_BLOCK_LEN],
                                  uint8_t block_len, uint64_t counter, uint8_t flags,
                                  uint8_t out[64])
COMPRESS_XOF_REQUIRES
__CPROVER_assigns(__CPROVER_object_upto(out, 64))
COMPRESS_XOF_PORTABLE_FN
;

static inline void hash_one_portable(const uint8_t *input, size_t blocks, const uint32_t key[8],
                                     uint64_t counter, uint8_t flags, uint8_t flags_start,
                                     uint8_t flags_end, uint8_t out[BLAKE3_OUT_LEN])
__CPROVER_requires(blocks <= VERIF_MAX_OBJ / 64)
__CPROVER_requires(__CPROVER_r_ok(input, 64 * blocks))
__CPROVER_requires(__CPROVER_r_ok(key, 32))
__CPROVER_requires(__CPROVER_w_ok(out, 32))
__CPROVER_assigns(__CPROVER_object_upto(out, 32))
;

void blake3_hash_many_portable(const uint8_t *const *inputs, size_t num_inputs, size_t blocks,
                               const uint32_t key[8], uint64_t counter, bool increment_counter,
                               uint8_t flags, uint8_t flags_start, uint8_t flags_end,
                               uint8_t *out)
HASH_MANY_REQUIRES
__CPROVER_assigns(num_inputs > 0: __CPROVER_object_upto(out, 32 * num_inputs))
HASH_MANY_FN
;

/* ---- SIMD kernels: ASSUMED frame contracts (asm / intrinsics are not analysed) ------- */
#if defined(IS_X86)
#if !defined(BLAKE3_NO_SSE2)
void blake3_compress_in_place_sse2(uint32_t cv[8], const uint8_t block[BLAKE3_BLOCK_LEN],
                                   uint8_t block_len, uint64_t counter, uint8_t flags)
COMPRESS_IN_PLACE_REQUIRES
__CPROVER_assigns(__CPROVER_object_upto(cv, 32))
COMPRESS_IN_PLACE_FN
;
void blake3_compress_xof_sse2(const uint32_t cv[8], const uint8_t block[BLAKE3_BLOCK_LEN],
                              uint8_t block_len, uint64_t counter, uint8_t flags, uint8_t out[64])
COMPRESS_XOF_REQUIRES
__CPROVER_assigns(__CPROVER_object_upto(out, 64))
COMPRESS_XOF_FN
;
void blake3_hash_many_sse2(const uint8_t *const *inputs, size_t num_inputs, size_t blocks,
                           const uint32_t key[8], uint64_t counter, bool increment_counter,
                           uint8_t flags, uint8_t flags_start, uint8_t flags_end, uint8_t *out)
HASH_MANY_REQUIRES
__CPROVER_assigns(num_inputs > 0: __CPROVER_object_upto(out, 32 * num_inputs))
HASH_MANY_FN
;
#endif
#if !defined(BLAKE3_NO_SSE41)
void blake3_compress_in_place_sse41(uint32_t cv[8], const uint8_t block[BLAKE3_BLOCK_LEN],
                                    uint8_t block_len, uint64_t counter, uint8_t flags)
COMPRESS_IN_PLACE_REQUIRES
__CPROVER_assigns(__CPROVER_object_upto(cv, 32))
COMPRESS_IN_PLACE_FN
;
void blake3_compress_xof_sse41(const uint32_t cv[8], const uint8_t block[BLAKE3_BLOCK_LEN],
                               uint8_t block_len, uint64_t counter, uint8_t flags, uint8_t out[64])
COMPRESS_XOF_REQUIRES
__CPROVER_assigns(__CPROVER_object_upto(out, 64))
COMPRESS_XOF_FN
;
void blake3_hash_many_sse41(const uint8_t *const *inputs, size_t num_inputs, size_t blocks,
                            const uint32_t key[8], uint64_t counter, bool increment_counter,
                            uint8_t flags, uint8_t flags_start, uint8_t flags_end, uint8_t *out)
HASH_MANY_REQUIRES
__CPROVER_assigns(num_inputs > 0: __CPROVER_object_upto(out, 32 * num_inputs))
HASH_MANY_FN
;
#endif
#if !defined(BLAKE3_NO_AVX2)
void blake3_hash_many_avx2(const uint8_t *const *inputs, size_t num_inputs, size_t blocks,
                           const uint32_t key[8], uint64_t counter, bool increment_counter,
                           uint8_t flags, uint8_t flags_start, uint8_t flags_end, uint8_t *out)
HASH_MANY_REQUIRES
__CPROVER_assigns(num_inputs > 0: __CPROVER_object_upto(out, 32 * num_inputs))
HASH_MANY_FN
;
#endif
#if !defined(BLAKE3_NO_AVX512)
void blake3_compress_in_place_avx512(uint32_t cv[8], const uint8_t block[BLAKE3_BLOCK_LEN],
                                     uint8_t block_len, uint64_t counter, uint8_t flags)
COMPRESS_IN_PLACE_REQUIRES
__CPROVER_assigns(__CPROVER_object_upto(cv, 32))
COMPRESS_IN_PLACE_FN
;
void blake3_compress_xof_avx512(const uint32_t cv[8], const uint8_t block[BLAKE3_BLOCK_LEN],
                                uint8_t block_len, uint64_t counter, uint8_t flags, uint8_t out[64])
COMPRESS_XOF_REQUIRES
__CPROVER_assigns(__CPROVER_object_upto(out, 64))
COMPRESS_XOF_FN
;
void blake3_hash_many_avx512(const uint8_t *const *inputs, size_t num_inputs, size_t blocks,
                             const uint32_t key[8], uint64_t counter, bool increment_counter,
                             uint8_t flags, uint8_t flags_start, uint8_t flags_end, uint8_t *out)
HASH_MANY_REQUIRES
__CPROVER_assigns(num_inputs > 0: __CPROVER_object_upto(out, 32 * num_inputs))
HASH_MANY_FN
;
#if !defined(_WIN32) && !defined(__CYGWIN__)
/* the assembly "always outputs at least 1 block": outblocks >= 1 is part of its contract */
void blake3_xof_many_avx512(const uint32_t cv[8], const uint8_t block[BLAKE3_BLOCK_LEN],
                            uint8_t block_len, uint64_t counter, uint8_t flags, uint8_t *out,
                            size_t outblocks)
XOF_MANY_REQUIRES
__CPROVER_requires(outblocks >= 1)
__CPROVER_assigns(__CPROVER_object_upto(out, 64 * outblocks))
XOF_MANY_FN
;
#endif
#endif
#endif

/* ---- CPU feature cache ----------------------------------------------------------------- */
#if defined(IS_X86)
/* idempotent cache: once defined the cache is never changed and is what is returned; a
 * value that is stored is the one returned and consists of feature bits only (so it can
 * never be mistaken for UNDEFINED again).  The asm cpuid/xgetbv blocks are nondeterministic
 * to CBMC, i.e. the proof holds for every CPU. */
static enum cpu_feature get_cpu_features(void)
__CPROVER_requires(verif_obs_g_cpu_features(g_cpu_features))
__CPROVER_requires(VERIF_GCPU_OK)
__CPROVER_assigns(g_cpu_features)
__CPROVER_ensures(__CPROVER_old(g_cpu_features) != UNDEFINED ==>
                  (g_cpu_features == __CPROVER_old(g_cpu_features)))
__CPROVER_ensures((int)__CPROVER_return_value == g_cpu_features)
__CPROVER_ensures((g_cpu_features & ~VERIF_FEATURE_BITS) == 0)
;
#else
#error "the contracts are written for the x86-64 configuration"
#endif

#if defined(IS_X86) && !defined(BLAKE3_NO_AVX512)
#define VERIF_DEG_AVX512(f) (((f) & (AVX512F | AVX512VL)) == (AVX512F | AVX512VL))
#else
#define VERIF_DEG_AVX512(f) 0
#endif
#if defined(IS_X86) && !defined(BLAKE3_NO_AVX2)
#define VERIF_DEG_AVX2(f) (((f) & AVX2) != 0)
#else
#define VERIF_DEG_AVX2(f) 0
#endif
#if defined(IS_X86) && !defined(BLAKE3_NO_SSE41)
#define VERIF_DEG_SSE41(f) (((f) & SSE41) != 0)
#else
#define VERIF_DEG_SSE41(f) 0
#endif
#if defined(IS_X86) && !defined(BLAKE3_NO_SSE2)
#define VERIF_DEG_SSE2(f) (((f) & SSE2) != 0)
#else
#define VERIF_DEG_SSE2(f) 0
#endif
#define VERIF_SIMD_DEGREE(f)                                                             \
  (VERIF_DEG_AVX512(f) ? 16 : VERIF_DEG_AVX2(f) ? 8 : VERIF_DEG_SSE41(f) ? 4 : VERIF_DEG_SSE2(f) ? 4 : 1)

size_t blake3_simd_degree(void)
__CPROVER_requires(VERIF_GCPU_OK)
__CPROVER_assigns(g_cpu_features)
__CPROVER_ensures(VERIF_GCPU_OK && g_cpu_features != UNDEFINED)
__CPROVER_ensures(__CPROVER_old(g_cpu_features) != UNDEFINED ==> g_cpu_features == __CPROVER_old(g_cpu_features))
__CPROVER_ensures(__CPROVER_return_value == (size_t)VERIF_SIMD_DEGREE(g_cpu_features))
__CPROVER_ensures(__CPROVER_return_value == 1 || __CPROVER_return_value == 4 ||
                  __CPROVER_return_value == 8 || __CPROVER_return_value == 16)
;

/* ---- dispatch entry points: frame = arguments + the detection cache ------------------ */
void blake3_compress_in_place(uint32_t cv[8], const uint8_t block[BLAKE3_BLOCK_LEN],
                              uint8_t block_len, uint64_t counter, uint8_t flags)
COMPRESS_IN_PLACE_REQUIRES
__CPROVER_requires(VERIF_GCPU_OK)
__CPROVER_assigns(__CPROVER_object_upto(cv, 32), g_cpu_features)
__CPROVER_ensures(VERIF_GCPU_OK)
COMPRESS_IN_PLACE_FN
;

void blake3_compress_xof(const uint32_t cv[8], const uint8_t block[BLAKE3_BLOCK_LEN],
                         uint8_t block_len, uint64_t counter, uint8_t flags, uint8_t out[64])
COMPRESS_XOF_REQUIRES
__CPROVER_requires(VERIF_GCPU_OK)
__CPROVER_assigns(__CPROVER_object_upto(out, 64), g_cpu_features)
__CPROVER_ensures(VERIF_GCPU_OK)
COMPRESS_XOF_FN
;

/* exactly 64 bytes per XOF block, nothing when outblocks == 0 */
void blake3_xof_many(const uint32_t cv[8], const uint8_t block[BLAKE3_BLOCK_LEN],
                     uint8_t block_len, uint64_t counter, uint8_t flags, uint8_t out[64],
                     size_t outblocks)
XOF_MANY_REQUIRES
__CPROVER_requires(VERIF_GCPU_OK)
__CPROVER_assigns(outblocks > 0: __CPROVER_object_upto(out, 64 * outblocks);
                  outblocks > 0: g_cpu_features)
__CPROVER_ensures(VERIF_GCPU_OK)
XOF_MANY_FN
;

/* exactly 32 bytes per hashed input */
void blake3_hash_many(const uint8_t *const *inputs, size_t num_inputs, size_t blocks,
                      const uint32_t key[8], uint64_t counter, bool increment_counter,
                      uint8_t flags, uint8_t flags_start, uint8_t flags_end, uint8_t *out)
HASH_MANY_REQUIRES
__CPROVER_requires(VERIF_GCPU_OK)
__CPROVER_assigns(num_inputs > 0: __CPROVER_object_upto(out, 32 * num_inputs); g_cpu_features)
__CPROVER_ensures(VERIF_GCPU_OK)
HASH_MANY_FN
;

/* ===================================================================================== */
/* blake3.c : chunk state                                                                */
/* ===================================================================================== */

const char *blake3_version(void)
__CPROVER_assigns()
__CPROVER_ensures(__CPROVER_r_ok(__CPROVER_return_value, 1))
;

static inline void chunk_state_init(blake3_chunk_state *self, const uint32_t key[8], uint8_t flags)
__CPROVER_requires(__CPROVER_is_fresh(self, sizeof(*self)))
__CPROVER_requires(__CPROVER_is_fresh(key, 32))
__CPROVER_assigns(__CPROVER_object_upto(self->cv, 32), self->chunk_counter,
                  __CPROVER_object_upto(self->buf, 64), self->buf_len, self->blocks_compressed,
                  self->flags)
__CPROVER_ensures(CS_IS_INIT(self, key, flags, 0))
;

/* key may live in the same object as self (blake3_hasher_reset passes self->key) */
static inline void chunk_state_reset(blake3_chunk_state *self, const uint32_t key[8],
                                     uint64_t chunk_counter)
__CPROVER_requires(__CPROVER_w_ok(self, sizeof(*self)))
__CPROVER_requires(__CPROVER_r_ok(key, 32))
__CPROVER_requires(OBS_CS(self))
__CPROVER_assigns(__CPROVER_object_upto(self->cv, 32), self->chunk_counter,
                  __CPROVER_object_upto(self->buf, 64), self->buf_len, self->blocks_compressed)
__CPROVER_ensures(CS_IS_INIT(self, key, __CPROVER_old(self->flags), chunk_counter))
;

static inline size_t chunk_state_len(const blake3_chunk_state *self)
__CPROVER_requires(__CPROVER_is_fresh(self, sizeof(*self)))
__CPROVER_requires(OBS_CS(self))
__CPROVER_assigns()
__CPROVER_ensures(__CPROVER_return_value == CS_LEN(self))
;

/* take = min(64 - buf_len, input_len) bytes appended to buf; nothing else changes.
 * (byte contents buf[old..old+take) == input[0..take) are checked by the unit's harness) */
static inline size_t chunk_state_fill_buf(blake3_chunk_state *self, const uint8_t *input,
                                          size_t input_len)
__CPROVER_requires(__CPROVER_is_fresh(self, sizeof(*self)))
__CPROVER_requires(OBS_CS(self))
__CPROVER_requires(self->buf_len <= 64)
__CPROVER_requires(input_len <= VERIF_MAX_OBJ && __CPROVER_is_fresh(input, input_len))
__CPROVER_assigns(__CPROVER_object_upto(self->buf, 64), self->buf_len)
__CPROVER_ensures(__CPROVER_return_value ==
                  (input_len < (size_t)(64 - __CPROVER_old(self->buf_len))
                       ? input_len : (size_t)(64 - __CPROVER_old(self->buf_len))))
__CPROVER_ensures((size_t)self->buf_len == (size_t)__CPROVER_old(self->buf_len) + __CPROVER_return_value)
#ifdef VERIF_EXACT_BYTES
/* (unit chunk_state_fill_buf_bytes only: too slow for callers to carry around)
 * the new bytes are the first `take` input bytes; every other buffer byte is unchanged */
__CPROVER_ensures(__CPROVER_forall { size_t fi_; (fi_ < 64) ==>
    ((fi_ >= (size_t)__CPROVER_old(self->buf_len) && fi_ < (size_t)self->buf_len)
         ? self->buf[fi_] == input[fi_ - (size_t)__CPROVER_old(self->buf_len)]
         : self->buf[fi_] == __CPROVER_old(*self).buf[fi_]) })
#endif
;

static inline uint8_t chunk_state_maybe_start_flag(const blake3_chunk_state *self)
__CPROVER_requires(__CPROVER_is_fresh(self, sizeof(*self)))
__CPROVER_requires(OBS_CS(self))
__CPROVER_assigns()
__CPROVER_ensures(__CPROVER_return_value == (self->blocks_compressed == 0 ? CHUNK_START : 0))
;

static inline output_t make_output(const uint32_t input_cv[8], const uint8_t block[BLAKE3_BLOCK_LEN],
                                   uint8_t block_len, uint64_t counter, uint8_t flags)
__CPROVER_requires(__CPROVER_r_ok(input_cv, 32))
__CPROVER_requires(__CPROVER_r_ok(block, 64))
__CPROVER_assigns()
__CPROVER_ensures(__CPROVER_return_value.block_len == block_len &&
                  __CPROVER_return_value.counter == counter &&
                  __CPROVER_return_value.flags == flags)
__CPROVER_ensures(WORDS8_EQ(__CPROVER_return_value.input_cv, input_cv))
__CPROVER_ensures(BYTES64_EQ(__CPROVER_return_value.block, block))
;

/* the chunk's last block: flags | CHUNK_START (iff no block compressed yet) | CHUNK_END,
 * the chunk's own counter, the whole buffer, block_len = buf_len */
static inline output_t chunk_state_output(const blake3_chunk_state *self)
__CPROVER_requires(__CPROVER_is_fresh(self, sizeof(*self)))
__CPROVER_requires(OBS_CS(self))
__CPROVER_assigns()
__CPROVER_ensures(__CPROVER_return_value.flags ==
                  (uint8_t)(self->flags | (self->blocks_compressed == 0 ? CHUNK_START : 0) | CHUNK_END))
__CPROVER_ensures(__CPROVER_return_value.counter == self->chunk_counter)
__CPROVER_ensures(__CPROVER_return_value.block_len == self->buf_len)
__CPROVER_ensures(WORDS8_EQ(__CPROVER_return_value.input_cv, self->cv))
__CPROVER_ensures(BYTES64_EQ(__CPROVER_return_value.block, self->buf))
;

/* parents: flags | PARENT, counter 0, a full 64-byte block, cv = key */
static inline output_t parent_output(const uint8_t block[BLAKE3_BLOCK_LEN], const uint32_t key[8],
                                     uint8_t flags)
__CPROVER_requires(__CPROVER_r_ok(block, 64))
__CPROVER_requires(__CPROVER_r_ok(key, 32))
__CPROVER_assigns()
__CPROVER_ensures(__CPROVER_return_value.flags == (uint8_t)(flags | PARENT))
__CPROVER_ensures(__CPROVER_return_value.counter == 0)
__CPROVER_ensures(__CPROVER_return_value.block_len == 64)
__CPROVER_ensures(WORDS8_EQ(__CPROVER_return_value.input_cv, key))
__CPROVER_ensures(BYTES64_EQ(__CPROVER_return_value.block, block))
;

/* byte i of the root output of node o read from position seek: block counter and offset */
#define VERIF_ROOT_BYTE(o, seek, i)                                                      \
  VBYTE(VERIF_UF_XOF((o)->input_cv, (o)->block, (o)->block_len,                          \
                     (seek) / 64 + ((seek) % 64 + (uint64_t)(i)) / 64, (o)->flags | ROOT), \
        ((seek) % 64 + (uint64_t)(i)) % 64)

/* writes exactly 32 bytes */
static inline void output_chaining_value(const output_t *self, uint8_t cv[32])
__CPROVER_requires(__CPROVER_is_fresh(self, sizeof(*self)))
__CPROVER_requires(OBS_OUTPUT(self))
__CPROVER_requires(self->block_len <= 64)
__CPROVER_requires(__CPROVER_is_fresh(cv, 32))
__CPROVER_requires(VERIF_GCPU_OK)
__CPROVER_assigns(__CPROVER_object_upto(cv, 32), g_cpu_features)
__CPROVER_ensures(VERIF_GCPU_OK)
/* *_fn: the 32 bytes are the little-endian words of ONE compression of exactly the node's five fields */
FN(__CPROVER_ensures(V256(cv) == VERIF_UF_CIP(self->input_cv, self->block, self->block_len,
                                              self->counter, self->flags)))
;

/* writes exactly out[0..out_len), for every seek; out_len == 0 touches nothing */
static inline void output_root_bytes(const output_t *self, uint64_t seek, uint8_t *out,
                                     size_t out_len)
__CPROVER_requires(__CPROVER_is_fresh(self, sizeof(*self)))
__CPROVER_requires(OBS_OUTPUT(self))
__CPROVER_requires(self->block_len <= 64)
__CPROVER_requires(out_len <= VERIF_MAX_OBJ)
__CPROVER_requires(out_len == 0 || __CPROVER_is_fresh(out, out_len))
__CPROVER_requires(VERIF_GCPU_OK)
__CPROVER_assigns(out_len > 0: __CPROVER_object_upto(out, out_len);
                  out_len > 0: g_cpu_features)
__CPROVER_ensures(VERIF_GCPU_OK)
/* *_fn: EVERY requested byte i is byte (seek + i) % 64 of the XOF block (seek + i) / 64 of this node
 * with ROOT set (written without wrap-around: seek / 64 + (seek % 64 + i) / 64) */
FN(__CPROVER_ensures(VW_IN(out, out_len) ==> VW_AT(out) == VERIF_ROOT_BYTE(self, seek, VW_IDX(out))))
;

/* domain: the bytes fit into the current chunk.  Shape: the chunk grows by exactly
 * input_len, and a non-empty update leaves a non-empty (lazy) last block in buf. */
static inline void chunk_state_update(blake3_chunk_state *self, const uint8_t *input,
                                      size_t input_len)
__CPROVER_requires(__CPROVER_is_fresh(self, sizeof(*self)))
__CPROVER_requires(OBS_CS(self))
__CPROVER_requires(CS_WF(self))
__CPROVER_requires(input_len <= 1024 - CS_LEN(self))
__CPROVER_requires(__CPROVER_is_fresh(input, input_len))
__CPROVER_requires(VERIF_GCPU_OK)
__CPROVER_assigns(__CPROVER_object_upto(self->cv, 32), __CPROVER_object_upto(self->buf, 64),
                  self->buf_len, self->blocks_compressed, g_cpu_features)
__CPROVER_ensures(CS_LEN(self) == CS_LEN_OLD(self) + input_len)
__CPROVER_ensures(CS_WF(self))
__CPROVER_ensures(input_len > 0 ==> self->buf_len > 0)
__CPROVER_ensures(VERIF_GCPU_OK)
;

/* ===================================================================================== */
/* blake3.c : subtree hashing                                                            */
/* ===================================================================================== */

#define CHUNKS_OF(len) (((len) + 1023) / 1024)

/* 1..16 chunks in, exactly 32 bytes per chunk out, returns the number of chunks */
static inline size_t compress_chunks_parallel(const uint8_t *input, size_t input_len,
                                              const uint32_t key[8], uint64_t chunk_counter,
                                              uint8_t flags, uint8_t *out)
__CPROVER_requires(0 < input_len && input_len <= MAX_SIMD_DEGREE * BLAKE3_CHUNK_LEN)
__CPROVER_requires(__CPROVER_is_fresh(input, input_len))
__CPROVER_requires(__CPROVER_is_fresh(key, 32))
__CPROVER_requires(__CPROVER_is_fresh(out, 32 * CHUNKS_OF(input_len)))
__CPROVER_requires(VERIF_GCPU_OK)
__CPROVER_assigns(__CPROVER_object_upto(out, 32 * CHUNKS_OF(input_len)), g_cpu_features)
__CPROVER_ensures(__CPROVER_return_value == CHUNKS_OF(input_len))
__CPROVER_ensures(VERIF_GCPU_OK)
;

/* 2..32 child CVs in, ceil(n/2) CVs out (an odd one is copied), returns ceil(n/2) */
static inline size_t compress_parents_parallel(const uint8_t *child_chaining_values,
                                               size_t num_chaining_values, const uint32_t key[8],
                                               uint8_t flags, uint8_t *out)
__CPROVER_requires(2 <= num_chaining_values && num_chaining_values <= 2 * MAX_SIMD_DEGREE_OR_2)
__CPROVER_requires(__CPROVER_is_fresh(child_chaining_values, 32 * num_chaining_values))
__CPROVER_requires(__CPROVER_is_fresh(key, 32))
__CPROVER_requires(__CPROVER_is_fresh(out, 32 * ((num_chaining_values + 1) / 2)))
__CPROVER_requires(VERIF_GCPU_OK)
__CPROVER_assigns(__CPROVER_object_upto(out, 32 * ((num_chaining_values + 1) / 2)), g_cpu_features)
__CPROVER_ensures(__CPROVER_return_value == (num_chaining_values + 1) / 2)
__CPROVER_ensures(VERIF_GCPU_OK)
/* *_fn: output i < n/2 is the hash_many result of the 64-byte row (child 2i, child 2i+1) -- in this order --
 * with the key, counter 0 (not incremented), flags | PARENT, no start/end flags, one block; an odd last
 * child is copied to output n/2.  Every output byte, via the witness. */
FN(__CPROVER_ensures(VW_IN(out, 32 * (num_chaining_values / 2)) ==>
     VW_AT(out) == VBYTE(VERIF_UF_ROW(child_chaining_values + 64 * (VW_IDX(out) / 32), 1, key, 0,
                                      flags | PARENT, 0, 0), VW_IDX(out) % 32)))
FN(__CPROVER_ensures((num_chaining_values % 2 == 1 && VW_IN(out + 32 * (num_chaining_values / 2), 32)) ==>
     VW_AT(out) == child_chaining_values[32 * (num_chaining_values - 1) + VW_IDX(out) % 32]))
;

/* any input_len > 0; out has room for MAX_SIMD_DEGREE_OR_2 (=16) CVs = 512 bytes.
 * Shape: 1 <= n <= 16; n == 1 iff the input is a single chunk. */
size_t blake3_compress_subtree_wide(const uint8_t *input, size_t input_len, const uint32_t key[8],
                                    uint64_t chunk_counter, uint8_t flags, uint8_t *out,
                                    bool use_tbb)
__CPROVER_requires(0 < input_len && input_len <= VERIF_MAX_OBJ)
__CPROVER_requires(__CPROVER_is_fresh(input, input_len))
__CPROVER_requires(__CPROVER_is_fresh(key, 32))
__CPROVER_requires(__CPROVER_is_fresh(out, 32 * MAX_SIMD_DEGREE_OR_2))
__CPROVER_requires(VERIF_GCPU_OK)
__CPROVER_assigns(__CPROVER_object_upto(out, 512), g_cpu_features)
__CPROVER_ensures(1 <= __CPROVER_return_value && __CPROVER_return_value <= MAX_SIMD_DEGREE_OR_2)
__CPROVER_ensures(input_len <= 1024 ==> __CPROVER_return_value == 1)
__CPROVER_ensures(input_len > 1024 ==> __CPROVER_return_value >= 2)
__CPROVER_ensures(VERIF_GCPU_OK)
;

#if defined(BLAKE3_USE_TBB)
/* ASSUMED (blake3_tbb.cpp is C++ and not analysed): the frame and shape the C side relies on at
 * the oneTBB join seam -- both halves are hashed as by blake3_compress_subtree_wide, each into its
 * own 16-CV window of the caller's cv_array (the two windows lie in ONE object, hence w_ok), and
 * only the windows, *l_n and *r_n are written. */
void blake3_compress_subtree_wide_join_tbb(const uint32_t key[8], uint8_t flags, bool use_tbb,
                                           const uint8_t *l_input, size_t l_input_len,
                                           uint64_t l_chunk_counter, uint8_t *l_cvs, size_t *l_n,
                                           const uint8_t *r_input, size_t r_input_len,
                                           uint64_t r_chunk_counter, uint8_t *r_cvs, size_t *r_n)
__CPROVER_requires(__CPROVER_r_ok(key, 32))
__CPROVER_requires(0 < l_input_len && l_input_len <= VERIF_MAX_OBJ && __CPROVER_r_ok(l_input, l_input_len))
__CPROVER_requires(0 < r_input_len && r_input_len <= VERIF_MAX_OBJ && __CPROVER_r_ok(r_input, r_input_len))
__CPROVER_requires(__CPROVER_w_ok(l_cvs, 32 * MAX_SIMD_DEGREE_OR_2) && __CPROVER_w_ok(r_cvs, 32 * MAX_SIMD_DEGREE_OR_2))
/* layout: the right window starts exactly `degree` CV slots after the left one, as in the sequential branch
 * (right_cvs = &cv_array[degree * 32], degree = the SIMD degree, raised to 2 when it is 1 and the left half is
 * more than one chunk): the code after the join reads the CVs as ONE contiguous array starting at l_cvs
 * (memcpy(out, cv_array, 64) when left_n == 1, compress_parents_parallel(cv_array, left_n + right_n) otherwise) */
__CPROVER_requires(r_cvs == l_cvs + BLAKE3_OUT_LEN *
                   ((VERIF_SIMD_DEGREE(g_cpu_features) == 1 && l_input_len > BLAKE3_CHUNK_LEN)
                        ? 2 : VERIF_SIMD_DEGREE(g_cpu_features)))
__CPROVER_requires(__CPROVER_w_ok(l_n, sizeof(size_t)) && __CPROVER_w_ok(r_n, sizeof(size_t)))
__CPROVER_requires(VERIF_GCPU_OK)
__CPROVER_assigns(__CPROVER_object_upto(l_cvs, 512), __CPROVER_object_upto(r_cvs, 512), *l_n, *r_n,
                  g_cpu_features)
__CPROVER_ensures(1 <= *l_n && *l_n <= MAX_SIMD_DEGREE_OR_2 && 1 <= *r_n && *r_n <= MAX_SIMD_DEGREE_OR_2)
__CPROVER_ensures((l_input_len <= 1024 ==> *l_n == 1) && (l_input_len > 1024 ==> *l_n >= 2))
__CPROVER_ensures((r_input_len <= 1024 ==> *r_n == 1) && (r_input_len > 1024 ==> *r_n >= 2))
__CPROVER_ensures(VERIF_GCPU_OK)
;
#endif

/* more than one chunk in, exactly the two top CVs (64 bytes) out */
static inline void compress_subtree_to_parent_node(const uint8_t *input, size_t input_len,
                                                   const uint32_t key[8], uint64_t chunk_counter,
                                                   uint8_t flags, uint8_t out[2 * BLAKE3_OUT_LEN],
                                                   bool use_tbb)
__CPROVER_requires(1024 < input_len && input_len <= VERIF_MAX_OBJ)
/* tree structure (spec): a complete subtree of 2^k chunks starts at a chunk index divisible by 2^k, i.e. the
 * number of bytes before it is a multiple of its length (blake3_hasher_update_base, the only caller, passes
 * powers of two: this is what its shrink loop `(subtree_len - 1) & count_so_far` establishes) */
__CPROVER_requires(IS_POW2(input_len) ==> (((uint64_t)(input_len - 1)) & (chunk_counter * BLAKE3_CHUNK_LEN)) == 0)
__CPROVER_requires(__CPROVER_is_fresh(input, input_len))
__CPROVER_requires(__CPROVER_is_fresh(key, 32))
__CPROVER_requires(__CPROVER_is_fresh(out, 64))
__CPROVER_requires(VERIF_GCPU_OK)
__CPROVER_assigns(__CPROVER_object_upto(out, 64), g_cpu_features)
__CPROVER_ensures(VERIF_GCPU_OK)
;

/* ===================================================================================== */
/* blake3.c : hasher                                                                     */
/* ===================================================================================== */

static inline void hasher_init_base(blake3_hasher *self, const uint32_t key[8], uint8_t flags)
__CPROVER_requires(__CPROVER_is_fresh(self, sizeof(*self)))
__CPROVER_requires(__CPROVER_is_fresh(key, 32))
__CPROVER_assigns(__CPROVER_object_upto(self->key, 32), self->chunk, self->cv_stack_len)
__CPROVER_ensures(HASHER_IS_INIT(self, key, flags))
__CPROVER_ensures(HASHER_WF(self))
;

void blake3_hasher_init(blake3_hasher *self)
__CPROVER_requires(__CPROVER_is_fresh(self, sizeof(*self)))
__CPROVER_assigns(__CPROVER_object_upto(self->key, 32), self->chunk, self->cv_stack_len)
__CPROVER_ensures(HASHER_IS_INIT(self, IV, 0))
__CPROVER_ensures(HASHER_WF(self))
;

void blake3_hasher_init_keyed(blake3_hasher *self, const uint8_t key[BLAKE3_KEY_LEN])
__CPROVER_requires(__CPROVER_is_fresh(self, sizeof(*self)))
__CPROVER_requires(__CPROVER_is_fresh(key, 32))
__CPROVER_assigns(__CPROVER_object_upto(self->key, 32), self->chunk, self->cv_stack_len)
__CPROVER_ensures(HASHER_IS_INIT(self, self->key, KEYED_HASH))
__CPROVER_ensures(self->key[0] == SPEC_LOAD32(key, 0) && self->key[1] == SPEC_LOAD32(key, 1) &&
                  self->key[2] == SPEC_LOAD32(key, 2) && self->key[3] == SPEC_LOAD32(key, 3) &&
                  self->key[4] == SPEC_LOAD32(key, 4) && self->key[5] == SPEC_LOAD32(key, 5) &&
                  self->key[6] == SPEC_LOAD32(key, 6) && self->key[7] == SPEC_LOAD32(key, 7))
__CPROVER_ensures(HASHER_WF(self))
;

/* merges down to popcnt(total_len) entries when there are more, else nothing.
 * `cv_stack_len - 2` needs len >= 2 whenever a merge happens: popcnt(total_len) >= 1. */
static inline void hasher_merge_cv_stack(blake3_hasher *self, uint64_t total_len)
__CPROVER_requires(__CPROVER_is_fresh(self, sizeof(*self)))
__CPROVER_requires(OBS_HASHER(self))
__CPROVER_requires(self->cv_stack_len <= 55)
__CPROVER_requires((size_t)self->cv_stack_len > POPCNT(total_len) ==> total_len != 0)
__CPROVER_requires(VERIF_GCPU_OK)
__CPROVER_assigns((size_t)self->cv_stack_len > POPCNT(total_len): __CPROVER_object_upto(self->cv_stack, 1760);
                  (size_t)self->cv_stack_len > POPCNT(total_len): self->cv_stack_len;
                  (size_t)self->cv_stack_len > POPCNT(total_len): g_cpu_features)
__CPROVER_ensures((size_t)self->cv_stack_len ==
                  ((size_t)__CPROVER_old(self->cv_stack_len) > POPCNT(total_len)
                       ? POPCNT(total_len) : (size_t)__CPROVER_old(self->cv_stack_len)))
__CPROVER_ensures(VERIF_GCPU_OK)
;

/* merge to popcnt(chunk_counter), then push: needs a free slot afterwards */
static inline void hasher_push_cv(blake3_hasher *self, uint8_t new_cv[BLAKE3_OUT_LEN],
                                  uint64_t chunk_counter)
__CPROVER_requires(__CPROVER_is_fresh(self, sizeof(*self)))
__CPROVER_requires(OBS_HASHER(self))
__CPROVER_requires(__CPROVER_is_fresh(new_cv, 32))
__CPROVER_requires(self->cv_stack_len <= 55)
__CPROVER_requires((size_t)self->cv_stack_len > POPCNT(chunk_counter) ==> chunk_counter != 0)
__CPROVER_requires(POPCNT(chunk_counter) <= 54 || self->cv_stack_len <= 54)
__CPROVER_requires(VERIF_GCPU_OK)
__CPROVER_assigns(__CPROVER_object_upto(self->cv_stack, 1760), self->cv_stack_len, g_cpu_features)
__CPROVER_ensures((size_t)self->cv_stack_len ==
                  ((size_t)__CPROVER_old(self->cv_stack_len) > POPCNT(chunk_counter)
                       ? POPCNT(chunk_counter) : (size_t)__CPROVER_old(self->cv_stack_len)) + 1)
__CPROVER_ensures(VERIF_GCPU_OK)
;

/* update: any input_len within the documented total of < 2^64 bytes.  Writes only the
 * chunk state, the CV stack and its length (never the key), nothing at all for
 * input_len == 0.  Shape: the byte total grows by exactly input_len and the stack
 * invariant HASHER_WF is re-established; key and mode flags are unchanged. */
#define HASHER_UPDATE_CONTRACT                                                           \
  __CPROVER_requires(__CPROVER_is_fresh(self, sizeof(*self)))                            \
  __CPROVER_requires(OBS_HASHER(self))                                                   \
  __CPROVER_requires(HASHER_WF(self))                                                    \
  __CPROVER_requires(input_len <= VERIF_MAX_OBJ)                                         \
  __CPROVER_requires((uint64_t)input_len <= UINT64_MAX - H_TOTAL(self))                  \
  __CPROVER_requires(input_len == 0 || __CPROVER_is_fresh(input, input_len))             \
  __CPROVER_requires(VERIF_GCPU_OK)                                                      \
  __CPROVER_assigns(input_len > 0: self->chunk;                                          \
                    input_len > 0: __CPROVER_object_upto(self->cv_stack, 1760);          \
                    input_len > 0: self->cv_stack_len;                                   \
                    input_len > 0: g_cpu_features)                                       \
  __CPROVER_ensures(HASHER_WF(self))                                                     \
  __CPROVER_ensures(H_TOTAL(self) == H_TOTAL_OLD(self) + (uint64_t)input_len)            \
  __CPROVER_ensures(self->chunk.flags == __CPROVER_old(self->chunk.flags))               \
  __CPROVER_ensures(VERIF_GCPU_OK)

static inline void blake3_hasher_update_base(blake3_hasher *self, const void *input,
                                             size_t input_len, bool use_tbb)
HASHER_UPDATE_CONTRACT
;

void blake3_hasher_update(blake3_hasher *self, const void *input, size_t input_len)
HASHER_UPDATE_CONTRACT
;

#if defined(BLAKE3_USE_TBB)
void blake3_hasher_update_tbb(blake3_hasher *self, const void *input, size_t input_len)
HASHER_UPDATE_CONTRACT
;
#endif

/* *_fn: the root node as a closed expression over the hasher's fields, for stacks of at most
 * VERIF_FIN_MAXSTACK = 3 entries (a fold has no closed form for an unbounded stack):
 *   C        = the chunk-state node (cv, buf, buf_len, chunk_counter, flags | CHUNK_START? | CHUNK_END)
 *   P(l, r)  = UFcip(key, l ++ r, 64, 0, flags | PARENT)            a parent's chaining value
 *   len == 0                    root = C
 *   bytes pending, len == 1..3  root = parent(S0, CV(C)), parent(S0, P(S1, CV(C))), parent(S0, P(S1, P(S2, CV(C))))
 *   none pending,  len == 2, 3  root = parent(S0, S1),    parent(S0, P(S1, S2))
 * and byte i of the output is byte (seek + i) % 64 of UFxof(root fields, counter (seek + i) / 64, flags | ROOT) */
#define VERIF_FIN_MAXSTACK 3
#define VFIN_S(h, k) V256(&(h)->cv_stack[32 * (k)])
#define VFIN_PAIR(l, r) ((verif_bv512)(l) | ((verif_bv512)(r) << 256))
#define VFIN_CFLAGS(h)                                                                   \
  ((uint8_t)((h)->chunk.flags | ((h)->chunk.blocks_compressed == 0 ? CHUNK_START : 0) | CHUNK_END))
#define VFIN_CVC(h)                                                                      \
  VERIF_UF_CIP((h)->chunk.cv, (h)->chunk.buf, (h)->chunk.buf_len, (h)->chunk.chunk_counter, VFIN_CFLAGS(h))
#define VFIN_P(h, l, r)                                                                  \
  VERIF_CIP_V(V256((h)->key), VFIN_PAIR(l, r), 64, 0, (h)->chunk.flags | PARENT)
#define VFIN_ROOTP(h, l, r, ctr)                                                         \
  VERIF_XOF_V(V256((h)->key), VFIN_PAIR(l, r), 64, ctr, (h)->chunk.flags | PARENT | ROOT)
#define VFIN_ROOT(h, ctr)                                                                \
  ((h)->cv_stack_len == 0                                                                \
     ? VERIF_UF_XOF((h)->chunk.cv, (h)->chunk.buf, (h)->chunk.buf_len, ctr, VFIN_CFLAGS(h) | ROOT) \
   : CS_LEN(&(h)->chunk) > 0                                                             \
     ? ((h)->cv_stack_len == 1 ? VFIN_ROOTP(h, VFIN_S(h, 0), VFIN_CVC(h), ctr)           \
        : (h)->cv_stack_len == 2 ? VFIN_ROOTP(h, VFIN_S(h, 0), VFIN_P(h, VFIN_S(h, 1), VFIN_CVC(h)), ctr) \
        : VFIN_ROOTP(h, VFIN_S(h, 0), VFIN_P(h, VFIN_S(h, 1), VFIN_P(h, VFIN_S(h, 2), VFIN_CVC(h))), ctr)) \
     : ((h)->cv_stack_len == 2 ? VFIN_ROOTP(h, VFIN_S(h, 0), VFIN_S(h, 1), ctr)          \
        : VFIN_ROOTP(h, VFIN_S(h, 0), VFIN_P(h, VFIN_S(h, 1), VFIN_S(h, 2)), ctr)))
#define VROOT_CTR(seek, i) ((seek) / 64 + ((seek) % 64 + (uint64_t)(i)) / 64)
#define VROOT_OFF(seek, i) (((seek) % 64 + (uint64_t)(i)) % 64)
/* the clause is proved by unit blake3_hasher_finalize_seek_fn, whose harness calls the function once per
 * concrete stack length and asserts VFIN_POST itself (DFCC's write-set instrumentation of the enforced
 * function makes the value flow through the struct copies intractable: 47 M clauses for 2 entries) */
#define VFIN_POST(self, seek, out, out_len)                                              \
  ((VW_IN(out, out_len) && (self)->cv_stack_len <= VERIF_FIN_MAXSTACK) ==>               \
   VW_AT(out) == VBYTE(VFIN_ROOT(self, VROOT_CTR(seek, VW_IDX(out))), VROOT_OFF(seek, VW_IDX(out))))
#define FINALIZE_FN(seek) FN(__CPROVER_ensures(VFIN_POST(self, seek, out, out_len)))

/* finalize: the hasher is not in the assigns clause (finalize is a pure query of it);
 * exactly out[0..out_len) is written; with out_len == 0 nothing is even required to be
 * a valid pointer (the function returns before any access). */
void blake3_hasher_finalize_seek(const blake3_hasher *self, uint64_t seek, uint8_t *out,
                                 size_t out_len)
__CPROVER_requires(out_len <= VERIF_MAX_OBJ)
__CPROVER_requires(out_len == 0 ||
                   (__CPROVER_is_fresh(self, sizeof(*self)) && OBS_HASHER(self) &&
                    HASHER_WF(self) && __CPROVER_is_fresh(out, out_len)))
__CPROVER_requires(VERIF_GCPU_OK)
__CPROVER_assigns(out_len > 0: __CPROVER_object_upto(out, out_len);
                  out_len > 0: g_cpu_features)
__CPROVER_ensures(VERIF_GCPU_OK)
FINALIZE_FN(seek)
;

void blake3_hasher_finalize(const blake3_hasher *self, uint8_t *out, size_t out_len)
__CPROVER_requires(out_len <= VERIF_MAX_OBJ)
__CPROVER_requires(out_len == 0 ||
                   (__CPROVER_is_fresh(self, sizeof(*self)) && OBS_HASHER(self) &&
                    HASHER_WF(self) && __CPROVER_is_fresh(out, out_len)))
__CPROVER_requires(VERIF_GCPU_OK)
__CPROVER_assigns(out_len > 0: __CPROVER_object_upto(out, out_len);
                  out_len > 0: g_cpu_features)
__CPROVER_ensures(VERIF_GCPU_OK)
FINALIZE_FN((uint64_t)0)
;

/* reset == hasher_init_base(self->key, self->chunk.flags): every field except the (dead)
 * stack bytes; key and flags are not in the assigns clause, hence unchanged. */
void blake3_hasher_reset(blake3_hasher *self)
__CPROVER_requires(__CPROVER_is_fresh(self, sizeof(*self)))
__CPROVER_requires(OBS_HASHER(self))
__CPROVER_assigns(__CPROVER_object_upto(self->chunk.cv, 32), self->chunk.chunk_counter,
                  __CPROVER_object_upto(self->chunk.buf, 64), self->chunk.buf_len,
                  self->chunk.blocks_compressed, self->cv_stack_len)
__CPROVER_ensures(HASHER_IS_INIT(self, self->key, __CPROVER_old(self->chunk.flags)))
__CPROVER_ensures(HASHER_WF(self))
;

void blake3_hasher_init_derive_key_raw(blake3_hasher *self, const void *context,
                                       size_t context_len)
__CPROVER_requires(__CPROVER_is_fresh(self, sizeof(*self)))
__CPROVER_requires(context_len <= VERIF_MAX_OBJ)
__CPROVER_requires(context_len == 0 || __CPROVER_is_fresh(context, context_len))
#ifdef VERIF_UNIT_DERIVE_KEY
/* only in unit blake3_hasher_init_derive_key: the call must pass (ctx, strlen(ctx)) */
__CPROVER_requires(context == (const void *)verif_ghost_str && context_len == verif_ghost_strlen)
#endif
__CPROVER_requires(VERIF_GCPU_OK)
__CPROVER_assigns(__CPROVER_object_upto(self->key, 32), self->chunk, self->cv_stack_len,
                  g_cpu_features)
__CPROVER_ensures(HASHER_IS_INIT(self, self->key, DERIVE_KEY_MATERIAL))
__CPROVER_ensures(HASHER_WF(self))
__CPROVER_ensures(VERIF_GCPU_OK)
;

/* context is a NUL-terminated string whose length is named by the ghost verif_ghost_strlen */
void blake3_hasher_init_derive_key(blake3_hasher *self, const char *context)
__CPROVER_requires(__CPROVER_w_ok(self, sizeof(*self)))
__CPROVER_requires(verif_ghost_strlen < VERIF_MAX_OBJ)
__CPROVER_requires(context == verif_ghost_str && __CPROVER_r_ok(context, verif_ghost_strlen + 1))
__CPROVER_requires(VERIF_GCPU_OK)
__CPROVER_assigns(__CPROVER_object_upto(self->key, 32), self->chunk, self->cv_stack_len,
                  g_cpu_features)
__CPROVER_ensures(HASHER_IS_INIT(self, self->key, DERIVE_KEY_MATERIAL))
__CPROVER_ensures(HASHER_WF(self))
__CPROVER_ensures(VERIF_GCPU_OK)
;

#ifdef VERIF_UNIT_DERIVE_KEY
/* ASSUMED: strlen of the ghost string returns the ghost length, reads only the string */
size_t strlen(const char *s)
__CPROVER_requires(s == verif_ghost_str && __CPROVER_r_ok(s, verif_ghost_strlen + 1))
__CPROVER_assigns()
__CPROVER_ensures(__CPROVER_return_value == verif_ghost_strlen)
;
#endif

#endif
