#!/usr/bin/env python3
"""Self-test of the CBMC back end (not part of a normal check run).

    selftest.py baseline [-j N]     every unit on the unchanged tree must pass
    selftest.py sanity   [-j N]     vacuity guard: with -DVERIF_SANITY every harness gets an
                                    assert(0) at its end, which must be the ONLY failing check
    selftest.py mutants  [-j N]     every seeded mutation of /repo/c must be reported as "fail" by
                                    at least one of the units listed for it; harmless edits must pass

Mutated trees are scratch copies (<scratch>/c, same layout) addressed through VERIF_REPO; they
are removed afterwards.  Nothing is written to /repo or /verif.
"""
import json
import os
import shutil
import subprocess
import sys
import tempfile
import time

HERE = os.path.dirname(os.path.abspath(__file__))
BACKEND = os.path.join(os.path.dirname(HERE), "lib", "cbmc_backend.py")
REPO = os.environ.get("VERIF_REPO", "/repo")

# name, file, old text, new text, units expected to fail (any one suffices), description
MUTANTS = [
    ("fill_buf_off_by_one", "blake3.c",
     "size_t take = BLAKE3_BLOCK_LEN - ((size_t)self->buf_len);",
     "size_t take = BLAKE3_BLOCK_LEN + 1 - ((size_t)self->buf_len);",
     ["chunk_state_fill_buf"], "chunk_state_fill_buf takes one byte too many (buffer overflow by 1)"),
    ("update_block_loop_ge", "blake3.c",
     "while (input_len > BLAKE3_BLOCK_LEN) {", "while (input_len >= BLAKE3_BLOCK_LEN) {",
     ["chunk_state_update"], "`>` to `>=` in the block loop: the lazy last block is lost"),
    ("reset_keeps_stack_len", "blake3.c",
     "  chunk_state_reset(&self->chunk, self->key, 0);\n  self->cv_stack_len = 0;",
     "  chunk_state_reset(&self->chunk, self->key, 0);",
     ["blake3_hasher_reset"], "blake3_hasher_reset forgets cv_stack_len"),
    ("reset_keeps_blocks_compressed", "blake3.c",
     "  self->chunk_counter = chunk_counter;\n  self->blocks_compressed = 0;",
     "  self->chunk_counter = chunk_counter;",
     ["chunk_state_reset", "blake3_hasher_reset"], "chunk_state_reset forgets blocks_compressed"),
    ("finalize_merges_stack", "blake3.c",
     "  // If the subtree stack is empty, then the current chunk is the root.\n  if (self->cv_stack_len == 0) {",
     "  hasher_merge_cv_stack((blake3_hasher *)self, self->chunk.chunk_counter);\n  if (self->cv_stack_len == 0) {",
     ["blake3_hasher_finalize_seek"], "finalize writes into the hasher (merges the stack in place)"),
    ("parents_static_scratch", "blake3.c",
     "  const uint8_t *parents_array[MAX_SIMD_DEGREE_OR_2];\n  size_t parents_array_len = 0;",
     "  const uint8_t *parents_array[MAX_SIMD_DEGREE_OR_2];\n  static uint8_t scratch_cv[BLAKE3_OUT_LEN];\n"
     "  memcpy(scratch_cv, child_chaining_values, BLAKE3_OUT_LEN);\n  size_t parents_array_len = 0;",
     ["static_objects", "compress_parents_parallel"],
     "hidden function-local static scratch buffer in compress_parents_parallel (C18; DFCC itself tolerates local statics)"),
    ("parents_file_static_scratch", "blake3.c",
     "INLINE size_t compress_parents_parallel(const uint8_t *child_chaining_values,\n"
     "                                        size_t num_chaining_values,\n"
     "                                        const uint32_t key[8], uint8_t flags,\n"
     "                                        uint8_t *out) {",
     "static uint8_t g_scratch_cv[BLAKE3_OUT_LEN];\n"
     "INLINE size_t compress_parents_parallel(const uint8_t *child_chaining_values,\n"
     "                                        size_t num_chaining_values,\n"
     "                                        const uint32_t key[8], uint8_t flags,\n"
     "                                        uint8_t *out) {\n  memcpy(g_scratch_cv, child_chaining_values, BLAKE3_OUT_LEN);",
     ["compress_parents_parallel", "static_objects"], "hidden file-scope static scratch buffer written by compress_parents_parallel (C18)"),
    ("root_bytes_one_too_many", "blake3.c",
     "    memcpy(out, wide_buf, out_len);\n  }\n}", "    memcpy(out, wide_buf, out_len + 1);\n  }\n}",
     ["output_root_bytes"], "output_root_bytes writes out_len+1 bytes in the tail block"),
    ("parent_wrong_flag", "blake3.c",
     "return make_output(key, block, BLAKE3_BLOCK_LEN, 0, flags | PARENT);",
     "return make_output(key, block, BLAKE3_BLOCK_LEN, 0, flags | CHUNK_END);",
     ["parent_output"], "parent nodes flagged CHUNK_END instead of PARENT"),
    ("merge_condition_weakened", "blake3.c",
     "while (self->cv_stack_len > post_merge_stack_len) {", "while (self->cv_stack_len > post_merge_stack_len + 1) {",
     ["hasher_merge_cv_stack"], "merge loop stops one entry early: the stack can outgrow 55 entries"),
    ("left_subtree_len_wrong", "blake3.c",
     "size_t full_chunks = (input_len - 1) / BLAKE3_CHUNK_LEN;", "size_t full_chunks = input_len / BLAKE3_CHUNK_LEN;",
     ["left_subtree_len"], "left_subtree_len leaves 0 bytes for the right subtree on exact powers of two"),
    ("xof_many_loop_le", "blake3_dispatch.c",
     "for(size_t i = 0; i < outblocks; ++i) {", "for(size_t i = 0; i <= outblocks; ++i) {",
     ["blake3_xof_many"], "portable xof_many fallback writes one block too many"),
    ("push_without_merge", "blake3.c",
     "  hasher_merge_cv_stack(self, chunk_counter);\n  memcpy(&self->cv_stack[",
     "  memcpy(&self->cv_stack[",
     ["hasher_push_cv"], "hasher_push_cv no longer merges first: stack overflow after enough pushes"),
    ("cpu_cache_not_idempotent", "blake3_dispatch.c",
     "ATOMIC_STORE(g_cpu_features, features);", "ATOMIC_STORE(g_cpu_features, features | UNDEFINED);",
     ["get_cpu_features"], "the feature cache stores a value that reads as UNDEFINED again"),
    ("portable_cv_overrun", "blake3_portable.c",
     "  cv[7] = state[7] ^ state[15];\n}", "  cv[7] = state[7] ^ state[15];\n  cv[8] = state[8];\n}",
     ["blake3_compress_in_place_portable"], "portable compress_in_place writes a 9th cv word"),
    ("chunks_parallel_out_stride", "blake3.c",
     "output_chaining_value(&output, &out[chunks_array_len * BLAKE3_OUT_LEN]);",
     "output_chaining_value(&output, &out[(chunks_array_len + 1) * BLAKE3_OUT_LEN]);",
     ["compress_chunks_parallel"], "the partial chunk's CV is written one slot too far"),
    ("msg_schedule_typo", "blake3_impl.h",
     "{2, 6, 3, 10, 7, 0, 4, 13, 1, 11, 12, 5, 9, 14, 15, 8},", "{2, 6, 3, 10, 7, 0, 4, 13, 1, 11, 12, 5, 9, 15, 14, 8},",
     ["compress_spec_vector"], "two entries of MSG_SCHEDULE swapped (memory safe, wrong hash)"),
    ("maybe_start_flag_inverted", "blake3.c",
     "  if (self->blocks_compressed == 0) {\n    return CHUNK_START;", "  if (self->blocks_compressed != 0) {\n    return CHUNK_START;",
     ["chunk_state_maybe_start_flag", "chunk_state_output"], "CHUNK_START set on every block but the first"),
    ("derive_key_strlen", "blake3.c",
     "blake3_hasher_init_derive_key_raw(self, context, strlen(context));",
     "blake3_hasher_init_derive_key_raw(self, context, strlen(context) + 1);",
     ["blake3_hasher_init_derive_key"], "derive_key hashes the terminating NUL too"),
    # ---- plumbing mutants: memory safe, every frame and shape kept; caught by the *_fn units only ----
    ("root_bytes_bulk_guard", "blake3.c",
     "  if(out_len / 64) {", "  if(out_len > 64) {",
     ["output_root_bytes_fn"], "seed C06-2: with exactly one whole block left the bulk xof_many call is skipped: 64 output bytes never written"),
    ("hash_many_sse2_flags_swapped", "blake3_dispatch.c",
     "    blake3_hash_many_sse2(inputs, num_inputs, blocks, key, counter,\n                          increment_counter, flags, flags_start, flags_end,",
     "    blake3_hash_many_sse2(inputs, num_inputs, blocks, key, counter,\n                          increment_counter, flags, flags_end, flags_start,",
     ["blake3_hash_many_fn"], "seed C06-3: flags_start / flags_end swapped in the SSE2 branch of the hash_many dispatch only"),
    ("finalize_stack_index", "blake3.c",
     "cvs_remaining = self->cv_stack_len - 2;", "cvs_remaining = self->cv_stack_len - 1;",
     ["blake3_hasher_finalize_seek_fn"], "finalize starts the roll-up one stack entry too high: in bounds under HASHER_WF, wrong root node"),
    ("parents_swapped_children", "blake3.c",
     "&child_chaining_values[2 * parents_array_len * BLAKE3_OUT_LEN];\n    parents_array_len += 1;",
     "&child_chaining_values[(num_chaining_values - 2 - 2 * parents_array_len) * BLAKE3_OUT_LEN];\n    parents_array_len += 1;",
     ["compress_parents_parallel_fn"], "parents are formed from the child pairs in reverse order: same frames, wrong tree"),
    ("compress_in_place_sse41_args_swapped", "blake3_dispatch.c",
     "blake3_compress_in_place_sse41(cv, block, block_len, counter, flags);",
     "blake3_compress_in_place_sse41(cv, block, flags, counter, block_len);",
     ["blake3_compress_in_place_fn"], "block_len and flags (both uint8_t) swapped in the SSE4.1 branch of compress_in_place"),
    ("compress_xof_avx512_counter_dropped", "blake3_dispatch.c",
     "blake3_compress_xof_avx512(cv, block, block_len, counter, flags, out);",
     "blake3_compress_xof_avx512(cv, block, block_len, 0, flags, out);",
     ["blake3_compress_xof_fn"], "the AVX-512 branch of compress_xof always passes counter 0"),
    ("chaining_value_counter_dropped", "blake3.c",
     "                           self->counter, self->flags);\n  store_cv_words(cv, cv_words);",
     "                           0, self->flags);\n  store_cv_words(cv, cv_words);",
     ["output_chaining_value_fn"], "output_chaining_value compresses with counter 0 instead of the node's counter"),
    ("root_bytes_head_counter", "blake3.c",
     "    out_len -= bytes;\n    output_block_counter += 1;", "    out_len -= bytes;",
     ["output_root_bytes_fn"], "after a partial leading block the block counter is not advanced: the next block repeats it"),
    ("xof_portable_upper_half", "blake3_portable.c",
     "store32(&out[8 * 4], state[8] ^ cv[0]);", "store32(&out[8 * 4], state[0] ^ cv[0]);",
     ["blake3_compress_xof_portable_fn"], "as seed C06-5: a word of the upper half of the XOF block is fed forward from the lower state half"),
    ("in_place_portable_feedforward", "blake3_portable.c",
     "cv[3] = state[3] ^ state[11];", "cv[3] = state[3] ^ state[12];",
     ["blake3_compress_in_place_portable_fn"], "one word of the new cv is fed forward from the wrong state word"),
    ("tbb_right_window_cacheline", "blake3.c",
     "  uint8_t *right_cvs = &cv_array[degree * BLAKE3_OUT_LEN];",
     "#if defined(BLAKE3_USE_TBB)\n  uint8_t *right_cvs = &cv_array[(degree * BLAKE3_OUT_LEN + 63) & ~(size_t)63];\n#else\n"
     "  uint8_t *right_cvs = &cv_array[degree * BLAKE3_OUT_LEN];\n#endif",
     ["blake3_compress_subtree_wide_tbb"], "as seed C08-4: TBB build starts the right CV window on a cache line: with degree 1 the CV pair is no longer contiguous"),
    ("finalize_parent_without_key", "blake3.c",
     "    output = parent_output(parent_block, self->key, self->chunk.flags);",
     "    output = parent_output(parent_block, self->chunk.cv, self->chunk.flags);",
     ["blake3_hasher_finalize_seek_fn"], "finalize's roll-up builds parents over the chunk's cv instead of the key"),
]
# Mutants that keep memory safety, frames and every shape invariant and only change WHICH bytes are
# hashed: by design not detectable by this back end (functional correctness of the C library is an
# assumption, see README); listed so that the self-test documents the limit (`mutants --limits`).
NOT_CAUGHT_BY_DESIGN = [
    ("update_block_flags_dropped", "blake3.c",
     "    blake3_compress_in_place(self->cv, input, BLAKE3_BLOCK_LEN,\n                             self->chunk_counter,\n                             self->flags | chunk_state_maybe_start_flag(self));",
     "    blake3_compress_in_place(self->cv, input, BLAKE3_BLOCK_LEN,\n                             self->chunk_counter,\n                             self->flags);",
     ["chunk_state_update"], "CHUNK_START dropped for blocks compressed straight from the input: chunk_state_update has no *_fn unit (a chain of compressions has no closed form)"),
    ("chunks_partial_counter", "blake3.c",
     "uint64_t counter = chunk_counter + (uint64_t)chunks_array_len;", "uint64_t counter = chunk_counter;",
     ["compress_chunks_parallel"], "the trailing partial chunk is hashed with the first chunk's counter: compress_chunks_parallel has no *_fn unit (16 KiB of symbolic row data: out of memory)"),
]
# thorough-tier mutants (slow unit): run with `mutants --thorough`
MUTANTS_THOROUGH = [
    ("update_take_off_by_one", "blake3.c",
     "size_t take = BLAKE3_CHUNK_LEN - chunk_state_len(&self->chunk);",
     "size_t take = BLAKE3_CHUNK_LEN + 1 - chunk_state_len(&self->chunk);",
     ["blake3_hasher_update_base"], "update lets a chunk grow to 1025 bytes"),
    ("update_counter_increment", "blake3.c",
     "    self->chunk.chunk_counter += subtree_chunks;", "    self->chunk.chunk_counter += 1;",
     ["blake3_hasher_update_base"], "chunk counter advanced by 1 instead of the subtree's chunk count: byte total and stack shape broken"),
    ("update_shrink_test", "blake3.c",
     "while ((((uint64_t)(subtree_len - 1)) & count_so_far) != 0) {", "while ((((uint64_t)subtree_len) & count_so_far) != 0) {",
     ["blake3_hasher_update_base"], "seed C06-4: the shrink loop tests subtree_len instead of subtree_len - 1: subtrees start at unaligned chunk indices"),
    ("xof_many_counter_not_incremented", "blake3_dispatch.c",
     "counter + i, flags, out + 64*i);", "counter, flags, out + 64*i);",
     ["blake3_xof_many_fn"], "the portable xof_many fallback repeats block `counter` outblocks times"),
    ("hash_many_avx2_blocks", "blake3_dispatch.c",
     "    blake3_hash_many_avx2(inputs, num_inputs, blocks, key, counter,", "    blake3_hash_many_avx2(inputs, num_inputs, blocks - (blocks > 1), key, counter,",
     ["blake3_hash_many_rows_fn"], "the AVX2 branch hashes one block less of every multi-block row (still inside the rows)"),
    ("finalize_pending_chunk_flags", "blake3.c",
     "    cvs_remaining = self->cv_stack_len;\n    output = chunk_state_output(&self->chunk);",
     "    cvs_remaining = self->cv_stack_len;\n    output = chunk_state_output(&self->chunk);\n    output.flags &= (uint8_t)~CHUNK_END;",
     ["blake3_hasher_finalize_seek_pending_fn"], "the pending chunk is folded into the tree without CHUNK_END"),
]
HARMLESS = [
    ("root_bytes_reordered", "blake3.c",
     "    out += bytes;\n    out_len -= bytes;\n    output_block_counter += 1;",
     "    output_block_counter += 1;\n    out_len -= bytes;\n    out += bytes;",
     ["output_root_bytes_fn", "output_root_bytes"], "reorder three independent updates in output_root_bytes"),
    ("dispatch_sse2_local_copies", "blake3_dispatch.c",
     "    blake3_hash_many_sse2(inputs, num_inputs, blocks, key, counter,\n                          increment_counter, flags, flags_start, flags_end,",
     "    const uint8_t fs = flags_start, fe = flags_end;\n    blake3_hash_many_sse2(inputs, num_inputs, blocks, key, counter,\n                          increment_counter, flags, fs, fe,",
     ["blake3_hash_many_fn"], "pass flags_start / flags_end through local copies in the SSE2 branch"),
    ("rename_local", "blake3.c", None, None, [
        "chunk_state_fill_buf", "chunk_state_update"], "rename local `take` to `n_take` in chunk_state_fill_buf"),
    ("reorder_independent", "blake3.c",
     "  self->buf_len = 0;\n  self->blocks_compressed = 0;\n  self->flags = flags;",
     "  self->blocks_compressed = 0;\n  self->buf_len = 0;\n  self->flags = flags;",
     ["chunk_state_init", "hasher_init_base"], "swap two independent stores in chunk_state_init"),
    ("shift_lines", "blake3.c",
     "#include \"blake3_impl.h\"\n", "#include \"blake3_impl.h\"\n\n/* an extra comment that shifts every line */\n\n",
     ["chunk_state_update", "blake3_hasher_finalize_seek", "hasher_merge_cv_stack", "blake3_hasher_finalize_seek_fn", "output_root_bytes_fn"],
     "insert comment lines at the top (anchors and loop-contract insertion must survive)"),
]


def run_backend(units, repo, jobs, extra=()):
    env = dict(os.environ, VERIF_REPO=repo)
    p = subprocess.run([sys.executable, BACKEND, "--json", "-j", str(jobs)] + list(extra) + list(units),
                       env=env, stdout=subprocess.PIPE, stderr=subprocess.PIPE, text=True)
    res = []
    for line in p.stdout.splitlines():
        line = line.strip()
        if line.startswith("{"):
            res.append(json.loads(line))
    if not res:
        print(p.stderr[-2000:])
    return res


def mutate(root, name, f, old, new):
    d = os.path.join(root, name)
    shutil.copytree(os.path.join(REPO, "c"), os.path.join(d, "c"))
    path = os.path.join(d, "c", f)
    text = open(path).read()
    if name == "rename_local":
        a = text.index("INLINE size_t chunk_state_fill_buf")
        b = text.index("INLINE uint8_t chunk_state_maybe_start_flag")
        import re
        text2 = text[:a] + re.sub(r"\btake\b", "n_take", text[a:b]) + text[b:]
    else:
        if text.count(old) != 1:
            raise SystemExit("mutant %s: pattern occurs %d times in %s" % (name, text.count(old), f))
        text2 = text.replace(old, new)
    open(path, "w").write(text2)
    return d


def main():
    mode = sys.argv[1] if len(sys.argv) > 1 else "baseline"
    jobs = int(sys.argv[sys.argv.index("-j") + 1]) if "-j" in sys.argv else 6
    thorough = "--thorough" in sys.argv
    ok = True
    if mode == "baseline":
        tier = ["--tier", "all" if thorough else "quick"]
        for r in run_backend([], REPO, jobs, tier):
            good = r["status"] == "pass"
            ok &= good
            print("%-36s %-9s %5d checks %7.1fs %s" % (r["unit"], r["status"], r["obligations"], r["seconds"],
                                                       r["undecided_reason"] or ""))
    elif mode == "sanity":
        tier = ["--tier", "all" if thorough else "quick"]
        for r in run_backend([], REPO, jobs, tier + ["--sanity"]):
            msgs = [f["message"] for f in r["failed"]]
            good = r["status"] == "fail" and len(msgs) == 1 and ("VERIF_SANITY" in msgs[0] or "verif_sanity_static" in msgs[0])
            ok &= good
            print("%-36s %-22s %s" % (r["unit"], "reachable (not vacuous)" if good else "PROBLEM", "" if good else (r["status"], msgs, r["undecided_reason"])))
    elif mode == "mutants":
        root = tempfile.mkdtemp(prefix="verif_cbmc_selftest_", dir=os.environ.get("VERIF_SCRATCH", "/tmp"))
        try:
            todo = (MUTANTS_THOROUGH if thorough else NOT_CAUGHT_BY_DESIGN if "--limits" in sys.argv else MUTANTS)
            only = [a for a in sys.argv[2:] if not a.startswith("-") and not a.isdigit()]
            from concurrent.futures import ThreadPoolExecutor

            def one(m, harmless=False):
                name, f, old, new, units, descr = m
                d = mutate(root, name, f, old, new)
                t0 = time.time()
                rs = run_backend(units, d, max(1, min(len(units), 3)), ["--replay"])
                shutil.rmtree(d, ignore_errors=True)
                return m, rs, time.time() - t0
            ms = [(m, False) for m in todo if not only or m[0] in only]
            if not thorough and "--limits" not in sys.argv:
                ms += [(m, True) for m in HARMLESS if not only or m[0] in only]
            with ThreadPoolExecutor(max_workers=max(1, jobs // 2)) as ex:
                futs = [(h, ex.submit(one, m, h)) for m, h in ms]
            for harmless, fu in futs:
                m, rs, secs = fu.result()
                name, f, old, new, units, descr = m
                if harmless:
                    good = rs and all(r["status"] == "pass" for r in rs)
                    print("HARMLESS %-30s %-8s %s" % (name, "ok" if good else "PROBLEM", [(r["unit"], r["status"], r["undecided_reason"]) for r in rs]))
                else:
                    caught = [r for r in rs if r["status"] == "fail"]
                    good = bool(caught)
                    if "--limits" in sys.argv:
                        good = rs and all(r["status"] == "pass" for r in rs)
                        print("LIMIT    %-30s %-8s (%s) %.0fs" % (name, "passes, as documented" if good else "UNEXPECTED", descr, secs))
                    else:
                        print("MUTANT   %-30s %-8s (%s) %.0fs" % (name, "caught" if good else "MISSED", descr, secs))
                    for r in rs:
                        print("           unit %-34s %s %s" % (r["unit"], r["status"], r["undecided_reason"] or ""))
                        for fo in r["failed"][:4]:
                            rp = fo.get("replay")
                            print("             - %s in %s @%s: %s" % (fo["kind"], fo["function"], fo["location"], (fo["clause"] or fo["message"])[:110]))
                            print("               inputs=%s replay=%s" % (fo["inputs"], None if rp is None else ("REPRODUCED" if rp["reproduced"] else "not reproduced: " + (rp["output"].strip().splitlines() or [""])[-1][:80])))
                ok &= bool(good)
        finally:
            shutil.rmtree(root, ignore_errors=True)
    print("SELFTEST %s: %s" % (mode, "OK" if ok else "PROBLEMS"))
    sys.exit(0 if ok else 1)


if __name__ == "__main__":
    main()
