/* Empty stand-in for <immintrin.h>.  blake3_dispatch.c includes the real header only to get
 * _xgetbv/__cpuid on MSVC; under GCC/Clang (and goto-cc) it uses inline asm and no intrinsic,
 * so nothing from the header is referenced (the unit would not compile otherwise).  Parsing
 * the real header costs goto-cc ~8 s per unit. */
