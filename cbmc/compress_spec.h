/* compress_spec.h -- the BLAKE3 compression function transcribed from the BLAKE3 paper
 * (section 2.2, "Compression function"), independent of the repository's code: its own IV
 * constants, the message permutation applied round by round (not the expanded MSG_SCHEDULE
 * table), plain arrays.  Used only as the right-hand side of units compress_spec_equiv
 * (thorough) and compress_spec_vector (sanity of this transcription on the official
 * empty-input vector). */
#ifndef VERIF_COMPRESS_SPEC_H
#define VERIF_COMPRESS_SPEC_H
#include <stdint.h>

static const uint32_t SPEC_IV[8] = {0x6A09E667u, 0xBB67AE85u, 0x3C6EF372u, 0xA54FF53Au,
                                    0x510E527Fu, 0x9B05688Cu, 0x1F83D9ABu, 0x5BE0CD19u};
/* the permutation of message words between rounds (paper, table 2) */
static const uint8_t SPEC_PERM[16] = {2, 6, 3, 10, 7, 0, 4, 13, 1, 11, 12, 5, 9, 14, 15, 8};

#define SPEC_ROTR(x, n) (((uint32_t)(x) >> (n)) | ((uint32_t)(x) << (32 - (n))))
/* the quarter-round G_i(a,b,c,d) with message words mx = m[2i], my = m[2i+1] */
#define SPEC_G(a, b, c, d, mx, my)                                                       \
  do {                                                                                   \
    v[a] = v[a] + v[b] + (mx);                                                           \
    v[d] = SPEC_ROTR(v[d] ^ v[a], 16);                                                   \
    v[c] = v[c] + v[d];                                                                  \
    v[b] = SPEC_ROTR(v[b] ^ v[c], 12);                                                   \
    v[a] = v[a] + v[b] + (my);                                                           \
    v[d] = SPEC_ROTR(v[d] ^ v[a], 8);                                                    \
    v[c] = v[c] + v[d];                                                                  \
    v[b] = SPEC_ROTR(v[b] ^ v[c], 7);                                                    \
  } while (0)

/* h: chaining value, mw: 16 little-endian message words, t: counter, b: block length,
 * d: domain flags; out: the 16 output words (the first 8 are the new chaining value) */
static void spec_compress(const uint32_t h[8], const uint32_t mw[16], uint64_t t, uint32_t b,
                          uint32_t d, uint32_t out[16]) {
  uint32_t v[16], m[16], p[16];
  for (int i = 0; i < 8; i++) v[i] = h[i];
  for (int i = 0; i < 4; i++) v[8 + i] = SPEC_IV[i];
  v[12] = (uint32_t)t;
  v[13] = (uint32_t)(t >> 32);
  v[14] = b;
  v[15] = d;
  for (int i = 0; i < 16; i++) m[i] = mw[i];
  for (int r = 0; r < 7; r++) {
    SPEC_G(0, 4, 8, 12, m[0], m[1]);   /* columns */
    SPEC_G(1, 5, 9, 13, m[2], m[3]);
    SPEC_G(2, 6, 10, 14, m[4], m[5]);
    SPEC_G(3, 7, 11, 15, m[6], m[7]);
    SPEC_G(0, 5, 10, 15, m[8], m[9]);  /* diagonals */
    SPEC_G(1, 6, 11, 12, m[10], m[11]);
    SPEC_G(2, 7, 8, 13, m[12], m[13]);
    SPEC_G(3, 4, 9, 14, m[14], m[15]);
    for (int i = 0; i < 16; i++) p[i] = m[SPEC_PERM[i]];
    for (int i = 0; i < 16; i++) m[i] = p[i];
  }
  for (int i = 0; i < 8; i++) {
    out[i] = v[i] ^ v[i + 8];
    out[i + 8] = v[i + 8] ^ h[i];
  }
}

static inline uint32_t spec_le32(const uint8_t *p) {
  return (uint32_t)p[0] | ((uint32_t)p[1] << 8) | ((uint32_t)p[2] << 16) | ((uint32_t)p[3] << 24);
}
#endif
