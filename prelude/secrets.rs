// ---------------------------------------------------------------------------------------------
// PRELUDE (trusted) for the `secrets` unit (C17): models of the `zeroize` crate and of
// core::fmt's DebugStruct builder. Everything here is an ASSUMPTION (listed in the evidence).
//   zeroize::Zeroize          trait with the contract "the value is all-zero afterwards"; the crate's
//                             own impls for u8 / u32 / u64 / [Z; N] are assumed to meet it
//   arrayvec's Zeroize impl   len 0 afterwards (it also zeroes the elements and the spare capacity:
//                             bytes outside the abstract view are arrayvec's business)
//   fmt::Formatter::debug_struct / DebugStruct::{field, finish}    ghost log of (name, value) pairs
// Needs prelude/deps.rs (the ArrayVec model, `crate::arrayvec::ArrayVec`).
// ---------------------------------------------------------------------------------------------

// ---- zeroize -------------------------------------------------------------------------------------
// `zeroed()` is what "holds no data any more" means for a type; the repo types define it field by
// field in contracts/secrets.vc (from the property text), the dependency types below by assumption.
pub trait ZeroizeSpec {
    spec fn zeroed(&self) -> bool;
}

pub trait Zeroize: ZeroizeSpec {
    fn zeroize(&mut self)
        ensures
            final(self).zeroed(),
    ;
}

impl ZeroizeSpec for u8 {
    open spec fn zeroed(&self) -> bool {
        *self == 0
    }
}

impl Zeroize for u8 {
    #[verifier::external_body]
    fn zeroize(&mut self) {
        *self = 0;
    }
}

impl ZeroizeSpec for u32 {
    open spec fn zeroed(&self) -> bool {
        *self == 0
    }
}

impl Zeroize for u32 {
    #[verifier::external_body]
    fn zeroize(&mut self) {
        *self = 0;
    }
}

impl ZeroizeSpec for u64 {
    open spec fn zeroed(&self) -> bool {
        *self == 0
    }
}

impl Zeroize for u64 {
    #[verifier::external_body]
    fn zeroize(&mut self) {
        *self = 0;
    }
}

// zeroize: `impl<Z: Zeroize, const N: usize> Zeroize for [Z; N]` (element-wise)
impl<Z: ZeroizeSpec, const N: usize> ZeroizeSpec for [Z; N] {
    open spec fn zeroed(&self) -> bool {
        forall|i: int| 0 <= i < N ==> (#[trigger] self@[i]).zeroed()
    }
}

impl<Z: Zeroize, const N: usize> Zeroize for [Z; N] {
    #[verifier::external_body]
    fn zeroize(&mut self) {
        unimplemented!()
    }
}

// arrayvec (feature "zeroize"): `impl<Z: Zeroize, const CAP: usize> Zeroize for ArrayVec<Z, CAP>`:
// zeroes the elements, clears, zeroes the backing array: empty afterwards and `spare_clean()`.
impl<Z: ZeroizeSpec, const CAP: usize> ZeroizeSpec for crate::arrayvec::ArrayVec<Z, CAP> {
    open spec fn zeroed(&self) -> bool {
        // empty AND the spare capacity holds no bytes of former elements (popped chaining values stay in the
        // backing array until arrayvec's Zeroize impl wipes it)
        self@.len() == 0 && self.spare_clean()
    }
}

impl<Z: Zeroize, const CAP: usize> Zeroize for crate::arrayvec::ArrayVec<Z, CAP> {
    #[verifier::external_body]
    fn zeroize(&mut self) {
        unimplemented!()
    }
}

// ---- fmt::Formatter::debug_struct / fmt::DebugStruct (ghost log) ---------------------------------
// `dbgs_val(v)` is the (type-erased) value handed to the formatting machinery for one field; what is
// finally printed for it is a function of that value and of the formatter's flags only.
// The builder borrows the formatter until it is dropped, so debug_struct's contract speaks about the
// formatter's FINAL state through a prophecy (`ds_proph`) that `finish` resolves to the log;
// `field` after `finish` is excluded by a precondition.
#[verifier::external_type_specification]
#[verifier::external_body]
pub struct ExDebugStruct<'a, 'b: 'a>(core::fmt::DebugStruct<'a, 'b>);

pub type DbgFields = Seq<(Seq<char>, Seq<char>)>;

pub uninterp spec fn dbgs_val(v: &dyn core::fmt::Debug) -> Seq<char>;

pub uninterp spec fn ds_log(d: &core::fmt::DebugStruct) -> DbgFields;

pub uninterp spec fn ds_proph(d: &core::fmt::DebugStruct) -> DbgFields;

pub uninterp spec fn ds_finished(d: &core::fmt::DebugStruct) -> bool;

// the struct renderings written to the formatter so far: (type name, (field name, value) in order)
pub uninterp spec fn fmt_structs(f: &core::fmt::Formatter) -> Seq<(Seq<char>, DbgFields)>;

pub assume_specification<'a, 'b>[ core::fmt::Formatter::<'a>::debug_struct ](
    f: &'b mut core::fmt::Formatter<'a>,
    name: &str,
) -> (r: core::fmt::DebugStruct<'b, 'a>)
    ensures
        ds_log(&r) == DbgFields::empty(),
        !ds_finished(&r),
        fmt_structs(final(f)) == fmt_structs(old(f)).push((name@, ds_proph(&r))),
;

pub assume_specification<'a, 'b: 'a, 'c>[ core::fmt::DebugStruct::<'a, 'b>::field ](
    d: &'c mut core::fmt::DebugStruct<'a, 'b>,
    name: &str,
    value: &dyn core::fmt::Debug,
) -> (r: &'c mut core::fmt::DebugStruct<'a, 'b>)
    requires
        !ds_finished(old(d)),
    ensures
        ds_log(r) == ds_log(old(d)).push((name@, dbgs_val(value))),
        ds_proph(r) == ds_proph(old(d)),
        !ds_finished(r),
        *final(d) == *final(r),
;

pub assume_specification<'a, 'b: 'a>[ core::fmt::DebugStruct::<'a, 'b>::finish ](
    d: &mut core::fmt::DebugStruct<'a, 'b>,
) -> (r: core::fmt::Result)
    requires
        !ds_finished(old(d)),
    ensures
        ds_finished(final(d)),
        ds_proph(old(d)) == ds_log(old(d)),
        ds_log(final(d)) == ds_log(old(d)),
        ds_proph(final(d)) == ds_proph(old(d)),
;
