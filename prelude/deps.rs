// ---------------------------------------------------------------------------------------------
// PRELUDE (trusted): models of dependencies used by the core of the crate.
//   arrayvec::ArrayVec      view Seq<T>; push REQUIRES len < CAP (the real one panics), pop, len,
//                           clear, is_empty, Deref<Target=[T]> (indexing, &v -> &[T])
//   core::slice::ChunksExact / chunks_exact / next / remainder
//   slice helpers vstd has no spec for
// ---------------------------------------------------------------------------------------------
pub mod arrayvec {
    use vstd::prelude::*;

    #[verifier::external_body]
    #[verifier::accept_recursive_types(T)]
    pub struct ArrayVec<T, const CAP: usize> {
        inner: Vec<T>,
    }

    impl<T, const CAP: usize> View for ArrayVec<T, CAP> {
        type V = Seq<T>;

        uninterp spec fn view(&self) -> Seq<T>;
    }

    impl<T, const CAP: usize> ArrayVec<T, CAP> {
        // "no storage slot beyond len() holds the bytes of a former element": true for a fresh vector, kept by
        // push, NOT known after pop / clear / truncate (the removed element's bytes stay in the backing array),
        // re-established only by arrayvec's own Zeroize impl (which wipes the whole backing array).
        pub uninterp spec fn spare_clean(&self) -> bool;

        #[verifier::external_body]
        pub fn new() -> (r: Self)
            ensures
                r@ == Seq::<T>::empty(),
                r.spare_clean(),
        {
            ArrayVec { inner: Vec::new() }
        }

        #[verifier::external_body]
        pub fn push(&mut self, x: T)
            requires
                old(self)@.len() < CAP,
            ensures
                final(self)@ == old(self)@.push(x),
                old(self).spare_clean() ==> final(self).spare_clean(),
        {
            self.inner.push(x)
        }

        #[verifier::external_body]
        pub fn pop(&mut self) -> (r: Option<T>)
            ensures
                old(self)@.len() > 0 ==> r == Some(old(self)@.last()) && final(self)@ == old(self)@.drop_last(),
                old(self)@.len() == 0 ==> r.is_none() && final(self)@ == old(self)@,
        {
            self.inner.pop()
        }

        #[verifier::external_body]
        pub fn len(&self) -> (r: usize)
            ensures
                r == self@.len(),
                r <= CAP,
        {
            self.inner.len()
        }

        #[verifier::external_body]
        pub fn is_empty(&self) -> (r: bool)
            ensures
                r == (self@.len() == 0),
        {
            self.inner.is_empty()
        }

        #[verifier::external_body]
        pub fn clear(&mut self)
            ensures
                final(self)@ == Seq::<T>::empty(),
        {
            self.inner.clear()
        }
    }

    impl<T: Clone, const CAP: usize> Clone for ArrayVec<T, CAP> {
        #[verifier::external_body]
        fn clone(&self) -> (r: Self)
            ensures
                r@ == self@,
        {
            ArrayVec { inner: self.inner.clone() }
        }
    }

    impl<T, const CAP: usize> core::ops::Deref for ArrayVec<T, CAP> {
        type Target = [T];

        #[verifier::external_body]
        fn deref(&self) -> (r: &[T])
            ensures
                r@ == self@,
        {
            &self.inner[..]
        }
    }
}

// ---- core::slice::ChunksExact ----------------------------------------------------------------
#[verifier::external_type_specification]
#[verifier::external_body]
#[verifier::reject_recursive_types(T)]
pub struct ExChunksExact<'a, T: 'a>(core::slice::ChunksExact<'a, T>);

// not-yet-yielded whole chunks (a multiple of the chunk size), the remainder, the chunk size
pub uninterp spec fn ce_rest<'a, T>(c: &core::slice::ChunksExact<'a, T>) -> Seq<T>;

pub uninterp spec fn ce_remainder<'a, T>(c: &core::slice::ChunksExact<'a, T>) -> Seq<T>;

pub uninterp spec fn ce_size<'a, T>(c: &core::slice::ChunksExact<'a, T>) -> nat;

pub assume_specification<'a, T>[ <[T]>::chunks_exact ](s: &'a [T], n: usize) -> (r: core::slice::ChunksExact<'a, T>)
    requires
        n > 0,
    ensures
        ce_size(&r) == n,
        ce_rest(&r) == s@.subrange(0, s@.len() - (s@.len() as int) % (n as int)),
        ce_remainder(&r) == s@.subrange(s@.len() - (s@.len() as int) % (n as int), s@.len() as int),
;

pub assume_specification<'a, T>[ <core::slice::ChunksExact<'a, T> as Iterator>::next ](
    c: &mut core::slice::ChunksExact<'a, T>,
) -> (r: Option<&'a [T]>)
    ensures
        ce_size(final(c)) == ce_size(old(c)),
        ce_remainder(final(c)) == ce_remainder(old(c)),
        ce_rest(old(c)).len() >= ce_size(old(c)) ==> r.is_some() && r.unwrap()@ == ce_rest(old(c)).subrange(
            0,
            ce_size(old(c)) as int,
        ) && ce_rest(final(c)) == ce_rest(old(c)).subrange(ce_size(old(c)) as int, ce_rest(old(c)).len() as int),
        ce_rest(old(c)).len() < ce_size(old(c)) ==> r.is_none() && ce_rest(final(c)) == ce_rest(old(c)),
;

pub assume_specification<'a, T>[ core::slice::ChunksExact::<'a, T>::remainder ](
    c: &core::slice::ChunksExact<'a, T>,
) -> (r: &'a [T])
    ensures
        r@ == ce_remainder(c),
;
