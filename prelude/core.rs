// ---------------------------------------------------------------------------------------------
// PRELUDE (trusted): helpers introduced by the extraction rules and assumed specs of `core`.
// Everything in this file is an ASSUMPTION; the scan in lib/verus_backend.py lists each
// `external_body` / `assume_specification` of the assembled file in the evidence.
// ---------------------------------------------------------------------------------------------

// Configuration: 64-bit usize (all four extraction configurations are 64-bit targets).
global size_of usize == 8;

// `&A[..]` has the view A@.subrange(0, len): only extensionally equal to A@. This (proved) lemma is
// broadcast in every module so that the two are identified.
pub mod vf_lemmas {
    use vstd::prelude::*;

    pub broadcast proof fn vf_lemma_subrange_full<T>(s: Seq<T>)
        ensures
            #[trigger] s.subrange(0, s.len() as int) == s,
    {
        assert(s.subrange(0, s.len() as int) =~= s);
    }

    // Bit-vector facts for the shift/mask spellings of division, remainder and multiplication by the powers of two
    // this code base uses (2, 4, 8, 16, 32, 64 = BLOCK_LEN, 1024 = CHUNK_LEN, 2^32): proved here by (bit_vector) and
    // broadcast in every module, so that `x >> 6` / `x & 63` verify wherever `x / 64` / `x % 64` did. They only
    // trigger on terms of exactly these shapes.
    pub broadcast proof fn vf_bv_u64_shr1(x: u64)
        ensures #[trigger] (x >> 1) == x / 2,
    { assert((x >> 1) == x / 2) by (bit_vector); }
    pub broadcast proof fn vf_bv_u64_and1(x: u64)
        ensures #[trigger] (x & 1) == x % 2,
    { assert((x & 1) == x % 2) by (bit_vector); }
    pub broadcast proof fn vf_bv_u64_shl1(x: u64)
        requires x <= 9223372036854775807,
        ensures #[trigger] (x << 1) == x * 2,
    { assert(x <= 9223372036854775807 ==> (x << 1) == x * 2) by (bit_vector); }
    pub broadcast proof fn vf_bv_u64_shr2(x: u64)
        ensures #[trigger] (x >> 2) == x / 4,
    { assert((x >> 2) == x / 4) by (bit_vector); }
    pub broadcast proof fn vf_bv_u64_and3(x: u64)
        ensures #[trigger] (x & 3) == x % 4,
    { assert((x & 3) == x % 4) by (bit_vector); }
    pub broadcast proof fn vf_bv_u64_shl2(x: u64)
        requires x <= 4611686018427387903,
        ensures #[trigger] (x << 2) == x * 4,
    { assert(x <= 4611686018427387903 ==> (x << 2) == x * 4) by (bit_vector); }
    pub broadcast proof fn vf_bv_u64_shr3(x: u64)
        ensures #[trigger] (x >> 3) == x / 8,
    { assert((x >> 3) == x / 8) by (bit_vector); }
    pub broadcast proof fn vf_bv_u64_and7(x: u64)
        ensures #[trigger] (x & 7) == x % 8,
    { assert((x & 7) == x % 8) by (bit_vector); }
    pub broadcast proof fn vf_bv_u64_shl3(x: u64)
        requires x <= 2305843009213693951,
        ensures #[trigger] (x << 3) == x * 8,
    { assert(x <= 2305843009213693951 ==> (x << 3) == x * 8) by (bit_vector); }
    pub broadcast proof fn vf_bv_u64_shr4(x: u64)
        ensures #[trigger] (x >> 4) == x / 16,
    { assert((x >> 4) == x / 16) by (bit_vector); }
    pub broadcast proof fn vf_bv_u64_and15(x: u64)
        ensures #[trigger] (x & 15) == x % 16,
    { assert((x & 15) == x % 16) by (bit_vector); }
    pub broadcast proof fn vf_bv_u64_shl4(x: u64)
        requires x <= 1152921504606846975,
        ensures #[trigger] (x << 4) == x * 16,
    { assert(x <= 1152921504606846975 ==> (x << 4) == x * 16) by (bit_vector); }
    pub broadcast proof fn vf_bv_u64_shr5(x: u64)
        ensures #[trigger] (x >> 5) == x / 32,
    { assert((x >> 5) == x / 32) by (bit_vector); }
    pub broadcast proof fn vf_bv_u64_and31(x: u64)
        ensures #[trigger] (x & 31) == x % 32,
    { assert((x & 31) == x % 32) by (bit_vector); }
    pub broadcast proof fn vf_bv_u64_shl5(x: u64)
        requires x <= 576460752303423487,
        ensures #[trigger] (x << 5) == x * 32,
    { assert(x <= 576460752303423487 ==> (x << 5) == x * 32) by (bit_vector); }
    pub broadcast proof fn vf_bv_u64_shr6(x: u64)
        ensures #[trigger] (x >> 6) == x / 64,
    { assert((x >> 6) == x / 64) by (bit_vector); }
    pub broadcast proof fn vf_bv_u64_and63(x: u64)
        ensures #[trigger] (x & 63) == x % 64,
    { assert((x & 63) == x % 64) by (bit_vector); }
    pub broadcast proof fn vf_bv_u64_shl6(x: u64)
        requires x <= 288230376151711743,
        ensures #[trigger] (x << 6) == x * 64,
    { assert(x <= 288230376151711743 ==> (x << 6) == x * 64) by (bit_vector); }
    pub broadcast proof fn vf_bv_u64_shr10(x: u64)
        ensures #[trigger] (x >> 10) == x / 1024,
    { assert((x >> 10) == x / 1024) by (bit_vector); }
    pub broadcast proof fn vf_bv_u64_and1023(x: u64)
        ensures #[trigger] (x & 1023) == x % 1024,
    { assert((x & 1023) == x % 1024) by (bit_vector); }
    pub broadcast proof fn vf_bv_u64_shl10(x: u64)
        requires x <= 18014398509481983,
        ensures #[trigger] (x << 10) == x * 1024,
    { assert(x <= 18014398509481983 ==> (x << 10) == x * 1024) by (bit_vector); }
    pub broadcast proof fn vf_bv_u64_shr32(x: u64)
        ensures #[trigger] (x >> 32) == x / 4294967296,
    { assert((x >> 32) == x / 4294967296) by (bit_vector); }
    pub broadcast proof fn vf_bv_u64_and4294967295(x: u64)
        ensures #[trigger] (x & 4294967295) == x % 4294967296,
    { assert((x & 4294967295) == x % 4294967296) by (bit_vector); }
    pub broadcast proof fn vf_bv_usize_shr1(x: usize)
        ensures #[trigger] (x >> 1) == x / 2,
    { assert((x >> 1) == x / 2) by (bit_vector); }
    pub broadcast proof fn vf_bv_usize_and1(x: usize)
        ensures #[trigger] (x & 1) == x % 2,
    { assert((x & 1) == x % 2) by (bit_vector); }
    pub broadcast proof fn vf_bv_usize_shl1(x: usize)
        requires x <= 9223372036854775807,
        ensures #[trigger] (x << 1) == x * 2,
    { assert(x <= 9223372036854775807 ==> (x << 1) == x * 2) by (bit_vector); }
    pub broadcast proof fn vf_bv_usize_shr2(x: usize)
        ensures #[trigger] (x >> 2) == x / 4,
    { assert((x >> 2) == x / 4) by (bit_vector); }
    pub broadcast proof fn vf_bv_usize_and3(x: usize)
        ensures #[trigger] (x & 3) == x % 4,
    { assert((x & 3) == x % 4) by (bit_vector); }
    pub broadcast proof fn vf_bv_usize_shl2(x: usize)
        requires x <= 4611686018427387903,
        ensures #[trigger] (x << 2) == x * 4,
    { assert(x <= 4611686018427387903 ==> (x << 2) == x * 4) by (bit_vector); }
    pub broadcast proof fn vf_bv_usize_shr3(x: usize)
        ensures #[trigger] (x >> 3) == x / 8,
    { assert((x >> 3) == x / 8) by (bit_vector); }
    pub broadcast proof fn vf_bv_usize_and7(x: usize)
        ensures #[trigger] (x & 7) == x % 8,
    { assert((x & 7) == x % 8) by (bit_vector); }
    pub broadcast proof fn vf_bv_usize_shl3(x: usize)
        requires x <= 2305843009213693951,
        ensures #[trigger] (x << 3) == x * 8,
    { assert(x <= 2305843009213693951 ==> (x << 3) == x * 8) by (bit_vector); }
    pub broadcast proof fn vf_bv_usize_shr4(x: usize)
        ensures #[trigger] (x >> 4) == x / 16,
    { assert((x >> 4) == x / 16) by (bit_vector); }
    pub broadcast proof fn vf_bv_usize_and15(x: usize)
        ensures #[trigger] (x & 15) == x % 16,
    { assert((x & 15) == x % 16) by (bit_vector); }
    pub broadcast proof fn vf_bv_usize_shl4(x: usize)
        requires x <= 1152921504606846975,
        ensures #[trigger] (x << 4) == x * 16,
    { assert(x <= 1152921504606846975 ==> (x << 4) == x * 16) by (bit_vector); }
    pub broadcast proof fn vf_bv_usize_shr5(x: usize)
        ensures #[trigger] (x >> 5) == x / 32,
    { assert((x >> 5) == x / 32) by (bit_vector); }
    pub broadcast proof fn vf_bv_usize_and31(x: usize)
        ensures #[trigger] (x & 31) == x % 32,
    { assert((x & 31) == x % 32) by (bit_vector); }
    pub broadcast proof fn vf_bv_usize_shl5(x: usize)
        requires x <= 576460752303423487,
        ensures #[trigger] (x << 5) == x * 32,
    { assert(x <= 576460752303423487 ==> (x << 5) == x * 32) by (bit_vector); }
    pub broadcast proof fn vf_bv_usize_shr6(x: usize)
        ensures #[trigger] (x >> 6) == x / 64,
    { assert((x >> 6) == x / 64) by (bit_vector); }
    pub broadcast proof fn vf_bv_usize_and63(x: usize)
        ensures #[trigger] (x & 63) == x % 64,
    { assert((x & 63) == x % 64) by (bit_vector); }
    pub broadcast proof fn vf_bv_usize_shl6(x: usize)
        requires x <= 288230376151711743,
        ensures #[trigger] (x << 6) == x * 64,
    { assert(x <= 288230376151711743 ==> (x << 6) == x * 64) by (bit_vector); }
    pub broadcast proof fn vf_bv_usize_shr10(x: usize)
        ensures #[trigger] (x >> 10) == x / 1024,
    { assert((x >> 10) == x / 1024) by (bit_vector); }
    pub broadcast proof fn vf_bv_usize_and1023(x: usize)
        ensures #[trigger] (x & 1023) == x % 1024,
    { assert((x & 1023) == x % 1024) by (bit_vector); }
    pub broadcast proof fn vf_bv_usize_shl10(x: usize)
        requires x <= 18014398509481983,
        ensures #[trigger] (x << 10) == x * 1024,
    { assert(x <= 18014398509481983 ==> (x << 10) == x * 1024) by (bit_vector); }
    pub broadcast proof fn vf_bv_usize_shr32(x: usize)
        ensures #[trigger] (x >> 32) == x / 4294967296,
    { assert((x >> 32) == x / 4294967296) by (bit_vector); }
    pub broadcast proof fn vf_bv_usize_and4294967295(x: usize)
        ensures #[trigger] (x & 4294967295) == x % 4294967296,
    { assert((x & 4294967295) == x % 4294967296) by (bit_vector); }
    pub broadcast proof fn vf_bv_u8_nibbles(a: u8, b: u8)
        requires a < 16, b < 16,
        ensures #[trigger] ((a << 4) | b) == 16 * a + b,
    { assert(a < 16 && b < 16 ==> ((a << 4) | b) == 16 * a + b) by (bit_vector); }
    pub broadcast group vf_bv_facts {
        vf_bv_u8_nibbles,
        vf_bv_u64_shr1,
        vf_bv_u64_and1,
        vf_bv_u64_shl1,
        vf_bv_u64_shr2,
        vf_bv_u64_and3,
        vf_bv_u64_shl2,
        vf_bv_u64_shr3,
        vf_bv_u64_and7,
        vf_bv_u64_shl3,
        vf_bv_u64_shr4,
        vf_bv_u64_and15,
        vf_bv_u64_shl4,
        vf_bv_u64_shr5,
        vf_bv_u64_and31,
        vf_bv_u64_shl5,
        vf_bv_u64_shr6,
        vf_bv_u64_and63,
        vf_bv_u64_shl6,
        vf_bv_u64_shr10,
        vf_bv_u64_and1023,
        vf_bv_u64_shl10,
        vf_bv_u64_shr32,
        vf_bv_u64_and4294967295,
        vf_bv_usize_shr1,
        vf_bv_usize_and1,
        vf_bv_usize_shl1,
        vf_bv_usize_shr2,
        vf_bv_usize_and3,
        vf_bv_usize_shl2,
        vf_bv_usize_shr3,
        vf_bv_usize_and7,
        vf_bv_usize_shl3,
        vf_bv_usize_shr4,
        vf_bv_usize_and15,
        vf_bv_usize_shl4,
        vf_bv_usize_shr5,
        vf_bv_usize_and31,
        vf_bv_usize_shl5,
        vf_bv_usize_shr6,
        vf_bv_usize_and63,
        vf_bv_usize_shl6,
        vf_bv_usize_shr10,
        vf_bv_usize_and1023,
        vf_bv_usize_shl10,
        vf_bv_usize_shr32,
        vf_bv_usize_and4294967295,
    }
}

// R1: arrayref::array_ref!(A, O, N)  ==  vf_array_ref::<_, {N}>(&(A)[..], O)
#[verifier::external_body]
pub fn vf_array_ref<T, const N: usize>(s: &[T], off: usize) -> (r: &[T; N])
    requires
        off + N <= s@.len(),
    ensures
        r@ == s@.subrange(off as int, off + N),
{
    (&s[off..off + N]).try_into().unwrap()
}

// R1: arrayref::array_mut_ref!(A, O, N)
#[verifier::external_body]
pub fn vf_array_mut_ref<T, const N: usize>(s: &mut [T], off: usize) -> (r: &mut [T; N])
    requires
        off + N <= old(s)@.len(),
    ensures
        r@ == old(s)@.subrange(off as int, off + N),
        final(s)@ == old(s)@.subrange(0, off as int) + final(r)@ + old(s)@.subrange(
            off + N,
            old(s)@.len() as int,
        ),
{
    (&mut s[off..off + N]).try_into().unwrap()
}

// R2: whether `debug_assert!` arguments are evaluated depends on the build profile; nothing is known about it
#[verifier::external_body]
pub fn vf_debug_assertions_enabled() -> (r: bool) {
    cfg!(debug_assertions)
}

// ---- little-endian words (R4) -----------------------------------------------------------------
pub open spec fn sp_le32(b: Seq<u8>) -> u32 {
    (b[0] as u32) | ((b[1] as u32) << 8) | ((b[2] as u32) << 16) | ((b[3] as u32) << 24)
}

pub open spec fn sp_u32_le(w: u32) -> Seq<u8> {
    seq![(w & 0xff) as u8, ((w >> 8) & 0xff) as u8, ((w >> 16) & 0xff) as u8, ((w >> 24) & 0xff) as u8]
}

#[verifier::external_body]
pub fn vf_u32_from_le_bytes(x: [u8; 4]) -> (r: u32)
    ensures
        r == sp_le32(x@),
{
    u32::from_le_bytes(x)
}

// native-endian conversions: the result depends on the target. The contracts are about EVERY target the crate
// supports, so nothing but "one of the two byte orders" is known about them: code that uses them where the
// specification fixes little-endian cannot prove its postcondition (seeded change C15-5).
pub open spec fn sp_be32(b: Seq<u8>) -> u32 {
    (b[3] as u32) | ((b[2] as u32) << 8) | ((b[1] as u32) << 16) | ((b[0] as u32) << 24)
}

#[verifier::external_body]
pub fn vf_u32_from_ne_bytes(x: [u8; 4]) -> (r: u32)
    ensures
        r == sp_le32(x@) || r == sp_be32(x@),
{
    u32::from_ne_bytes(x)
}

#[verifier::external_body]
pub fn vf_u32_from_be_bytes(x: [u8; 4]) -> (r: u32)
    ensures
        r == sp_be32(x@),
{
    u32::from_be_bytes(x)
}

pub trait VfToLe {
    spec fn vf_le_spec(&self) -> Seq<u8>;

    fn vf_to_le_bytes(self) -> (r: [u8; 4])
        ensures
            r@ == self.vf_le_spec(),
    ;
}

impl VfToLe for u32 {
    open spec fn vf_le_spec(&self) -> Seq<u8> {
        sp_u32_le(*self)
    }

    #[verifier::external_body]
    fn vf_to_le_bytes(self) -> (r: [u8; 4]) {
        self.to_le_bytes()
    }
}

// ---- integer intrinsics -----------------------------------------------------------------------
pub open spec fn sp_rotr(x: u32, n: u32) -> u32 {
    (x >> n) | (x << ((32 - n) as u32))
}

pub assume_specification[ u32::rotate_right ](x: u32, n: u32) -> (r: u32)
    requires
        0 < n < 32,
    ensures
        r == sp_rotr(x, n),
;

pub open spec fn sp_popcount64(x: u64) -> nat
    decreases x,
{
    if x == 0 {
        0
    } else {
        ((x & 1) as nat) + sp_popcount64(x / 2)
    }
}

pub assume_specification[ u64::count_ones ](x: u64) -> (r: u32)
    ensures
        r == sp_popcount64(x),
        r <= 64,
;

pub open spec fn sp_popcount_usize(x: usize) -> nat {
    sp_popcount64(x as u64)
}

pub assume_specification[ usize::count_ones ](x: usize) -> (r: u32)
    ensures
        r == sp_popcount64(x as u64),
        r <= 64,
;

pub open spec fn sp_is_pow2(n: int) -> bool
    decreases n,
{
    if n <= 0 {
        false
    } else if n == 1 {
        true
    } else {
        n % 2 == 0 && sp_is_pow2(n / 2)
    }
}

// next_power_of_two: smallest power of two >= x; panics in debug / wraps to 0 in release on overflow,
// so absence of overflow is a precondition (an obligation at every call site).
pub assume_specification[ u64::next_power_of_two ](x: u64) -> (r: u64)
    requires
        x <= 0x8000_0000_0000_0000u64,
    ensures
        sp_is_pow2(r as int),
        r >= x,
        x >= 1 ==> (r as int) < 2 * (x as int),
        x == 0 ==> r == 1,
;

pub assume_specification[ usize::next_power_of_two ](x: usize) -> (r: usize)
    requires
        (x as int) <= 0x8000_0000_0000_0000int,
    ensures
        sp_is_pow2(r as int),
        r >= x,
        x >= 1 ==> (r as int) < 2 * (x as int),
        x == 0 ==> r == 1,
;

// rule R4b: `x.trailing_zeros()` -> `x.vf_trailing_zeros()` (vstd's own spec of trailing_zeros is closed)
pub trait VfTz {
    spec fn vf_tz_spec(&self) -> nat;

    fn vf_trailing_zeros(self) -> (r: u32)
        ensures
            r == self.vf_tz_spec(),
    ;
}

impl VfTz for u64 {
    open spec fn vf_tz_spec(&self) -> nat {
        sp_tz64(*self)
    }

    #[verifier::external_body]
    fn vf_trailing_zeros(self) -> (r: u32) {
        self.trailing_zeros()
    }
}

pub open spec fn sp_tz64(x: u64) -> nat
    decreases x,
{
    if x == 0 {
        64
    } else if x & 1 == 1 {
        0
    } else {
        1 + sp_tz64(x / 2)
    }
}
