// ---------------------------------------------------------------------------------------------
// PRELUDE (trusted): helpers introduced by the extraction rules and assumed specs of `core`.
// Everything in this file is an ASSUMPTION; the scan in lib/verus_backend.py lists each
// `external_body` / `assume_specification` of the assembled file in the evidence.
// ---------------------------------------------------------------------------------------------

// Configuration: 64-bit usize (all four extraction configurations are 64-bit targets).
global size_of usize == 8;

// `&A[..]` has the view A@.subrange(0, len): only extensionally equal to A@. This (proved) lemma is
// broadcast in every module so that the two are identified.
pub mod vf_lemmas {
    use vstd::prelude::*;

    pub broadcast proof fn vf_lemma_subrange_full<T>(s: Seq<T>)
        ensures
            #[trigger] s.subrange(0, s.len() as int) == s,
    {
        assert(s.subrange(0, s.len() as int) =~= s);
    }
}

// R1: arrayref::array_ref!(A, O, N)  ==  vf_array_ref::<_, {N}>(&(A)[..], O)
#[verifier::external_body]
pub fn vf_array_ref<T, const N: usize>(s: &[T], off: usize) -> (r: &[T; N])
    requires
        off + N <= s@.len(),
    ensures
        r@ == s@.subrange(off as int, off + N),
{
    (&s[off..off + N]).try_into().unwrap()
}

// R1: arrayref::array_mut_ref!(A, O, N)
#[verifier::external_body]
pub fn vf_array_mut_ref<T, const N: usize>(s: &mut [T], off: usize) -> (r: &mut [T; N])
    requires
        off + N <= old(s)@.len(),
    ensures
        r@ == old(s)@.subrange(off as int, off + N),
        final(s)@ == old(s)@.subrange(0, off as int) + final(r)@ + old(s)@.subrange(
            off + N,
            old(s)@.len() as int,
        ),
{
    (&mut s[off..off + N]).try_into().unwrap()
}

// ---- little-endian words (R4) -----------------------------------------------------------------
pub open spec fn sp_le32(b: Seq<u8>) -> u32 {
    (b[0] as u32) | ((b[1] as u32) << 8) | ((b[2] as u32) << 16) | ((b[3] as u32) << 24)
}

pub open spec fn sp_u32_le(w: u32) -> Seq<u8> {
    seq![(w & 0xff) as u8, ((w >> 8) & 0xff) as u8, ((w >> 16) & 0xff) as u8, ((w >> 24) & 0xff) as u8]
}

#[verifier::external_body]
pub fn vf_u32_from_le_bytes(x: [u8; 4]) -> (r: u32)
    ensures
        r == sp_le32(x@),
{
    u32::from_le_bytes(x)
}

pub trait VfToLe {
    spec fn vf_le_spec(&self) -> Seq<u8>;

    fn vf_to_le_bytes(self) -> (r: [u8; 4])
        ensures
            r@ == self.vf_le_spec(),
    ;
}

impl VfToLe for u32 {
    open spec fn vf_le_spec(&self) -> Seq<u8> {
        sp_u32_le(*self)
    }

    #[verifier::external_body]
    fn vf_to_le_bytes(self) -> (r: [u8; 4]) {
        self.to_le_bytes()
    }
}

// ---- integer intrinsics -----------------------------------------------------------------------
pub open spec fn sp_rotr(x: u32, n: u32) -> u32 {
    (x >> n) | (x << ((32 - n) as u32))
}

pub assume_specification[ u32::rotate_right ](x: u32, n: u32) -> (r: u32)
    requires
        0 < n < 32,
    ensures
        r == sp_rotr(x, n),
;

pub open spec fn sp_popcount64(x: u64) -> nat
    decreases x,
{
    if x == 0 {
        0
    } else {
        ((x & 1) as nat) + sp_popcount64(x / 2)
    }
}

pub assume_specification[ u64::count_ones ](x: u64) -> (r: u32)
    ensures
        r == sp_popcount64(x),
        r <= 64,
;

pub open spec fn sp_popcount_usize(x: usize) -> nat {
    sp_popcount64(x as u64)
}

pub assume_specification[ usize::count_ones ](x: usize) -> (r: u32)
    ensures
        r == sp_popcount64(x as u64),
        r <= 64,
;

pub open spec fn sp_is_pow2(n: int) -> bool
    decreases n,
{
    if n <= 0 {
        false
    } else if n == 1 {
        true
    } else {
        n % 2 == 0 && sp_is_pow2(n / 2)
    }
}

// next_power_of_two: smallest power of two >= x; panics in debug / wraps to 0 in release on overflow,
// so absence of overflow is a precondition (an obligation at every call site).
pub assume_specification[ u64::next_power_of_two ](x: u64) -> (r: u64)
    requires
        x <= 0x8000_0000_0000_0000u64,
    ensures
        sp_is_pow2(r as int),
        r >= x,
        x >= 1 ==> (r as int) < 2 * (x as int),
        x == 0 ==> r == 1,
;

pub assume_specification[ usize::next_power_of_two ](x: usize) -> (r: usize)
    requires
        (x as int) <= 0x8000_0000_0000_0000int,
    ensures
        sp_is_pow2(r as int),
        r >= x,
        x >= 1 ==> (r as int) < 2 * (x as int),
        x == 0 ==> r == 1,
;

// rule R4b: `x.trailing_zeros()` -> `x.vf_trailing_zeros()` (vstd's own spec of trailing_zeros is closed)
pub trait VfTz {
    spec fn vf_tz_spec(&self) -> nat;

    fn vf_trailing_zeros(self) -> (r: u32)
        ensures
            r == self.vf_tz_spec(),
    ;
}

impl VfTz for u64 {
    open spec fn vf_tz_spec(&self) -> nat {
        sp_tz64(*self)
    }

    #[verifier::external_body]
    fn vf_trailing_zeros(self) -> (r: u32) {
        self.trailing_zeros()
    }
}

pub open spec fn sp_tz64(x: u64) -> nat
    decreases x,
{
    if x == 0 {
        64
    } else if x & 1 == 1 {
        0
    } else {
        1 + sp_tz64(x / 2)
    }
}
