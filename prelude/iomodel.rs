// ---------------------------------------------------------------------------------------------
// PRELUDE (trusted): what OutputReader needs from `core::mem` and `std::io`.
//   R9   core::mem::take(b) on `&mut &mut [T]`   ->  vf_take_mut_slice(b)
//   R15  std::io::Error::new(kind, msg)          ->  vf_io_error_new(kind, msg)
//   std::io::{Error, ErrorKind, SeekFrom} made known to Verus (external_type_specification)
// Everything in this file is an ASSUMPTION (listed in the evidence by the mechanical scan).
// ---------------------------------------------------------------------------------------------

// R9. `core::mem::take(b)` returns the slice reference that was stored in `*b` (same target, hence the
// prophecy clause: whatever is finally written through the result is the final value of the original
// target) and leaves `Default::default()` = the empty slice in `*b`.
#[verifier::external_body]
pub fn vf_take_mut_slice<'a, 'b, T>(b: &'b mut &'a mut [T]) -> (r: &'a mut [T])
    ensures
        r@ == (*old(b))@,
        final(r)@ == final(*old(b))@,
        (*final(b))@.len() == 0,
{
    core::mem::take(b)
}

// std::io::Error is opaque (no view: the property only says "fails with an error").
#[verifier::external_type_specification]
#[verifier::external_body]
pub struct ExIoError(std::io::Error);

#[verifier::external_type_specification]
pub struct ExIoErrorKind(std::io::ErrorKind);

#[verifier::external_type_specification]
pub struct ExIoSeekFrom(std::io::SeekFrom);

// R15. `std::io::Error::new(kind, msg)` (Verus: "dyn with more than one trait" in its signature). Total,
// no precondition, no effect besides allocating the error value.
#[verifier::external_body]
pub fn vf_io_error_new(kind: std::io::ErrorKind, msg: &str) -> (r: std::io::Error) {
    std::io::Error::new(kind, msg)
}
