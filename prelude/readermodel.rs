// ---------------------------------------------------------------------------------------------
// PRELUDE (trusted): environment models for the IO adapters (C11) and the RustCrypto traits (C16).
//   std::io::Read        -> trait VfRead with a ghost log (std's documented contract of `read`)
//   std::io::Error::kind -> assumed specification (uninterpreted kind of an opaque error)
// Everything in this file is an ASSUMPTION about std / the operating system / dependencies.
// ---------------------------------------------------------------------------------------------

// the kind of an (opaque) io::Error
pub uninterp spec fn vf_io_err_kind(e: &std::io::Error) -> std::io::ErrorKind;

pub assume_specification[ std::io::Error::kind ](e: &std::io::Error) -> (r: std::io::ErrorKind)
    ensures
        r == vf_io_err_kind(e),
;

// derived PartialEq of the field-less enum ErrorKind: equality of the variants
pub assume_specification[ <std::io::ErrorKind as PartialEq>::eq ](
    a: &std::io::ErrorKind,
    b: &std::io::ErrorKind,
) -> (r: bool)
    ensures
        r == (*a == *b),
;

pub open spec fn vf_is_interrupted(e: &std::io::Error) -> bool {
    vf_io_err_kind(e) == std::io::ErrorKind::Interrupted
}

// std::io::Read. The ghost observables of a reader:
//   log()         every byte the reader has yielded so far (through successful reads), in order
//   eofs()        how many reads into a non-empty buffer returned Ok(0) (= "end of file" by std's contract)
//   hard_errors() how many reads returned an error other than ErrorKind::Interrupted
//   last_error()  the most recent error returned
//   limit()       an upper bound, fixed for the life of the reader, on the number of bytes it ever yields
//                 ("the source is shorter than limit() bytes"; needed because Hasher::update is specified
//                 for inputs of fewer than 2^64 bytes in total)
// `read` (std's documentation): Ok(n) => n <= buf.len(), the first n bytes of buf are the next n bytes of the
// source, the rest of buf is unchanged; Err(_) => no bytes were read (nothing is consumed from the source).
// Nothing is said about WHICH of the three outcomes happens, nor about n: short reads, Interrupted and hard
// errors may occur in any pattern, and a reader need not ever reach end of file.
pub trait VfRead: Sized {
    spec fn log(&self) -> Seq<u8>;

    spec fn eofs(&self) -> nat;

    spec fn hard_errors(&self) -> nat;

    spec fn last_error(&self) -> std::io::Error;

    spec fn limit(&self) -> nat;

    fn read(&mut self, buf: &mut [u8]) -> (r: std::io::Result<usize>)
        requires
            old(self).log().len() <= old(self).limit(),
        ensures
            final(buf)@.len() == old(buf)@.len(),
            final(self).limit() == old(self).limit(),
            final(self).log().len() <= final(self).limit(),
            match r {
                Ok(n) => {
                    &&& n <= old(buf)@.len()
                    &&& final(self).log() == old(self).log() + final(buf)@.subrange(0, n as int)
                    &&& final(buf)@.subrange(n as int, old(buf)@.len() as int) == old(buf)@.subrange(
                        n as int,
                        old(buf)@.len() as int,
                    )
                    &&& final(self).eofs() == old(self).eofs() + (if n == 0 && old(buf)@.len() > 0 {
                        1nat
                    } else {
                        0nat
                    })
                    &&& final(self).hard_errors() == old(self).hard_errors()
                },
                Err(e) => {
                    &&& final(self).log() == old(self).log()
                    &&& final(self).eofs() == old(self).eofs()
                    &&& final(self).last_error() == e
                    &&& final(self).hard_errors() == old(self).hard_errors() + (if vf_is_interrupted(&e) {
                        0nat
                    } else {
                        1nat
                    })
                },
            },
    ;
}
