// ---------------------------------------------------------------------------------------------
// PRELUDE (trusted): environment models for the IO adapters (C11) and the RustCrypto traits (C16).
//   std::io::Read        -> trait VfRead with a ghost log (std's documented contract of `read`)
//   std::io::Error::kind -> assumed specification (uninterpreted kind of an opaque error)
//   std::fs::File, std::path::Path -> vf_fs::{File, Path}: ghost content, start position, log (cursor = start + |log|),
//                           seekable, mappable; open / seek(End(d <= 0)) / rewind / stream_position / read
//   memmap2::{Mmap, MmapOptions} -> module memmap2: view Seq<u8>, Deref<Target=[u8]>, new / len / map
// Everything in this file is an ASSUMPTION about std / the operating system / dependencies.
// ---------------------------------------------------------------------------------------------

// the kind of an (opaque) io::Error
pub uninterp spec fn vf_io_err_kind(e: &std::io::Error) -> std::io::ErrorKind;

pub assume_specification[ std::io::Error::kind ](e: &std::io::Error) -> (r: std::io::ErrorKind)
    ensures
        r == vf_io_err_kind(e),
;

// derived PartialEq of the field-less enum ErrorKind: equality of the variants
pub assume_specification[ <std::io::ErrorKind as PartialEq>::eq ](
    a: &std::io::ErrorKind,
    b: &std::io::ErrorKind,
) -> (r: bool)
    ensures
        r == (*a == *b),
;

pub open spec fn vf_is_interrupted(e: &std::io::Error) -> bool {
    vf_io_err_kind(e) == std::io::ErrorKind::Interrupted
}

// what reading never changes (see VfRead::source)
pub ghost struct VfSource {
    pub content: Seq<u8>,
    pub start: int,
    pub seekable: bool,
    pub mappable: bool,
}

// std::io::Read. The ghost observables of a reader:
//   log()         every byte the reader has yielded so far (through successful reads), in order
//   eofs()        how many reads into a non-empty buffer returned Ok(0) (= "end of file" by std's contract)
//   hard_errors() how many reads returned an error other than ErrorKind::Interrupted
//   last_error()  the most recent error returned
//   limit()       an upper bound, not changed by reading, on the length of the log ("the source is shorter than
//                 limit() bytes"; needed because Hasher::update is specified for inputs of fewer than 2^64
//                 bytes in total)
//   inv()         the reader's own invariant, required and re-established by every read (true for a plain reader;
//                 for a File: the log is the piece of the file content between start and cursor)
//   source()      the object behind the reader, which reading does not change (arbitrary for a plain reader;
//                 for a File: its content, start position, seekable, mappable)
// `read` (std's documentation): Ok(n) => n <= buf.len(), the first n bytes of buf are the next n bytes of the
// source, the rest of buf is unchanged; Err(_) => no bytes were read (nothing is consumed from the source).
// Nothing is said about WHICH of the three outcomes happens, nor about n: short reads, Interrupted and hard
// errors may occur in any pattern, and a reader need not ever reach end of file.
pub trait VfRead: Sized {
    spec fn log(&self) -> Seq<u8>;

    spec fn eofs(&self) -> nat;

    spec fn hard_errors(&self) -> nat;

    spec fn last_error(&self) -> std::io::Error;

    spec fn limit(&self) -> nat;

    spec fn inv(&self) -> bool;

    spec fn source(&self) -> VfSource;

    fn read(&mut self, buf: &mut [u8]) -> (r: std::io::Result<usize>)
        requires
            old(self).inv(),
            old(self).log().len() <= old(self).limit(),
        ensures
            final(buf)@.len() == old(buf)@.len(),
            final(self).inv(),
            final(self).source() == old(self).source(),
            final(self).limit() == old(self).limit(),
            final(self).log().len() <= final(self).limit(),
            match r {
                Ok(n) => {
                    &&& n <= old(buf)@.len()
                    &&& final(self).log() == old(self).log() + final(buf)@.subrange(0, n as int)
                    &&& final(buf)@.subrange(n as int, old(buf)@.len() as int) == old(buf)@.subrange(
                        n as int,
                        old(buf)@.len() as int,
                    )
                    &&& final(self).eofs() == old(self).eofs() + (if n == 0 && old(buf)@.len() > 0 {
                        1nat
                    } else {
                        0nat
                    })
                    &&& final(self).hard_errors() == old(self).hard_errors()
                },
                Err(e) => {
                    &&& final(self).log() == old(self).log()
                    &&& final(self).eofs() == old(self).eofs()
                    &&& final(self).last_error() == e
                    &&& final(self).hard_errors() == old(self).hard_errors() + (if vf_is_interrupted(&e) {
                        0nat
                    } else {
                        1nat
                    })
                },
            },
    ;
}

// ---- std::fs::File (and the path it is opened from) ---------------------------------------------------
// Ghost state of an open file:
//   content   the bytes of the file. ASSUMPTION: fixed while the file is open (no concurrent writer, no
//             truncation), finite; for a pipe / character device: the bytes it will deliver
//   start     the cursor position established by open (0) or by the last successful seek / rewind
//   log       the bytes read since then (so cursor == start + |log|), eofs: the Ok(0) reads since then
//   seekable  whether lseek works on it (false: pipes, sockets, ttys)
//   mappable  whether mmap works on it (false: e.g. /sys, /proc files, some network file systems)
// ASSUMPTIONS about the operating system (POSIX lseek / read / mmap on a regular file): a failed seek leaves
// the cursor where it was; seek(End(d)) succeeds exactly with |content| + d when that is >= 0 on a seekable
// file; read returns 0 on a non-empty buffer only at end of file and otherwise delivers the bytes at the
// cursor; a mapping of length len shows the first len bytes of the file. Special files whose seek result
// does not reflect what read delivers (/dev/random, /dev/zero: seek returns 0) are OUTSIDE this model.
pub mod vf_fs {
    use vstd::prelude::*;
    use crate::*;

    #[verifier::external_body]
    pub struct File {
        f: std::fs::File,
    }

    // stands for `std::path::Path` (unsized, cannot be named in Verus)
    #[verifier::external_body]
    pub struct Path {
        p: std::path::PathBuf,
    }

    // the content of the file the path names, at the time it is opened
    pub uninterp spec fn vf_path_content(p: &Path) -> Seq<u8>;

    pub uninterp spec fn vf_file_content(f: &File) -> Seq<u8>;

    pub uninterp spec fn vf_file_start(f: &File) -> int;

    pub uninterp spec fn vf_file_log(f: &File) -> Seq<u8>;

    pub uninterp spec fn vf_file_eofs(f: &File) -> nat;

    pub uninterp spec fn vf_file_hard_errors(f: &File) -> nat;

    pub uninterp spec fn vf_file_last_error(f: &File) -> std::io::Error;

    pub uninterp spec fn vf_file_seekable(f: &File) -> bool;

    pub uninterp spec fn vf_file_mappable(f: &File) -> bool;

    pub open spec fn vf_file_cursor(f: &File) -> int {
        vf_file_start(f) + vf_file_log(f).len()
    }

    // what has been read since the last positioning is the content between start and cursor; Ok(0) only at
    // (or beyond) the end
    pub open spec fn vf_file_inv(f: &File) -> bool {
        &&& 0 <= vf_file_start(f)
        &&& vf_file_cursor(f) <= vf_file_content(f).len()
        &&& vf_file_log(f) == vf_file_content(f).subrange(vf_file_start(f), vf_file_cursor(f))
        &&& (vf_file_eofs(f) > 0 ==> vf_file_cursor(f) == vf_file_content(f).len())
    }

    // freshly opened / rewound, nothing read yet
    pub open spec fn vf_file_at_start(f: &File) -> bool {
        &&& vf_file_start(f) == 0
        &&& vf_file_log(f) == Seq::<u8>::empty()
        &&& vf_file_eofs(f) == 0
    }

    // content, seekable, mappable never change
    pub open spec fn vf_file_same(a: &File, b: &File) -> bool {
        &&& vf_file_content(a) == vf_file_content(b)
        &&& vf_file_seekable(a) == vf_file_seekable(b)
        &&& vf_file_mappable(a) == vf_file_mappable(b)
    }

    // everything unchanged (an operation that failed)
    pub open spec fn vf_file_unchanged(a: &File, b: &File) -> bool {
        &&& vf_file_same(a, b)
        &&& vf_file_start(a) == vf_file_start(b)
        &&& vf_file_log(a) == vf_file_log(b)
        &&& vf_file_eofs(a) == vf_file_eofs(b)
    }

    // positioned at p, nothing read since
    pub open spec fn vf_file_positioned(a: &File, b: &File, p: int) -> bool {
        &&& vf_file_same(a, b)
        &&& vf_file_start(b) == p
        &&& vf_file_log(b) == Seq::<u8>::empty()
        &&& vf_file_eofs(b) == 0
    }

    pub open spec fn vf_seek_end_offset(pos: std::io::SeekFrom) -> int {
        match pos {
            std::io::SeekFrom::End(d) => d as int,
            _ => 0,
        }
    }

    impl File {
        // std::fs::File::open(path)
        #[verifier::external_body]
        pub fn open(path: &Path) -> (r: std::io::Result<File>)
            ensures
                r matches Ok(f) ==> vf_file_content(&f) == vf_path_content(path) && vf_file_at_start(&f)
                    && vf_file_inv(&f),
        {
            unimplemented!()
        }

        // <File as io::Seek>::seek, for the only form the crate uses: an offset <= 0 from the end
        #[verifier::external_body]
        pub fn seek(&mut self, pos: std::io::SeekFrom) -> (r: std::io::Result<u64>)
            requires
                pos matches std::io::SeekFrom::End(d) && d <= 0,
            ensures
                match r {
                    Ok(p) => {
                        &&& vf_file_seekable(old(self))
                        &&& p == vf_file_content(old(self)).len() + vf_seek_end_offset(pos)
                        &&& vf_file_positioned(old(self), final(self), p as int)
                    },
                    Err(_) => vf_file_unchanged(old(self), final(self)),
                },
                // lseek fails on unseekable files (ESPIPE) and for negative targets (EINVAL)
                !vf_file_seekable(old(self)) ==> r is Err,
                vf_file_content(old(self)).len() + vf_seek_end_offset(pos) < 0 ==> r is Err,
        {
            unimplemented!()
        }

        // io::Seek::rewind == seek(SeekFrom::Start(0))
        #[verifier::external_body]
        pub fn rewind(&mut self) -> (r: std::io::Result<()>)
            ensures
                match r {
                    Ok(_) => vf_file_seekable(old(self)) && vf_file_positioned(old(self), final(self), 0),
                    Err(_) => vf_file_unchanged(old(self), final(self)),
                },
                !vf_file_seekable(old(self)) ==> r is Err,
        {
            unimplemented!()
        }

        // io::Seek::stream_position == seek(SeekFrom::Current(0))
        #[verifier::external_body]
        pub fn stream_position(&mut self) -> (r: std::io::Result<u64>)
            ensures
                vf_file_unchanged(old(self), final(self)),
                r matches Ok(p) ==> p == vf_file_cursor(old(self)),
                !vf_file_seekable(old(self)) ==> r is Err,
        {
            unimplemented!()
        }
    }

    // <File as io::Read> (and <&File as io::Read>: the cursor lives in the kernel, a shared reference suffices
    // in real Rust; the model needs `&mut` to speak about the new cursor)
    impl VfRead for File {
        open spec fn log(&self) -> Seq<u8> {
            vf_file_log(self)
        }

        open spec fn eofs(&self) -> nat {
            vf_file_eofs(self)
        }

        open spec fn hard_errors(&self) -> nat {
            vf_file_hard_errors(self)
        }

        open spec fn last_error(&self) -> std::io::Error {
            vf_file_last_error(self)
        }

        // what can still be read plus what has been read since the last positioning
        open spec fn limit(&self) -> nat {
            if vf_file_content(self).len() >= vf_file_start(self) {
                (vf_file_content(self).len() - vf_file_start(self)) as nat
            } else {
                0
            }
        }

        open spec fn inv(&self) -> bool {
            vf_file_inv(self)
        }

        open spec fn source(&self) -> VfSource {
            VfSource {
                content: vf_file_content(self),
                start: vf_file_start(self),
                seekable: vf_file_seekable(self),
                mappable: vf_file_mappable(self),
            }
        }

        #[verifier::external_body]
        fn read(&mut self, buf: &mut [u8]) -> (r: std::io::Result<usize>) {
            unimplemented!()
        }
    }
}

// ---- memmap2 -------------------------------------------------------------------------------------------
pub mod memmap2 {
    use vstd::prelude::*;
    use crate::vf_fs::*;

    #[verifier::external_body]
    pub struct Mmap {
        m: Vec<u8>,
    }

    impl View for Mmap {
        type V = Seq<u8>;

        uninterp spec fn view(&self) -> Seq<u8>;
    }

    impl core::ops::Deref for Mmap {
        type Target = [u8];

        #[verifier::external_body]
        fn deref(&self) -> (r: &[u8])
            ensures
                r@ == self@,
        {
            &self.m[..]
        }
    }

    // the builder: only the `len` option is used by the crate (offset stays 0)
    pub struct MmapOptions {
        pub len: Option<usize>,
    }

    impl MmapOptions {
        pub fn new() -> (r: Self)
            ensures
                r.len is None,
        {
            MmapOptions { len: None }
        }

        pub fn len(&mut self, len: usize) -> (r: &mut Self)
            ensures
                r.len == Some(len),
                *final(r) == *final(self),
        {
            self.len = Some(len);
            self
        }

        // `unsafe fn map<T: MmapAsRawDesc>(&self, file: T)` for T = &File. A mapping of `len` bytes from offset 0
        // shows the first `len` bytes of the file (bytes of the mapping beyond the end of the file are not
        // specified: touching them faults); without `len` the whole file is mapped. Fails on unmappable files.
        #[verifier::external_body]
        pub fn map(&self, file: &File) -> (r: std::io::Result<Mmap>)
            ensures
                r matches Ok(m) ==> {
                    &&& vf_file_mappable(file)
                    &&& match self.len {
                        Some(l) => m@.len() == l && (forall|i: int|
                            0 <= i < l && i < vf_file_content(file).len() ==> #[trigger] m@[i] == vf_file_content(
                                file,
                            )[i]),
                        // memmap2 takes the length from the file's METADATA (fstat), which equals the number of
                        // readable bytes only for regular files (block devices report 0, /proc files 0 or a page)
                        None => m@.len() == vf_file_meta_len(file) && (forall|i: int|
                            0 <= i < m@.len() && i < vf_file_content(file).len() ==> #[trigger] m@[i] == vf_file_content(
                                file,
                            )[i]),
                    }
                },
                !vf_file_mappable(file) ==> r is Err,
        {
            unimplemented!()
        }
    }

    // what fstat reports as the size: equal to the number of readable bytes only for regular files, so nothing is
    // known about it here
    pub uninterp spec fn vf_file_meta_len(f: &File) -> nat;

    impl Mmap {
        // `unsafe fn Mmap::map(file)` == `MmapOptions::new().map(file)`
        #[verifier::external_body]
        pub fn map(file: &File) -> (r: std::io::Result<Mmap>)
            ensures
                r matches Ok(m) ==> {
                    &&& vf_file_mappable(file)
                    &&& m@.len() == vf_file_meta_len(file)
                    &&& forall|i: int|
                        0 <= i < m@.len() && i < vf_file_content(file).len() ==> #[trigger] m@[i] == vf_file_content(file)[i]
                },
                !vf_file_mappable(file) ==> r is Err,
        {
            unimplemented!()
        }
    }
}

// ---- digest::array::Array<u8, U32> (= hybrid_array::Array; also digest::Key<Hasher>, digest::Output<Hasher>) -------
// 32 bytes. `copy_from_slice` is <[u8]>::copy_from_slice through DerefMut (panics unless the lengths agree: a
// precondition here); `into` is `From<Array<u8, U32>> for [u8; 32]` (the same 32 bytes).
#[derive(Clone, Copy)]
pub struct VfArray32 {
    pub bytes: [u8; 32],
}

impl View for VfArray32 {
    type V = Seq<u8>;

    open spec fn view(&self) -> Seq<u8> {
        self.bytes@
    }
}

impl VfArray32 {
    #[verifier::external_body]
    pub fn copy_from_slice(&mut self, src: &[u8])
        requires
            src@.len() == 32,
        ensures
            final(self)@ == src@,
    {
        self.bytes.copy_from_slice(src)
    }

    #[verifier::external_body]
    pub fn into(self) -> (r: [u8; 32])
        ensures
            r@ == self@,
    {
        self.bytes
    }
}
