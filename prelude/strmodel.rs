// ---------------------------------------------------------------------------------------------
// PRELUDE (trusted) for the b3sum unit: models of the std / dependency code that the checkfile
// functions of b3sum/src/main.rs call and that vstd does not specify. Everything marked
// `external_body` / `assume_specification` / `external_type_specification` here is an ASSUMPTION
// (listed in the evidence). `str` itself is NOT modelled here: vstd models it natively as
// `Seq<char>` (`s@`) together with its UTF-8 encoding (`s.spec_bytes() == encode_utf8(s@)`,
// `s.len()` is the BYTE length, slicing requires char boundaries).
// ---------------------------------------------------------------------------------------------

global size_of usize == 8;

// ---- R17: anyhow ------------------------------------------------------------------------------
// `anyhow::Result<T>` -> `VfResult<T>`, `bail!(..)` -> `return Err(vf_err())`,
// `ensure!(c, ..)` -> `if !(c) { return Err(vf_err()); }`. The error text is dropped; an error is
// an opaque value, so `Err` is all a caller can observe.
pub struct VfErr;

pub type VfResult<T> = Result<T, VfErr>;

pub fn vf_err() -> VfErr {
    VfErr
}

// ---- byte length of the UTF-8 encoding (vstd::utf8) ---------------------------------------------
pub open spec fn sp_blen(s: Seq<char>) -> nat {
    vstd::utf8::encode_utf8(s).len()
}

// std guarantee: no allocation, hence no `str`, is larger than isize::MAX bytes.
#[verifier::external_body]
pub proof fn axiom_str_len_bound(s: &str)
    ensures
        sp_blen(s@) <= isize::MAX,
{
}

// `&s[a..]`, `&s[..b]`, `&s[a..b]` on `str`: vstd states the precondition of `<str as Index<I>>::index`
// (range in bounds, both ends on char boundaries -- a panic otherwise) but gives it no postcondition;
// the missing half is vstd's own `index_postcondition` (the result's bytes are that byte sub-range).
pub assume_specification<I: core::slice::SliceIndex<str>>[ <str as core::ops::Index<I>>::index ](s: &str, i: I) -> (r: &<I as core::slice::SliceIndex<str>>::Output)
    ensures
        vstd::slice::SliceIndexSpec::index_postcondition(&i, s, r),
;

// ---- pattern vocabulary of the assumed contracts ------------------------------------------------
// `p` occurs in `s` at char index `k`
pub open spec fn sp_occurs_at(s: Seq<char>, p: Seq<char>, k: int) -> bool {
    0 <= k && k + p.len() <= s.len() && s.subrange(k, k + p.len()) == p
}

pub open spec fn sp_has_occ(s: Seq<char>, p: Seq<char>) -> bool {
    exists|k: int| sp_occurs_at(s, p, k)
}

// s == a + p + b where this occurrence of p is the FIRST / the LAST one in s
pub open spec fn sp_is_split_first(s: Seq<char>, p: Seq<char>, a: Seq<char>, b: Seq<char>) -> bool {
    s == a + p + b && forall|j: int| 0 <= j < a.len() ==> !sp_occurs_at(s, p, j)
}

pub open spec fn sp_is_split_last(s: Seq<char>, p: Seq<char>, a: Seq<char>, b: Seq<char>) -> bool {
    s == a + p + b && forall|j: int| a.len() < j ==> !sp_occurs_at(s, p, j)
}

// first occurrence of a char (char index)
pub open spec fn sp_is_first_char(s: Seq<char>, c: char, k: int) -> bool {
    0 <= k < s.len() && s[k] == c && forall|j: int| 0 <= j < k ==> s[j] != c
}

// `str::replace(c, to)`: every occurrence of the char is replaced, left to right
pub open spec fn sp_replace_char(s: Seq<char>, c: char, to: Seq<char>) -> Seq<char>
    decreases s.len(),
{
    if s.len() == 0 {
        Seq::<char>::empty()
    } else {
        (if s[0] == c {
            to
        } else {
            seq![s[0]]
        }) + sp_replace_char(s.drop_first(), c, to)
    }
}

// ---- R18: Pattern-generic `str` methods, one monomorphic wrapper each ---------------------------
// Contracts are stated over the `Seq<char>` view and BYTE offsets (`sp_blen` of a char prefix).
pub trait VfStrExt {
    spec fn vf_view(&self) -> Seq<char>;

    // str::find(char): byte offset of the FIRST occurrence (hence a char boundary), or None
    fn vf_find_char(&self, c: char) -> (r: Option<usize>)
        ensures
            r is None ==> !self.vf_view().contains(c),
            r is Some ==> exists|k: int|
                sp_is_first_char(self.vf_view(), c, k) && r->Some_0 as int == sp_blen(
                    self.vf_view().take(k),
                ),
    ;

    // str::contains(char)
    fn vf_contains_char(&self, c: char) -> (r: bool)
        ensures
            r == self.vf_view().contains(c),
    ;

    // str::contains([char; N]): some char of the string is one of the listed chars
    fn vf_contains_chars<const N: usize>(&self, cs: [char; N]) -> (r: bool)
        ensures
            r == exists|j: int| 0 <= j < self.vf_view().len() && cs@.contains(#[trigger] self.vf_view()[j]),
    ;

    // str::starts_with(&str)
    fn vf_starts_with_str(&self, pat: &str) -> (r: bool)
        ensures
            r == sp_occurs_at(self.vf_view(), pat@, 0),
    ;

    // str::split_once(&str): split around the FIRST occurrence of the pattern
    fn vf_split_once_str<'a>(&'a self, pat: &str) -> (r: Option<(&'a str, &'a str)>)
        ensures
            r is None ==> !sp_has_occ(self.vf_view(), pat@),
            r is Some ==> sp_is_split_first(self.vf_view(), pat@, r->Some_0.0@, r->Some_0.1@),
    ;

    // str::rsplit_once(&str): split around the LAST occurrence of the pattern
    fn vf_rsplit_once_str<'a>(&'a self, pat: &str) -> (r: Option<(&'a str, &'a str)>)
        ensures
            r is None ==> !sp_has_occ(self.vf_view(), pat@),
            r is Some ==> sp_is_split_last(self.vf_view(), pat@, r->Some_0.0@, r->Some_0.1@),
    ;

    // str::trim_end_matches([char; N]): the longest prefix whose last char is not a listed char
    fn vf_trim_end_matches_chars<'a, const N: usize>(&'a self, cs: [char; N]) -> (r: &'a str)
        ensures
            r@.len() <= self.vf_view().len(),
            r@ == self.vf_view().take(r@.len() as int),
            forall|j: int| r@.len() <= j < self.vf_view().len() ==> cs@.contains(#[trigger] self.vf_view()[j]),
            r@.len() > 0 ==> !cs@.contains(r@[r@.len() - 1]),
    ;

    // str::replace(char, &str)
    fn vf_replace_char(&self, from: char, to: &str) -> (r: String)
        ensures
            r@ == sp_replace_char(self.vf_view(), from, to@),
    ;
}

impl VfStrExt for str {
    open spec fn vf_view(&self) -> Seq<char> {
        self@
    }

    #[verifier::external_body]
    fn vf_find_char(&self, c: char) -> (r: Option<usize>) {
        self.find(c)
    }

    #[verifier::external_body]
    fn vf_contains_char(&self, c: char) -> (r: bool) {
        self.contains(c)
    }

    #[verifier::external_body]
    fn vf_contains_chars<const N: usize>(&self, cs: [char; N]) -> (r: bool) {
        self.contains(cs)
    }

    #[verifier::external_body]
    fn vf_starts_with_str(&self, pat: &str) -> (r: bool) {
        self.starts_with(pat)
    }

    #[verifier::external_body]
    fn vf_split_once_str<'a>(&'a self, pat: &str) -> (r: Option<(&'a str, &'a str)>) {
        self.split_once(pat)
    }

    #[verifier::external_body]
    fn vf_rsplit_once_str<'a>(&'a self, pat: &str) -> (r: Option<(&'a str, &'a str)>) {
        self.rsplit_once(pat)
    }

    #[verifier::external_body]
    fn vf_trim_end_matches_chars<'a, const N: usize>(&'a self, cs: [char; N]) -> (r: &'a str) {
        self.trim_end_matches(cs)
    }

    #[verifier::external_body]
    fn vf_replace_char(&self, from: char, to: &str) -> (r: String) {
        self.replace(from, to)
    }
}

// String::with_capacity(n): an empty string (allocation failure / capacity overflow is outside the model)
#[verifier::external_body]
pub fn vf_string_with_capacity(n: usize) -> (r: String)
    ensures
        r@ == Seq::<char>::empty(),
{
    String::with_capacity(n)
}

// ---- std::path -----------------------------------------------------------------------------------
#[verifier::external_type_specification]
#[verifier::external_body]
pub struct ExPath(std::path::Path);

#[verifier::external_type_specification]
#[verifier::external_body]
pub struct ExPathBuf(std::path::PathBuf);

// the lossy Unicode rendering of an OS path (`Path::to_string_lossy`): invalid sequences become U+FFFD
pub uninterp spec fn sp_path_lossy(p: &std::path::Path) -> Seq<char>;

// the Unicode string a PathBuf was built from (`PathBuf::from(String)` is a re-labelling of the bytes)
pub uninterp spec fn sp_pathbuf_str(p: std::path::PathBuf) -> Seq<char>;

pub assume_specification[ <std::path::PathBuf as From<String>>::from ](s: String) -> (r: std::path::PathBuf)
    ensures
        sp_pathbuf_str(r) == s@,
;

// model of `Cow<'_, str>` as returned by `to_string_lossy` (only `.to_string()` is used on it)
pub struct VfCowStr {
    pub s: String,
}

impl VfCowStr {
    #[verifier::external_body]
    pub fn to_string(&self) -> (r: String)
        ensures
            r@ == self.s@,
    {
        self.s.clone()
    }
}

pub trait VfPathExt {
    spec fn vf_lossy(&self) -> Seq<char>;

    fn vf_to_string_lossy(&self) -> (r: VfCowStr)
        ensures
            r.s@ == self.vf_lossy(),
    ;
}

impl VfPathExt for std::path::Path {
    open spec fn vf_lossy(&self) -> Seq<char> {
        sp_path_lossy(self)
    }

    #[verifier::external_body]
    fn vf_to_string_lossy(&self) -> (r: VfCowStr) {
        VfCowStr { s: self.to_string_lossy().to_string() }
    }
}

// ---- R21: standard output as a ghost log ------------------------------------------------------------
// Extraction rule R21 (unit option `print_model`) threads `vf_out: &mut VfStdout` through the functions that
// print and turns `print!("lit {} lit", a)` into `vf_stdout_write(vf_out, "lit "); vf_stdout_write_disp(vf_out,
// &(a)); vf_stdout_write(vf_out, " lit")` (`println!` appends `vf_stdout_write(vf_out, "\n")`). The log is the
// sequence of chars written so far. ASSUMED: std's `print!` writes the literal pieces and the `Display`
// renderings of the arguments in format-string order, nothing else; `Display` of `String` / `str` / `&T` is the
// string itself (std's impls `f.pad(self)` without width / precision flags, which `{}` does not set).
pub struct VfStdout {
    pub log: Ghost<Seq<char>>,
    // bytes written by --raw (write_raw_output); text writes say nothing about it and vice versa
    pub raw: Ghost<Seq<u8>>,
}

impl VfStdout {
    pub open spec fn view(&self) -> Seq<char> {
        self.log@
    }
}

#[verifier::external_body]
pub fn vf_stdout_write(out: &mut VfStdout, s: &str)
    ensures
        final(out)@ == old(out)@ + s@,
{
    unimplemented!()
}

pub trait VfDisplay {
    spec fn vf_disp(&self) -> Seq<char>;
}

impl VfDisplay for String {
    open spec fn vf_disp(&self) -> Seq<char> {
        self@
    }
}

impl VfDisplay for str {
    open spec fn vf_disp(&self) -> Seq<char> {
        self@
    }
}

impl<T: VfDisplay + ?Sized> VfDisplay for &T {
    open spec fn vf_disp(&self) -> Seq<char> {
        (**self).vf_disp()
    }
}

#[verifier::external_body]
pub fn vf_stdout_write_disp<T: VfDisplay + ?Sized>(out: &mut VfStdout, x: &T)
    ensures
        final(out)@ == old(out)@ + x.vf_disp(),
{
    unimplemented!()
}

// ---- the extended output of a hasher as seen by b3sum -------------------------------------------------
// byte `i` of the output stream of the finalized hasher `id` (C03 decides on the real crate that an
// OutputReader serves one coherent stream)
pub uninterp spec fn sp_xof_byte(id: int, i: int) -> u8;

pub open spec fn sp_xof_bytes(id: int, from: int, n: int) -> Seq<u8> {
    Seq::new(n as nat, |j: int| sp_xof_byte(id, from + j))
}

// the `hex` crate: `hex::encode(data)` is the lowercase hex string of the bytes (monomorphic in `&[u8]`; the
// real function is generic in `T: AsRef<[u8]>`, another argument type is a type error = undecided)
pub mod hex {
    use vstd::prelude::*;
    use crate::*;

    #[verifier::external_body]
    pub fn encode(data: &[u8]) -> (r: String)
        ensures
            r@ == sp_hex_encode(data@),
    {
        unimplemented!()
    }
}

// ---- the `blake3` crate as seen by b3sum: OUT_LEN, BLOCK_LEN, Hash::from([u8; 32]), Hasher, OutputReader --
pub mod blake3 {
    use vstd::prelude::*;

    pub const OUT_LEN: usize = 32;

    pub const KEY_LEN: usize = 32;

    pub const BLOCK_LEN: usize = 64;

    // blake3::Hasher as seen by b3sum's hash_path: a mode (key / flags) and the bytes absorbed so far. ASSUMED here, each
    // clause being what the hasher / io / xof units VERIFY on the real crate (C02, C10, C11, C03): clone copies the state;
    // update_reader(r) absorbs exactly the bytes r yields up to EOF or fails; update_mmap_rayon(path) absorbs exactly
    // the file's bytes or fails; finalize_xof is a pure query returning a reader at position 0 on the stream of
    // (mode, absorbed bytes); set_position moves the reader only.
    #[verifier::external_body]
    pub struct Hasher {
        _p: u8,
    }

    pub uninterp spec fn sp_stream_id(mode: int, absorbed: Seq<u8>) -> int;

    pub uninterp spec fn sp_mode_hash() -> int;

    pub uninterp spec fn sp_mode_keyed(key: Seq<u8>) -> int;

    pub uninterp spec fn sp_mode_derive(context: Seq<char>) -> int;

    impl Hasher {
        pub uninterp spec fn mode(&self) -> int;

        pub uninterp spec fn absorbed(&self) -> Seq<u8>;

        // the three constructors: the mode is a function of (nothing / the key / the context string), nothing absorbed
        #[verifier::external_body]
        pub fn new() -> (r: Hasher)
            ensures
                r.mode() == sp_mode_hash(),
                r.absorbed() == Seq::<u8>::empty(),
        {
            unimplemented!()
        }

        #[verifier::external_body]
        pub fn new_keyed(key: &[u8; 32]) -> (r: Hasher)
            ensures
                r.mode() == sp_mode_keyed(key@),
                r.absorbed() == Seq::<u8>::empty(),
        {
            unimplemented!()
        }

        #[verifier::external_body]
        pub fn new_derive_key(context: &str) -> (r: Hasher)
            ensures
                r.mode() == sp_mode_derive(context@),
                r.absorbed() == Seq::<u8>::empty(),
        {
            unimplemented!()
        }

        #[verifier::external_body]
        pub fn vf_update_reader<R: crate::VfSource>(&mut self, reader: R) -> (r: crate::VfResult<()>)
            ensures
                final(self).mode() == old(self).mode(),
                match r {
                    Ok(_) => reader.src_bytes() matches Some(b) && final(self).absorbed() == old(self).absorbed() + b,
                    Err(_) => reader.src_bytes() is None,
                },
        {
            unimplemented!()
        }

        #[verifier::external_body]
        pub fn vf_update_mmap_rayon(&mut self, path: &std::path::Path) -> (r: crate::VfResult<()>)
            ensures
                final(self).mode() == old(self).mode(),
                match r {
                    Ok(_) => crate::sp_file_bytes(crate::sp_path_lossy(path)) matches Some(b) && final(self).absorbed()
                        == old(self).absorbed() + b,
                    Err(_) => crate::sp_file_bytes(crate::sp_path_lossy(path)) is None,
                },
        {
            unimplemented!()
        }

        #[verifier::external_body]
        pub fn finalize_xof(&self) -> (o: OutputReader)
            ensures
                o.id() == sp_stream_id(self.mode(), self.absorbed()),
                o.pos() == 0,
        {
            unimplemented!()
        }
    }

    impl Clone for Hasher {
        #[verifier::external_body]
        fn clone(&self) -> (r: Hasher)
            ensures
                r.mode() == self.mode(),
                r.absorbed() == self.absorbed(),
        {
            unimplemented!()
        }
    }

    // OutputReader: a stream identity and a position. `fill` is the contract the `xof` unit (C03) VERIFIES on the
    // real crate: the next buf.len() bytes of the stream, position advanced by buf.len(), same stream; the
    // position may not pass u64::MAX.
    #[verifier::external_body]
    pub struct OutputReader {
        _p: u8,
    }

    impl OutputReader {
        pub uninterp spec fn id(&self) -> int;

        pub uninterp spec fn pos(&self) -> int;

        // std::io::Read::take (ASSUMED): a reader over the next `limit` bytes of the same stream
        #[verifier::external_body]
        pub fn take(self, limit: u64) -> (t: crate::VfTake)
            ensures
                t.id() == self.id(),
                t.pos() == self.pos(),
                t.limit() == limit,
        {
            unimplemented!()
        }

        #[verifier::external_body]
        pub fn set_position(&mut self, position: u64)
            ensures
                final(self).id() == old(self).id(),
                final(self).pos() == position,
        {
            unimplemented!()
        }

        #[verifier::external_body]
        pub fn fill(&mut self, buf: &mut [u8])
            requires
                old(self).pos() + old(buf)@.len() <= u64::MAX,
            ensures
                final(self).id() == old(self).id(),
                final(self).pos() == old(self).pos() + old(buf)@.len(),
                final(buf)@ == crate::sp_xof_bytes(old(self).id(), old(self).pos(), old(buf)@.len() as int),
        {
            unimplemented!()
        }
    }

    // blake3::Hash is a wrapper of its 32 bytes; `From<[u8; OUT_LEN]>` stores them (src/lib.rs, C14)
    pub struct Hash(pub [u8; 32]);

    impl vstd::std_specs::convert::FromSpecImpl<[u8; 32]> for Hash {
        open spec fn obeys_from_spec() -> bool {
            true
        }

        open spec fn from_spec(v: [u8; 32]) -> Hash {
            Hash(v)
        }
    }

    impl From<[u8; 32]> for Hash {
        fn from(bytes: [u8; 32]) -> (r: Hash) {
            Hash(bytes)
        }
    }

    // `Hash == Hash` (src/lib.rs `impl PartialEq for Hash`: constant_time_eq_32 of the bytes): equal iff the 32 bytes
    // are equal -- the contract the hashconv unit VERIFIES on the real crate (C14). The overlay resolves
    // `expected_hash == found_hash` to this method (@subst: Verus has no PartialEq dispatch for model types).
    impl Hash {
        #[verifier::external_body]
        pub fn vf_eq(&self, other: &Hash) -> (r: bool)
            ensures
                r == (self.0@ == other.0@),
        {
            unimplemented!()
        }
    }
}

// ---- R21b: standard error is not modelled -------------------------------------------------------------
// `eprintln!("..", a, b)` -> `vf_stderr_note(&(a)); vf_stderr_note(&(b))`: the arguments are evaluated, the text is
// dropped. ASSUMED: writing to stderr does not touch stdout, the file system or the program state.
#[verifier::external_body]
pub fn vf_stderr_note<T: ?Sized>(x: &T) {
    unimplemented!()
}

// Display of an anyhow::Error (`{}`: the outermost message): an uninterpreted text
pub uninterp spec fn sp_err_text(e: VfErr) -> Seq<char>;

impl VfDisplay for VfErr {
    open spec fn vf_disp(&self) -> Seq<char> {
        sp_err_text(*self)
    }
}

// `"lit".to_string() + &s` (String: Add<&str>): concatenation
#[verifier::external_body]
pub fn vf_string_concat(a: &str, b: &str) -> (r: String)
    ensures
        r@ == a@ + b@,
{
    unimplemented!()
}

// `&PathBuf -> &Path` (Deref): the same path; for a PathBuf built from a String its lossy rendering is that String
// (a Rust String is valid Unicode, so to_string_lossy replaces nothing)
pub assume_specification[ <std::path::PathBuf as core::ops::Deref>::deref ](p: &std::path::PathBuf) -> (r: &std::path::Path)
    ensures
        sp_path_lossy(r) == sp_pathbuf_str(*p),
;

// ---- the file system and the hashing of one input, as seen by --check (C12) -----------------------------
// sp_fs_stream(mode, path): what hashing the file named `path` gives during THIS run of b3sum: Some(id) = the output
// stream `id` of the finalized hasher (sp_xof_byte(id, _)), None = the file cannot be opened / read. ASSUMED: the
// file system and the options (--keyed / --derive-key / --no-mmap: fixed in Args) do not change during the run, so
// this is a function; that the stream IS the BLAKE3 output of the file's bytes is C01/C02/C11 on the blake3 crate.
pub uninterp spec fn sp_fs_stream(path: Seq<char>) -> Option<int>;

// an operation of the environment failed that the model does not describe: the command line could not be parsed, the
// key could not be read, the thread pool could not be built, a read error in the middle of a checkfile
pub uninterp spec fn sp_env_failed() -> bool;

// ---- a checkfile as a source of lines (C12) ---------------------------------------------------------------
// check_one_checkfile's reader selection (`-` = stdin, else File::open(path)?; a BufReader over `&mut dyn Read`) is
// outside Verus (unsizing to `&mut dyn Read`); the overlay replaces exactly that prologue by vf_open_checkfile(path)?
// (stated in the evidence); the LOOP of the function is the real code. ASSUMED: BufRead::read_line appends the next
// line including its terminator and returns its byte length (> 0), or returns Ok(0) at end of input and appends
// nothing, or fails; the checkfile's text does not change during the run (sp_checkfile_lines).
pub uninterp spec fn sp_checkfile_lines(path: Seq<char>) -> Option<Seq<Seq<char>>>;

#[verifier::external_body]
pub struct VfLineReader {
    _p: u8,
}

impl VfLineReader {
    pub uninterp spec fn rest(&self) -> Seq<Seq<char>>;

    #[verifier::external_body]
    pub fn read_line(&mut self, buf: &mut String) -> (r: VfResult<usize>)
        ensures
            match r {
                Ok(n) => if old(self).rest().len() == 0 {
                    n == 0 && final(self).rest() == old(self).rest() && final(buf)@ == old(buf)@
                } else {
                    n > 0 && final(self).rest() == old(self).rest().skip(1) && final(buf)@ == old(buf)@ + old(
                        self,
                    ).rest()[0]
                },
                Err(_) => final(self).rest().len() <= old(self).rest().len() && sp_env_failed(),
            },
    {
        unimplemented!()
    }
}

#[verifier::external_body]
pub fn vf_open_checkfile(path: &std::path::Path) -> (r: VfResult<VfLineReader>)
    ensures
        match r {
            Ok(b) => sp_checkfile_lines(sp_path_lossy(path)) == Some(b.rest()),
            Err(_) => sp_checkfile_lines(sp_path_lossy(path)) is None,
        },
{
    unimplemented!()
}

// ---- main() (C12): the thread pool and the process's exit status ---------------------------------------------
// rayon_core's pool: `install(f)` runs `f` on the pool and returns its result (ASSUMED; the overlay resolves
// `thread_pool.install(|| BODY)` to `(BODY)`, so a `?` inside BODY leaves main with the same Err the closure would
// have returned through install).
pub mod rayon_core {
    use vstd::prelude::*;
    use crate::*;

    #[verifier::external_body]
    pub struct ThreadPoolBuilder {
        _p: u8,
    }

    #[verifier::external_body]
    pub struct ThreadPool {
        _p: u8,
    }

    impl ThreadPoolBuilder {
        #[verifier::external_body]
        pub fn new() -> ThreadPoolBuilder {
            unimplemented!()
        }

        #[verifier::external_body]
        pub fn num_threads(self, n: usize) -> ThreadPoolBuilder {
            unimplemented!()
        }

        #[verifier::external_body]
        pub fn build(self) -> (r: VfResult<ThreadPool>)
            ensures
                r is Err ==> sp_env_failed(),
        {
            unimplemented!()
        }
    }
}

// The exit status of the process is modelled by main's result: Ok(()) = status 0, Err = a non-zero status (std: a
// `main` returning Err prints it and exits with status 1; `process::exit(c)` exits with c). The overlay resolves
// `std::process::exit(c)` to `return vf_process_exit(c)`.
#[verifier::external_body]
pub fn vf_process_exit(code: i32) -> (r: VfResult<()>)
    ensures
        r is Ok <==> code == 0,
{
    unimplemented!()
}

// ---- the inputs of hash_path (C12): stdin, files ------------------------------------------------------------
// sp_file_bytes(path) / sp_stdin_bytes(): the bytes reading the named file / standard input to EOF yields during this
// run, None if it cannot be opened or a read fails. ASSUMED: File::open, io::stdin().lock() and the mmap route see
// the same unchanging bytes.
pub uninterp spec fn sp_file_bytes(path: Seq<char>) -> Option<Seq<u8>>;

pub uninterp spec fn sp_stdin_bytes() -> Option<Seq<u8>>;

pub trait VfSource {
    spec fn src_bytes(&self) -> Option<Seq<u8>>;
}

#[verifier::external_body]
pub struct File {
    _p: u8,
}

impl File {
    pub uninterp spec fn content(&self) -> Option<Seq<u8>>;

    #[verifier::external_body]
    pub fn open(path: &std::path::Path) -> (r: VfResult<File>)
        ensures
            match r {
                Ok(f) => f.content() == sp_file_bytes(sp_path_lossy(path)),
                Err(_) => sp_file_bytes(sp_path_lossy(path)) is None,
            },
    {
        unimplemented!()
    }
}

impl VfSource for File {
    open spec fn src_bytes(&self) -> Option<Seq<u8>> {
        self.content()
    }
}

pub mod io {
    use vstd::prelude::*;
    use crate::*;

    #[verifier::external_body]
    pub struct Stdin {
        _p: u8,
    }

    #[verifier::external_body]
    pub struct StdinLock {
        _p: u8,
    }

    impl VfSource for StdinLock {
        open spec fn src_bytes(&self) -> Option<Seq<u8>> {
            sp_stdin_bytes()
        }
    }

    #[verifier::external_body]
    pub fn stdin() -> Stdin {
        unimplemented!()
    }

    impl Stdin {
        #[verifier::external_body]
        pub fn lock(&self) -> StdinLock {
            unimplemented!()
        }
    }
}

// `path == Path::new("-")`
#[verifier::external_body]
pub fn vf_path_is_dash(path: &std::path::Path) -> (r: bool)
    ensures
        r == (sp_path_lossy(path) == "-"@),
{
    unimplemented!()
}

// ---- Args::parse (C12): the pieces of std it uses ------------------------------------------------------------
// `vec!["-".into()]`: one PathBuf built from the string "-"
pub uninterp spec fn sp_dash_pathbuf() -> std::path::PathBuf;

#[verifier::external_body]
pub fn vf_dash_paths() -> (r: Vec<std::path::PathBuf>)
    ensures
        r@ == seq![sp_dash_pathbuf()],
        sp_pathbuf_str(sp_dash_pathbuf()) == "-"@,
{
    unimplemented!()
}

// `Vec<PathBuf>::clone`
#[verifier::external_body]
pub fn vf_clone_paths(v: &Vec<std::path::PathBuf>) -> (r: Vec<std::path::PathBuf>)
    ensures
        r@ == v@,
{
    unimplemented!()
}

// everything standard input holds when --keyed reads the key from it
pub uninterp spec fn sp_stdin_all() -> Seq<u8>;

// the key --keyed reads from stdin (meaningful when stdin holds exactly 32 bytes)
pub open spec fn sp_stdin_key() -> Seq<u8> {
    sp_stdin_all()
}

// `std::io::stdin().lock().take(limit).read_to_end(&mut buf)?` (ASSUMED: std's Take / read_to_end): appends the first
// min(limit, |stdin|) bytes of standard input to buf and returns their number, or fails (=> sp_env_failed())
#[verifier::external_body]
pub fn vf_stdin_take_read_to_end(buf: &mut Vec<u8>, limit: u64) -> (r: VfResult<usize>)
    ensures
        match r {
            Ok(n) => n == (if sp_stdin_all().len() < limit { sp_stdin_all().len() } else { limit as nat }) && final(buf)@
                == old(buf)@ + sp_stdin_all().take(n as int),
            Err(_) => sp_env_failed(),
        },
{
    unimplemented!()
}

// `slice.try_into().unwrap()` for `[u8; 32]`: panics unless the slice has 32 items (the precondition)
#[verifier::external_body]
pub fn vf_key_from_slice(s: &[u8]) -> (r: [u8; 32])
    requires
        s@.len() == 32,
    ensures
        r@ == s@,
{
    unimplemented!()
}

// `&v[..n]` on a Vec<u8>
#[verifier::external_body]
pub fn vf_vec_prefix(v: &Vec<u8>, n: usize) -> (r: &[u8])
    requires
        n <= v@.len(),
    ensures
        r@ == v@.take(n as int),
{
    unimplemented!()
}

// ---- --raw (C12): `output.take(len)` copied to the locked stdout -----------------------------------------------
#[verifier::external_body]
pub struct VfTake {
    _p: u8,
}

impl VfTake {
    pub uninterp spec fn id(&self) -> int;

    pub uninterp spec fn pos(&self) -> int;

    pub uninterp spec fn limit(&self) -> int;
}

#[verifier::external_body]
pub struct VfStdoutHandle {
    _p: u8,
}

#[verifier::external_body]
pub struct VfStdoutLock {
    _p: u8,
}

#[verifier::external_body]
pub fn vf_stdout_handle() -> VfStdoutHandle {
    unimplemented!()
}

impl VfStdoutHandle {
    #[verifier::external_body]
    pub fn lock(&self) -> VfStdoutLock {
        unimplemented!()
    }
}

// `std::io::copy(&mut take, &mut stdout_lock)?` (ASSUMED: io::copy reads the reader to its end - here the `limit` bytes
// of the stream from `pos` on, C03 - and writes exactly those bytes): the raw stdout log grows by them
#[verifier::external_body]
pub fn vf_copy_take_to_stdout(out: &mut VfStdout, r: &mut VfTake, w: &mut VfStdoutLock) -> (res: VfResult<u64>)
    ensures
        final(out)@ == old(out)@,
        match res {
            Ok(n) => n == old(r).limit() && final(out).raw@ == old(out).raw@ + sp_xof_bytes(
                old(r).id(),
                old(r).pos(),
                old(r).limit(),
            ),
            Err(_) => sp_env_failed(),
        },
{
    unimplemented!()
}
