// ---------------------------------------------------------------------------------------------
// PRELUDE (trusted): the SIMD kernels (rule R16). Their bodies are hand-written assembly, C
// intrinsics or Rust intrinsics, none of which a contract verifier on this image can read; each
// is ASSUMED to meet the contract of the portable kernel (this is exactly property C05). The
// `unsafe` calls in src/platform.rs resolve to these declarations.
// ---------------------------------------------------------------------------------------------
pub mod sse2 {
    use vstd::prelude::*;
    use crate::*;

    #[verifier::external_body]
    pub fn compress_in_place(cv: &mut CVWords, block: &[u8; BLOCK_LEN], block_len: u8, counter: u64, flags: u8)
        ensures
            final(cv)@ == sp_cv_of(sp_compress_block(old(cv)@, block@, counter, block_len, flags)),
    {
        unimplemented!()
    }

    #[verifier::external_body]
    pub fn compress_xof(cv: &CVWords, block: &[u8; BLOCK_LEN], block_len: u8, counter: u64, flags: u8) -> (r: [u8; 64])
        ensures
            r@ == sp_bytes(sp_compress_block(cv@, block@, counter, block_len, flags)),
    {
        unimplemented!()
    }

    #[verifier::external_body]
    pub fn hash_many<const N: usize>(
        inputs: &[&[u8; N]], key: &CVWords, counter: u64, increment_counter: IncrementCounter,
        flags: u8, flags_start: u8, flags_end: u8, out: &mut [u8],
    )
        requires
            sp_hash_many_pre(inputs@, counter, increment_counter.yes_spec(), old(out)@),
        ensures
            sp_hash_many_post(inputs@, key@, counter, increment_counter.yes_spec(), flags, flags_start, flags_end,
                old(out)@, final(out)@),
    {
        unimplemented!()
    }
}

pub mod sse41 {
    use vstd::prelude::*;
    use crate::*;

    #[verifier::external_body]
    pub fn compress_in_place(cv: &mut CVWords, block: &[u8; BLOCK_LEN], block_len: u8, counter: u64, flags: u8)
        ensures
            final(cv)@ == sp_cv_of(sp_compress_block(old(cv)@, block@, counter, block_len, flags)),
    {
        unimplemented!()
    }

    #[verifier::external_body]
    pub fn compress_xof(cv: &CVWords, block: &[u8; BLOCK_LEN], block_len: u8, counter: u64, flags: u8) -> (r: [u8; 64])
        ensures
            r@ == sp_bytes(sp_compress_block(cv@, block@, counter, block_len, flags)),
    {
        unimplemented!()
    }

    #[verifier::external_body]
    pub fn hash_many<const N: usize>(
        inputs: &[&[u8; N]], key: &CVWords, counter: u64, increment_counter: IncrementCounter,
        flags: u8, flags_start: u8, flags_end: u8, out: &mut [u8],
    )
        requires
            sp_hash_many_pre(inputs@, counter, increment_counter.yes_spec(), old(out)@),
        ensures
            sp_hash_many_post(inputs@, key@, counter, increment_counter.yes_spec(), flags, flags_start, flags_end,
                old(out)@, final(out)@),
    {
        unimplemented!()
    }
}

pub mod avx2 {
    use vstd::prelude::*;
    use crate::*;

    #[verifier::external_body]
    pub fn hash_many<const N: usize>(
        inputs: &[&[u8; N]], key: &CVWords, counter: u64, increment_counter: IncrementCounter,
        flags: u8, flags_start: u8, flags_end: u8, out: &mut [u8],
    )
        requires
            sp_hash_many_pre(inputs@, counter, increment_counter.yes_spec(), old(out)@),
        ensures
            sp_hash_many_post(inputs@, key@, counter, increment_counter.yes_spec(), flags, flags_start, flags_end,
                old(out)@, final(out)@),
    {
        unimplemented!()
    }
}

pub mod avx512 {
    use vstd::prelude::*;
    use crate::*;

    #[verifier::external_body]
    pub fn compress_in_place(cv: &mut CVWords, block: &[u8; BLOCK_LEN], block_len: u8, counter: u64, flags: u8)
        ensures
            final(cv)@ == sp_cv_of(sp_compress_block(old(cv)@, block@, counter, block_len, flags)),
    {
        unimplemented!()
    }

    #[verifier::external_body]
    pub fn compress_xof(cv: &CVWords, block: &[u8; BLOCK_LEN], block_len: u8, counter: u64, flags: u8) -> (r: [u8; 64])
        ensures
            r@ == sp_bytes(sp_compress_block(cv@, block@, counter, block_len, flags)),
    {
        unimplemented!()
    }

    #[verifier::external_body]
    pub fn hash_many<const N: usize>(
        inputs: &[&[u8; N]], key: &CVWords, counter: u64, increment_counter: IncrementCounter,
        flags: u8, flags_start: u8, flags_end: u8, out: &mut [u8],
    )
        requires
            sp_hash_many_pre(inputs@, counter, increment_counter.yes_spec(), old(out)@),
        ensures
            sp_hash_many_post(inputs@, key@, counter, increment_counter.yes_spec(), flags, flags_start, flags_end,
                old(out)@, final(out)@),
    {
        unimplemented!()
    }

    #[verifier::external_body]
    pub fn xof_many(cv: &CVWords, block: &[u8; BLOCK_LEN], block_len: u8, counter: u64, flags: u8, out: &mut [u8])
        requires
            old(out)@.len() % 64 == 0,
            counter + old(out)@.len() / 64 <= u64::MAX,
        ensures
            sp_xof_many_post(cv@, block@, block_len, counter, flags, old(out)@, final(out)@),
    {
        unimplemented!()
    }
}

pub mod neon {
    use vstd::prelude::*;
    use crate::*;

    #[verifier::external_body]
    pub fn hash_many<const N: usize>(
        inputs: &[&[u8; N]], key: &CVWords, counter: u64, increment_counter: IncrementCounter,
        flags: u8, flags_start: u8, flags_end: u8, out: &mut [u8],
    )
        requires
            sp_hash_many_pre(inputs@, counter, increment_counter.yes_spec(), old(out)@),
        ensures
            sp_hash_many_post(inputs@, key@, counter, increment_counter.yes_spec(), flags, flags_start, flags_end,
                old(out)@, final(out)@),
    {
        unimplemented!()
    }
}

