// ---------------------------------------------------------------------------------------------
// PRELUDE for the unit `refimpl` (trusted): slice -> array conversion used by reference_impl.rs.
// `S.try_into().unwrap()` with S a slice and an array `[T; N]` expected is emitted as
// `S.vf_to_array()` (overlay @gsubst); the unwrap's panic condition (length != N) is a precondition,
// i.e. an obligation at every call site.
// ---------------------------------------------------------------------------------------------
pub trait VfToArray<T> {
    spec fn vf_seq(&self) -> Seq<T>;

    fn vf_to_array<const N: usize>(&self) -> (r: [T; N])
        requires
            self.vf_seq().len() == N,
        ensures
            r@ == self.vf_seq(),
    ;
}

impl<T: Copy> VfToArray<T> for [T] {
    open spec fn vf_seq(&self) -> Seq<T> {
        self@
    }

    #[verifier::external_body]
    fn vf_to_array<const N: usize>(&self) -> (r: [T; N]) {
        self.try_into().unwrap()
    }
}
