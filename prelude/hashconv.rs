// ---------------------------------------------------------------------------------------------
// PRELUDE (trusted) for the `hashconv` unit (C14): models of the dependencies / std items that
// the Hash conversion functions call. Everything here is an ASSUMPTION (listed in the evidence).
//   arrayvec::ArrayString<CAP>       view Seq<char>; CAP counts BYTES, so push REQUIRES that the
//                                    UTF-8 length still fits (the real one panics otherwise)
//   constant_time_eq::{constant_time_eq, constant_time_eq_32}   == byte-wise equality
//   <[T; N] as TryFrom<&[T]>>::try_from                           Ok <=> len == N, then same elements
//   fmt::Formatter::write_str          appends the string to the formatter's text (on Ok)
//   fmt::Formatter::debug_tuple / DebugTuple::{field, finish}   ghost log of the values passed
// ---------------------------------------------------------------------------------------------

// ---- arrayvec::ArrayString ---------------------------------------------------------------------
pub open spec fn sp_char_utf8_len(c: char) -> nat {
    if (c as u32) < 0x80 {
        1
    } else if (c as u32) < 0x800 {
        2
    } else if (c as u32) < 0x10000 {
        3
    } else {
        4
    }
}

#[verifier::external_body]
pub struct ArrayString<const CAP: usize> {
    inner: String,
}

impl<const CAP: usize> View for ArrayString<CAP> {
    type V = Seq<char>;

    uninterp spec fn view(&self) -> Seq<char>;
}

impl<const CAP: usize> ArrayString<CAP> {
    // number of bytes in use (UTF-8 length of the contents)
    pub uninterp spec fn byte_len(&self) -> nat;

    #[verifier::external_body]
    pub fn new() -> (r: Self)
        ensures
            r@ == Seq::<char>::empty(),
            r.byte_len() == 0,
    {
        ArrayString { inner: String::new() }
    }

    #[verifier::external_body]
    pub fn push(&mut self, c: char)
        requires
            old(self).byte_len() + sp_char_utf8_len(c) <= CAP,
        ensures
            final(self)@ == old(self)@.push(c),
            final(self).byte_len() == old(self).byte_len() + sp_char_utf8_len(c),
    {
        self.inner.push(c)
    }

    #[verifier::external_body]
    pub fn as_str(&self) -> (r: &str)
        ensures
            r@ == self@,
    {
        self.inner.as_str()
    }
}

// ---- constant_time_eq --------------------------------------------------------------------------
// Functional contract only: "true iff the byte sequences are equal". The constant-TIME aspect is
// not a functional property and is out of scope.
pub mod constant_time_eq {
    use vstd::prelude::*;

    #[verifier::external_body]
    pub fn constant_time_eq(a: &[u8], b: &[u8]) -> (r: bool)
        ensures
            r == (a@ == b@),
    {
        a == b
    }

    #[verifier::external_body]
    pub fn constant_time_eq_32(a: &[u8; 32], b: &[u8; 32]) -> (r: bool)
        ensures
            r == (a@ == b@),
    {
        a == b
    }
}

// ---- slice -> array ----------------------------------------------------------------------------
#[verifier::external_type_specification]
#[verifier::external_body]
pub struct ExTryFromSliceError(core::array::TryFromSliceError);

// `bytes.try_into()` resolves (vstd: TryInto blanket impl) to this std impl
pub assume_specification<'a, T: Copy, const N: usize>[ <[T; N] as TryFrom<&'a [T]>>::try_from ](s: &[T]) -> (r: Result<
    [T; N],
    core::array::TryFromSliceError,
>)
    ensures
        r is Ok <==> s@.len() == N,
        r is Ok ==> r->Ok_0@ == s@,
;

// ---- fmt::Formatter (text) ---------------------------------------------------------------------
// the characters written to the formatter's sink so far
pub uninterp spec fn fmt_text(f: &core::fmt::Formatter) -> Seq<char>;

pub assume_specification<'a>[ core::fmt::Formatter::<'a>::write_str ](
    f: &mut core::fmt::Formatter<'a>,
    s: &str,
) -> (r: core::fmt::Result)
    ensures
        r is Ok ==> fmt_text(final(f)) == fmt_text(old(f)) + s@,
;

// ---- fmt::Formatter::debug_tuple / fmt::DebugTuple (ghost log) -----------------------------------
// `dbg_val(v)` is the (type-erased) value handed to the formatting machinery; what is finally
// printed for it is a function of that value and of the formatter's flags only.
// The builder borrows the formatter until it is dropped, so debug_tuple's contract speaks about the
// formatter's FINAL state through a prophecy (`dt_proph`) that `finish` resolves to the log;
// `field` after `finish` is excluded by a precondition.
#[verifier::external_type_specification]
#[verifier::external_body]
pub struct ExDebugTuple<'a, 'b: 'a>(core::fmt::DebugTuple<'a, 'b>);

pub uninterp spec fn dbg_val(v: &dyn core::fmt::Debug) -> Seq<char>;

pub uninterp spec fn dt_log(d: &core::fmt::DebugTuple) -> Seq<Seq<char>>;

pub uninterp spec fn dt_proph(d: &core::fmt::DebugTuple) -> Seq<Seq<char>>;

pub uninterp spec fn dt_finished(d: &core::fmt::DebugTuple) -> bool;

// the tuple-struct renderings written to the formatter so far: (type name, values in order)
pub uninterp spec fn fmt_tuples(f: &core::fmt::Formatter) -> Seq<(Seq<char>, Seq<Seq<char>>)>;

pub assume_specification<'a, 'b>[ core::fmt::Formatter::<'a>::debug_tuple ](
    f: &'b mut core::fmt::Formatter<'a>,
    name: &str,
) -> (r: core::fmt::DebugTuple<'b, 'a>)
    ensures
        dt_log(&r) == Seq::<Seq<char>>::empty(),
        !dt_finished(&r),
        fmt_tuples(final(f)) == fmt_tuples(old(f)).push((name@, dt_proph(&r))),
;

pub assume_specification<'a, 'b: 'a, 'c>[ core::fmt::DebugTuple::<'a, 'b>::field ](
    d: &'c mut core::fmt::DebugTuple<'a, 'b>,
    value: &dyn core::fmt::Debug,
) -> (r: &'c mut core::fmt::DebugTuple<'a, 'b>)
    requires
        !dt_finished(old(d)),
    ensures
        dt_log(r) == dt_log(old(d)).push(dbg_val(value)),
        dt_proph(r) == dt_proph(old(d)),
        !dt_finished(r),
        *final(d) == *final(r),
;

pub assume_specification<'a, 'b: 'a>[ core::fmt::DebugTuple::<'a, 'b>::finish ](
    d: &mut core::fmt::DebugTuple<'a, 'b>,
) -> (r: core::fmt::Result)
    requires
        !dt_finished(old(d)),
    ensures
        dt_finished(final(d)),
        dt_proph(old(d)) == dt_log(old(d)),
        dt_log(final(d)) == dt_log(old(d)),
        dt_proph(final(d)) == dt_proph(old(d)),
;
