#!/usr/bin/env python3
"""Prints the markdown table 'which checks catch which seeded changes' from seeded/*/meta.json."""
import glob, json, os
V = os.path.dirname(os.path.dirname(os.path.abspath(__file__)))
rows = []
for f in sorted(glob.glob(os.path.join(V, "seeded", "*", "meta.json"))):
    m = json.load(open(f))
    ev = m.get("evaluation", {})
    sid = ev.get("seed", os.path.basename(os.path.dirname(f)))
    verdicts = []
    for p, c in ev.get("checks", {}).items():
        v = {0: "exit 0 (missed)", 1: "VIOLATION", 2: "exit 2 (undecided)"}.get(c["rc"], "rc %s" % c["rc"])
        fo = [l for l in c["lines"] if "failed obligation" in l]
        how = ""
        if fo:
            how = fo[0].split("failed obligation:")[1].strip()[:90]
        if c["rc"] == 1 and any("no-failing-input-found" in l for l in c["lines"]) and not any(l.startswith("VIOLATION") and "no-failing" not in l for l in c["lines"]):
            v += " (no-failing-input-found)"
        verdicts.append("%s: %s%s" % (p, v, (" — " + how) if how else ""))
    rows.append((sid, m.get("summary", "")[:150].replace("|", "/"), m.get("needs", "")[:110].replace("|", "/"),
                 "yes" if ev.get("confirmed") else "NO", "<br>".join(verdicts)))
print("| seed | change | needs | confirmed | checks |")
print("|---|---|---|---|---|")
for r in rows:
    print("| %s | %s | %s | %s | %s |" % r)
