#!/usr/bin/env python3
"""Regenerates MANIFEST.json from lib/props.py (single source of truth for what is claimed)."""
import json, os, sys
HERE = os.path.dirname(os.path.dirname(os.path.abspath(__file__)))
sys.path.insert(0, os.path.join(HERE, "lib"))
import props

CAT = {"proof": "proof", "bounded": "model_checking", "other": "other"}
checks = []
for pid in sorted(props.PROPS):
    P = props.PROPS[pid]
    checks.append({
        "property_id": pid,
        "quick_cmd": "./check %s --tier quick" % pid,
        "thorough_cmd": "./check %s --tier thorough" % pid,
        "evidence_file": "/verif/evidence/%s.json" % pid,
        "replay_cmd_template": "./check %s --replay {path}" % pid,
        "engine": P.get("engine", "verus"),
        "level_claimed": {"category": P["level"], "text": P["level_text"], "design_ref": "DESIGN.md section " + P["design_ref"]},
        "level_note": P["level_note"] + (
            "; the THOROUGH tier additionally runs a BOUNDED differential exploration of the real code (unit search:%s, "
            "lib/search_backend.py: directed-search families against the independent oracles) - labelled bounded, "
            "never counted in the obligation totals; it covers what the contracts assume rather than prove" % pid
            if any(u[0] == "search" for u in P["units"].get("thorough", [])) else ""),
        "technique": P["technique"],
    })
na = [{"property_id": k, "reason": v} for k, v in sorted(props.NOT_APPLICABLE.items()) if k not in props.PROPS]
m = {
    "version": 1,
    "setup_cmd": "./setup.sh",
    "hooks": {
        "guard": "blake3_team_blake3_verif",
        "enable": "none needed: the checks extract /repo's sources mechanically (Verus), include the C files verbatim (CBMC) or append harness modules to a scratch copy (Kani); no hook is compiled into /repo",
        "baseline_off_cmd": "cd /repo && cargo test --workspace --no-fail-fast --offline",
        "source_commits": [],
        "add_only": True,
    },
    "engines": [
        {"name": "verus", "path": "/verif/lib/verus_backend.py", "serves_properties": sorted(p for p in props.PROPS if any(u[0] == "verus" for t in props.PROPS[p]["units"].values() for u in t)),
         "kind_free_text": "Verus 0.2026.09.13 on functions extracted mechanically from /repo on every run (lib/extract.py), contracts in /verif/contracts/*.vc, spec in /verif/spec"},
        {"name": "cbmc", "path": "/verif/lib/cbmc_backend.py", "serves_properties": sorted(p for p in props.PROPS if any(u[0] == "cbmc" for t in props.PROPS[p]["units"].values() for u in t)),
         "kind_free_text": "CBMC 6.11 function contracts (goto-instrument --dfcc) on #include of the real c/*.c"},
        {"name": "kani", "path": "/verif/lib/kani_backend.py", "serves_properties": sorted(p for p in props.PROPS if any(u[0] == "kani" for t in props.PROPS[p]["units"].values() for u in t)),
         "kind_free_text": "Kani 0.68 harnesses appended to a scratch copy of /repo: complete loop-free proofs and counterexamples; bounded stand-ins labelled bounded"},
        {"name": "guard", "path": "/verif/lib/guard_backend.py", "serves_properties": sorted(p for p in props.PROPS if any(u[0] == "guard" for t in props.PROPS[p]["units"].values() for u in t)),
         "kind_free_text": "exhaustive source scans that pin what the contracts assume (kernel source fingerprints, no shared mutable statics, single publication of the C feature cache, pointer-cast discipline); DESIGN.md 12.7"},
        {"name": "search", "path": "/verif/lib/search_backend.py", "serves_properties": sorted(p for p in props.PROPS if any(u[0] == "search" for t in props.PROPS[p]["units"].values() for u in t)),
         "kind_free_text": "BOUNDED differential exploration of the real crate / C library / b3sum against independent oracles (thorough tier only; never counted as proved); the same families make failed obligations replayable"},
    ],
    "checks": checks,
    "not_applicable": na,
    "notes": "Contract-based deductive verification of the real code; see DESIGN.md. exit 2 of a check means undecided (tool limit / lost anchor), never an alarm.",
}
open(os.path.join(HERE, "MANIFEST.json"), "w").write(json.dumps(m, indent=1) + "\n")
print("MANIFEST.json: %d checks, %d not_applicable" % (len(checks), len(na)))
