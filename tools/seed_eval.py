#!/usr/bin/env python3
"""Confirm a seeded property-breaking change and run the registered checks against it.

  tools/seed_eval.py <SEED_OUT/<id> dir> <property id> [more property ids]

1. fresh scratch worktree of /repo (outside /repo and /verif), SEED_OUT copied into it;
2. pristine: the demonstration must PASS; patched: it must FAIL and the existing suite must still pass;
3. the checks of the given properties are run against the patched worktree (VERIF_REPO);
4. the change is stored under /verif/seeded/<id>/ with a meta.json that records all of this;
5. the worktree and its build output are removed.
"""
import json
import os
import shutil
import subprocess
import sys
import time

VERIF = os.path.dirname(os.path.dirname(os.path.abspath(__file__)))


def sh(cmd, cwd=None, timeout=3600, env=None):
    e = dict(os.environ)
    e["CARGO_NET_OFFLINE"] = "true"
    if env:
        e.update(env)
    p = subprocess.run(cmd, shell=True, cwd=cwd, stdout=subprocess.PIPE, stderr=subprocess.STDOUT, text=True,
                       timeout=timeout, env=e)
    return p.returncode, p.stdout


def main():
    seed = os.path.abspath(sys.argv[1])
    props = sys.argv[2:]
    sid = os.path.basename(seed.rstrip("/"))
    meta = json.load(open(os.path.join(seed, "meta.json")))
    wt = "/tmp/seedeval_" + sid
    sh("git -C /repo worktree remove --force %s" % wt)
    shutil.rmtree(wt, ignore_errors=True)
    rc, out = sh("git -C /repo worktree add -q --detach %s HEAD" % wt)
    assert rc == 0, out
    rec = {"seed": sid, "when": time.strftime("%Y-%m-%dT%H:%M:%S"), "repo_head": sh("git -C /repo rev-parse HEAD")[1].strip()}
    try:
        os.makedirs(os.path.join(wt, "SEED_OUT"), exist_ok=True)
        shutil.copytree(seed, os.path.join(wt, "SEED_OUT", sid))
        demo = meta["demo_cmd"]
        if "SEED_OUT" not in demo:
            # the demo command assumes the demo file(s) are already in place (RUN.md says where): tests/
            import glob as _g
            rs = _g.glob(os.path.join(seed, "seed_*.rs"))
            if rs:
                demo = "mkdir -p tests && cp SEED_OUT/%s/seed_*.rs tests/ && %s" % (sid, demo)
        if "tests/" in demo and "mkdir" not in demo:
            demo = "mkdir -p tests && " + demo
        prev = meta.get("evaluation") or {}
        recheck_only = os.environ.get("SEED_EVAL_RECHECK_ONLY") == "1" and prev.get("confirmed") is not None
        if recheck_only:
            # the change was confirmed by an earlier evaluation (kept): only the checks are re-run
            rc0 = (prev.get("demo_pristine") or {}).get("rc", 0)
            rec["demo_pristine"] = prev.get("demo_pristine")
            rec["reused_confirmation_from"] = prev.get("when")
        else:
            rc0, out0 = sh(demo, cwd=wt)
            rec["demo_pristine"] = {"cmd": demo, "rc": rc0, "tail": out0[-600:]}
        rc, out = sh("git apply SEED_OUT/%s/patch.diff" % sid, cwd=wt)
        rec["apply_rc"] = rc
        if rc != 0:
            rec["error"] = "patch does not apply: " + out[-400:]
        elif recheck_only:
            rec["demo_patched"] = prev.get("demo_patched")
            rec["suite_patched"] = prev.get("suite_patched")
            rec["confirmed"] = prev.get("confirmed")
            rec["checks"] = {}
            for p in props:
                t0 = time.time()
                rcc, outc = sh("./check %s" % p, cwd=VERIF, env={"VERIF_REPO": wt}, timeout=7200)
                lines = [l for l in outc.split("\n") if l.startswith("VIOLATION") or "failed obligation" in l
                         or l.startswith("UNDECIDED") or l.startswith("OK ")]
                rec["checks"][p] = {"rc": rcc, "seconds": round(time.time() - t0), "lines": lines[:12]}
        else:
            rc1, out1 = sh(demo, cwd=wt)
            rec["demo_patched"] = {"rc": rc1, "tail": out1[-900:]}
            # the demo may have added test files: the suite is run on the patched tree without them
            sh("git stash -u -q -- . ':!SEED_OUT' 2>/dev/null; git stash drop -q 2>/dev/null; true", cwd=wt)
            sh("git checkout -q -- . && git clean -fdq -e SEED_OUT -e target", cwd=wt)
            sh("git apply SEED_OUT/%s/patch.diff" % sid, cwd=wt)
            rc2, out2 = sh("cargo test --workspace --offline 2>&1 | grep -E 'test result|error' | head -8", cwd=wt)
            rec["suite_patched"] = {"rc": rc2, "tail": out2[-500:],
                                    "passes": ("44 passed; 0 failed" in out2 and "error" not in out2)}
            rec["confirmed"] = (rc0 == 0 and rc1 != 0 and rec["suite_patched"]["passes"])
            rec["checks"] = {}
            for p in props:
                t0 = time.time()
                rcc, outc = sh("./check %s" % p, cwd=VERIF, env={"VERIF_REPO": wt}, timeout=7200)
                lines = [l for l in outc.split("\n") if l.startswith("VIOLATION") or "failed obligation" in l
                         or l.startswith("UNDECIDED") or l.startswith("OK ")]
                rec["checks"][p] = {"rc": rcc, "seconds": round(time.time() - t0), "lines": lines[:12]}
        dst = os.path.join(VERIF, "seeded", sid)
        # keep the verdicts of earlier evaluations (before checks were strengthened) as history
        hist = []
        try:
            oldm = json.load(open(os.path.join(dst, "meta.json")))
            hist = oldm.get("history", [])
            oe = oldm.get("evaluation")
            if oe:
                hist.append({"when": oe.get("when"), "checks": {k: v.get("rc") for k, v in oe.get("checks", {}).items()}})
        except (OSError, ValueError):
            pass
        meta["history"] = hist
        if os.path.realpath(seed) != os.path.realpath(dst):     # re-evaluating a stored seed in place: keep its files
            shutil.rmtree(dst, ignore_errors=True)
            shutil.copytree(seed, dst)
        meta["evaluation"] = rec
        meta["what_was_run"] = ("tools/seed_eval.py: demo on pristine worktree (must pass), patch applied, demo (must fail), "
                                "`cargo test --workspace --offline` on the patched tree (must pass), then `VERIF_REPO=<patched "
                                "worktree> ./check <id>` for: " + ", ".join(props))
        json.dump(meta, open(os.path.join(dst, "meta.json"), "w"), indent=1)
        print(json.dumps(rec, indent=1))
    finally:
        sh("git -C /repo worktree remove --force %s" % wt)
        shutil.rmtree(wt, ignore_errors=True)


if __name__ == "__main__":
    main()
