#!/usr/bin/env python3
"""False-alarm measurement: apply a behaviour-preserving change (written by a fresh sub-agent that never saw
/verif) to a scratch worktree of /repo and run the registered checks against it.

  tools/harmless_eval.py <SEED_OUT/<id> dir> <property id> [more property ids]

exit 1 of a check on such a change is a FALSE ALARM (to be fixed in the contracts / verdict protocol);
exit 2 (undecided) is not an alarm but is recorded; exit 0 is the wanted result.
The change is stored under /verif/seeded/harmless/<id>/ with the verdicts in meta.json."""
import json
import os
import shutil
import subprocess
import sys
import time

VERIF = os.path.dirname(os.path.dirname(os.path.abspath(__file__)))


def sh(cmd, cwd=None, timeout=7200, env=None):
    e = dict(os.environ)
    e["CARGO_NET_OFFLINE"] = "true"
    if env:
        e.update(env)
    p = subprocess.run(cmd, shell=True, cwd=cwd, stdout=subprocess.PIPE, stderr=subprocess.STDOUT, text=True,
                       timeout=timeout, env=e)
    return p.returncode, p.stdout


def main():
    seed = os.path.abspath(sys.argv[1])
    props = sys.argv[2:]
    sid = os.path.basename(seed.rstrip("/"))
    meta = json.load(open(os.path.join(seed, "meta.json")))
    wt = "/tmp/harmless_" + sid
    sh("git -C /repo worktree remove --force %s" % wt)
    shutil.rmtree(wt, ignore_errors=True)
    rc, out = sh("git -C /repo worktree add -q --detach %s HEAD" % wt)
    assert rc == 0, out
    rec = {"seed": sid, "when": time.strftime("%Y-%m-%dT%H:%M:%S"), "repo_head": sh("git -C /repo rev-parse HEAD")[1].strip()}
    try:
        rc, out = sh("git apply %s" % os.path.join(seed, "patch.diff"), cwd=wt)
        rec["apply_rc"] = rc
        if rc != 0:
            rec["error"] = out[-400:]
        else:
            touched = sh("git diff --stat | tail -1", cwd=wt)[1].strip()
            rec["diffstat"] = touched
            if "--no-suite" not in os.environ.get("HARMLESS_OPTS", ""):
                rc2, out2 = sh("cargo test --workspace --offline 2>&1 | grep -E 'test result|error' | head -8", cwd=wt)
                rec["suite_passes"] = ("44 passed; 0 failed" in out2 and "error" not in out2)
            rec["checks"] = {}
            for p in props:
                t0 = time.time()
                rcc, outc = sh("./check %s" % p, cwd=VERIF, env={"VERIF_REPO": wt})
                lines = [l for l in outc.split("\n") if l.startswith("VIOLATION") or "failed obligation" in l
                         or l.startswith("UNDECIDED") or l.startswith("OK ") or "[undecided]" in l or "[fail]" in l]
                rec["checks"][p] = {"rc": rcc, "seconds": round(time.time() - t0), "lines": [l[:400] for l in lines[:10]]}
        dst = os.path.join(VERIF, "seeded", "harmless", sid)
        shutil.rmtree(dst, ignore_errors=True)
        os.makedirs(os.path.dirname(dst), exist_ok=True)
        shutil.copytree(seed, dst)
        meta["evaluation"] = rec
        json.dump(meta, open(os.path.join(dst, "meta.json"), "w"), indent=1)
        print(json.dumps(rec, indent=1))
    finally:
        sh("git -C /repo worktree remove --force %s" % wt)
        shutil.rmtree(wt, ignore_errors=True)


if __name__ == "__main__":
    main()
