#!/usr/bin/env python3
"""Proof stability: every Verus unit is re-verified with several z3 random seeds (same rlimit).
usage: tools/stability.py [unit ...]   (default: all units)  -- prints pass/fail per (unit, seed)."""
import os, sys, json
sys.path.insert(0, os.path.join(os.path.dirname(os.path.dirname(os.path.abspath(__file__))), "lib"))
import common, extract, units, verus_backend

names = sys.argv[1:] or sorted(units.UNITS)
bad = 0
for name in names:
    u = units.UNITS[name]
    text, linemap, asm, ov, table = extract.assemble(common.REPO, u, extract.CONFIGS["A"], {})
    d = common.scratch_dir("stab_" + name)
    try:
        path = os.path.join(d, name + ".rs")
        common.write(path, text)
        scope = u.get("verify", "all")
        extra = []
        if scope == "code":
            extra = ["--verify-root"]
            for m in asm.modules:
                if m != "crate":
                    extra += ["--verify-module", m[len("crate::"):]]
        elif scope == "spec":
            extra = ["--verify-module", "vf_spec"]
        for seed in (1, 2, 3):
            cmd, rc, out, err, secs = verus_backend.run_verus(path, None, u.get("rlimit", 30),
                                                              extra=extra + ["--smt-option", "smt.random_seed=%d" % seed])
            try:
                vr = json.loads(out[out.index("{"):])["verification-results"]
            except Exception:
                vr = {}
            ok = vr.get("errors") == 0 and vr.get("verified", 0) > 0
            bad += 0 if ok else 1
            print("%-14s seed %d  %s  verified=%s errors=%s  %.1fs" % (name, seed, "ok" if ok else "FAIL", vr.get("verified"), vr.get("errors"), secs), flush=True)
            if not ok:
                for ln in err.split("\n"):
                    if ln.startswith("{"):
                        try:
                            dg = json.loads(ln)
                            if dg.get("level") == "error" and "aborting" not in dg["message"]:
                                sp = dg.get("spans") or [{}]
                                print("      ", dg["message"][:120], "@", verus_backend._origin(sp[0].get("line_start", 0), linemap))
                        except Exception:
                            pass
    finally:
        common.rm_rf(d)
sys.exit(1 if bad else 0)
