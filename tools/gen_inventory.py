#!/usr/bin/env python3
"""Writes contracts/trait_method_inventory.json: for every Rust source file used by a Verus unit, the paths of the
methods of its trait impls (`<Type>::<Trait>__<method>`) in the PINNED tree. lib/extract.py treats a trait-impl method
that is not listed here and has no contract as an assumption lost (an override of a provided trait method, whose
default behaviour the contracts assumed). Run once on the pinned tree; never at check time."""
import json
import os
import sys

HERE = os.path.dirname(os.path.dirname(os.path.abspath(__file__)))
sys.path.insert(0, os.path.join(HERE, "lib"))
import extract  # noqa: E402
import units  # noqa: E402

inv = {}
for name, u in units.UNITS.items():
    for cfgname in ("A", "B", "C", "D"):
        cfg = extract.CONFIGS[cfgname]
        try:
            table = extract.load_sources("/repo", u["files"], cfg)
        except Exception as e:  # a file not present under this configuration
            continue
        for path, it in table.items():
            parent = getattr(it, "parent", None)
            if it.kind == "fn" and parent is not None and parent.kind == "impl" and parent.impl_trait:
                inv.setdefault(it.file, set()).add(path)
out = {k: sorted(v) for k, v in sorted(inv.items())}
json.dump(out, open(os.path.join(HERE, "contracts", "trait_method_inventory.json"), "w"), indent=1)
print({k: len(v) for k, v in out.items()})
