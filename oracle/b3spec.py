#!/usr/bin/env python3
"""b3spec.py -- an independent, executable transcription of the BLAKE3 paper (pure Python).

Written from the specification text (BLAKE3 paper, sections 2.1-2.7: compression function,
chunks, tree structure, parent nodes, extendable output, modes), NOT from reference_impl.rs or
src/.  It is used ONLY by the replay search (lib/search_impl.py) to recognise an input on which
the real crate disagrees with the specification, so that a failed proof obligation can be made
replayable.  It never decides a property.

API
    blake3(data, mode='hash'|'keyed'|'derive', key=None, context=None, out_len=32, seek=0) -> bytes
    chunk_cv(chunk_bytes, chunk_counter, key_words, flags) -> bytes(32)      non-root chunk CV
    parent_cv(l, r, key_words, flags) -> bytes(32)                           non-root parent CV
    subtree_cv(data, chunk_offset, key_words, flags) -> bytes(32)            non-root CV of the subtree
                                                                             whose first chunk has index chunk_offset
    root_output(node, out_len, seek) -> bytes                                ROOT output of a node
    mode_params(mode, key, context) -> (key_words, flags)
    left_len(n_bytes) -> int                                                 bytes in the left subtree

`python3 b3spec.py --selftest` checks all official test vectors (35 lengths x 3 modes x 131 bytes)
plus seek/out_len slicing consistency.
"""
import json
import os
import struct
import sys

M32 = 0xFFFFFFFF

# --- section 2.2: constants ------------------------------------------------------------------
IV = (0x6A09E667, 0xBB67AE85, 0x3C6EF372, 0xA54FF53A, 0x510E527F, 0x9B05688C, 0x1F83D9AB, 0x5BE0CD19)

# Table 2 of the paper: the message word permutation applied between rounds
SIGMA = (2, 6, 3, 10, 7, 0, 4, 13, 1, 11, 12, 5, 9, 14, 15, 8)

# Table 3 of the paper: domain separation flags
CHUNK_START = 1
CHUNK_END = 2
PARENT = 4
ROOT = 8
KEYED_HASH = 16
DERIVE_KEY_CONTEXT = 32
DERIVE_KEY_MATERIAL = 64

BLOCK_LEN = 64
CHUNK_LEN = 1024


def _rotr(x, n):
    return ((x >> n) | (x << (32 - n))) & M32


def _g(v, a, b, c, d, mx, my):
    # the quarter round of section 2.2
    va = (v[a] + v[b] + mx) & M32
    vd = _rotr(v[d] ^ va, 16)
    vc = (v[c] + vd) & M32
    vb = _rotr(v[b] ^ vc, 12)
    va = (va + vb + my) & M32
    vd = _rotr(vd ^ va, 8)
    vc = (vc + vd) & M32
    vb = _rotr(vb ^ vc, 7)
    v[a], v[b], v[c], v[d] = va, vb, vc, vd


def compress(h, m, t, b, d):
    """Compression function: chaining value h (8 words), message block m (16 words),
    64-bit counter t, block length b, flags d  ->  the full 16-word output state."""
    v = [h[0], h[1], h[2], h[3], h[4], h[5], h[6], h[7],
         IV[0], IV[1], IV[2], IV[3], t & M32, (t >> 32) & M32, b, d]
    m = list(m)
    for r in range(7):
        # columns
        _g(v, 0, 4, 8, 12, m[0], m[1])
        _g(v, 1, 5, 9, 13, m[2], m[3])
        _g(v, 2, 6, 10, 14, m[4], m[5])
        _g(v, 3, 7, 11, 15, m[6], m[7])
        # diagonals
        _g(v, 0, 5, 10, 15, m[8], m[9])
        _g(v, 1, 6, 11, 12, m[10], m[11])
        _g(v, 2, 7, 8, 13, m[12], m[13])
        _g(v, 3, 4, 9, 14, m[14], m[15])
        if r < 6:
            m = [m[SIGMA[i]] for i in range(16)]
    out = [0] * 16
    for i in range(8):
        out[i] = v[i] ^ v[i + 8]
        out[i + 8] = v[i + 8] ^ h[i]
    return out


def _words(block64):
    return struct.unpack("<16I", block64)


def _pad(block):
    return block + b"\x00" * (BLOCK_LEN - len(block))


def _cv_bytes(words8):
    return struct.pack("<8I", *words8)


def _cv_words(b32):
    return struct.unpack("<8I", b32)


# --- a "node" is everything needed for the last compression of a chunk or parent:
#     (input chaining value words, block words, counter, block_len, flags-without-ROOT)
def chunk_node(chunk, chunk_counter, key_words, flags):
    """Section 2.4: split the chunk into blocks of 64 bytes (the last one possibly short and
    zero padded; the empty chunk has one empty block), chain the compressions with t = chunk
    index, first block CHUNK_START, last block CHUNK_END.  Returns the node of the LAST block."""
    assert len(chunk) <= CHUNK_LEN
    nblocks = max(1, (len(chunk) + BLOCK_LEN - 1) // BLOCK_LEN)
    h = tuple(key_words)
    for i in range(nblocks):
        blk = chunk[i * BLOCK_LEN:(i + 1) * BLOCK_LEN]
        f = flags
        if i == 0:
            f |= CHUNK_START
        if i == nblocks - 1:
            f |= CHUNK_END
            return (h, _words(_pad(blk)), chunk_counter, len(blk), f)
        h = tuple(compress(h, _words(blk), chunk_counter, BLOCK_LEN, f)[:8])
    raise AssertionError


def parent_node(left_cv, right_cv, key_words, flags):
    """Section 2.5: parent nodes compress left||right with the key as chaining value, t = 0,
    b = 64, flag PARENT."""
    return (tuple(key_words), _words(left_cv + right_cv), 0, BLOCK_LEN, flags | PARENT)


def node_cv(node):
    h, m, t, b, f = node
    return _cv_bytes(compress(h, m, t, b, f)[:8])


def root_output(node, out_len=32, seek=0):
    """Section 2.6: the root node is compressed with ROOT set and t = output block counter
    0, 1, 2, ...; each compression yields 64 bytes (all 16 output words)."""
    h, m, _t, b, f = node
    out = bytearray()
    blk = seek // 64
    skip = seek % 64
    need = out_len + skip
    while len(out) < need:
        out += struct.pack("<16I", *compress(h, m, blk & 0xFFFFFFFFFFFFFFFF, b, f | ROOT))
        blk += 1
    return bytes(out[skip:skip + out_len])


# --- cache of full-chunk chaining values (the searches hash many prefixes of the same streams)
_CHUNK_CV_CACHE = {}


def chunk_cv(chunk, chunk_counter, key_words, flags):
    key = None
    if len(chunk) == CHUNK_LEN:
        key = (bytes(chunk), chunk_counter, tuple(key_words), flags)
        r = _CHUNK_CV_CACHE.get(key)
        if r is not None:
            return r
    r = node_cv(chunk_node(chunk, chunk_counter, key_words, flags))
    if key is not None:
        if len(_CHUNK_CV_CACHE) > 200000:
            _CHUNK_CV_CACHE.clear()
        _CHUNK_CV_CACHE[key] = r
    return r


def parent_cv(left_cv, right_cv, key_words, flags):
    return node_cv(parent_node(left_cv, right_cv, key_words, flags))


def left_len(n):
    """Section 2.1: when a (sub)tree has more than one chunk, its left subtree holds the largest
    power of two of chunks that is strictly less than the total; n is a length in bytes (> 1024)."""
    assert n > CHUNK_LEN
    chunks = (n + CHUNK_LEN - 1) // CHUNK_LEN
    p = 1
    while p * 2 < chunks:
        p *= 2
    return p * CHUNK_LEN


def _subtree_node(data, chunk_offset, key_words, flags):
    if len(data) <= CHUNK_LEN:
        return chunk_node(data, chunk_offset, key_words, flags)
    ll = left_len(len(data))
    l = subtree_cv(data[:ll], chunk_offset, key_words, flags)
    r = subtree_cv(data[ll:], chunk_offset + ll // CHUNK_LEN, key_words, flags)
    return parent_node(l, r, key_words, flags)


def subtree_cv(data, chunk_offset, key_words, flags):
    """Non-root chaining value of the subtree over `data` whose first chunk has index chunk_offset."""
    if len(data) <= CHUNK_LEN:
        return chunk_cv(data, chunk_offset, key_words, flags)
    return node_cv(_subtree_node(data, chunk_offset, key_words, flags))


def root_node(data, key_words, flags):
    return _subtree_node(data, 0, key_words, flags)


def context_key(context):
    """Section 2.3/derive_key: first pass hashes the context string with DERIVE_KEY_CONTEXT and
    the IV as key; its first 32 output bytes are the key of the second pass."""
    if isinstance(context, str):
        context = context.encode("utf-8")
    return root_output(root_node(context, IV, DERIVE_KEY_CONTEXT), 32, 0)


def mode_params(mode="hash", key=None, context=None):
    if mode == "hash":
        return IV, 0
    if mode == "keyed":
        assert key is not None and len(key) == 32
        return _cv_words(bytes(key)), KEYED_HASH
    if mode == "derive":
        assert context is not None
        return _cv_words(context_key(context)), DERIVE_KEY_MATERIAL
    if mode == "derive_from_context_key":          # hazmat: key = an already hashed context
        assert key is not None and len(key) == 32
        return _cv_words(bytes(key)), DERIVE_KEY_MATERIAL
    raise ValueError("mode " + repr(mode))


def blake3(data, mode="hash", key=None, context=None, out_len=32, seek=0):
    kw, fl = mode_params(mode, key, context)
    return root_output(root_node(bytes(data), kw, fl), out_len, seek)


# ----------------------------------------------------------------------------------------------
def _selftest(path):
    tv = json.load(open(path))
    key = tv["key"].encode()
    ctx = tv["context_string"]
    n = 0
    for c in tv["cases"]:
        ln = c["input_len"]
        data = bytes(i % 251 for i in range(ln))
        for mode, field in (("hash", "hash"), ("keyed", "keyed_hash"), ("derive", "derive_key")):
            want = bytes.fromhex(c[field])
            got = blake3(data, mode, key=key, context=ctx, out_len=len(want))
            if got != want:
                print("MISMATCH len=%d mode=%s" % (ln, mode))
                return 1
            if blake3(data, mode, key=key, context=ctx) != want[:32]:
                print("MISMATCH (default length) len=%d mode=%s" % (ln, mode))
                return 1
            # seek / out_len slicing
            for sk, ol in ((1, 10), (63, 2), (64, 64), (65, 66), (100, 31), (0, 0), (131, 0)):
                if blake3(data, mode, key=key, context=ctx, out_len=ol, seek=sk) != want[sk:sk + ol]:
                    print("MISMATCH seek=%d out_len=%d len=%d mode=%s" % (sk, ol, ln, mode))
                    return 1
            n += 1
    # subtree/parent consistency: recombining subtree CVs gives the root
    data = bytes(i % 251 for i in range(5 * 1024 + 17))
    kw, fl = mode_params("keyed", key=key)
    l = subtree_cv(data[:4096], 0, kw, fl)
    r = subtree_cv(data[4096:], 4, kw, fl)
    if root_output(parent_node(l, r, kw, fl)) != blake3(data, "keyed", key=key):
        print("MISMATCH subtree recombination")
        return 1
    assert left_len(1025) == 1024 and left_len(2048) == 1024 and left_len(2049) == 2048
    assert left_len(2 ** 64 - 1) == 2 ** 63
    print("OK %d vectors (%d lengths x 3 modes, %d output bytes each)" % (n, len(tv["cases"]), len(want)))
    return 0


if __name__ == "__main__":
    if "--selftest" in sys.argv:
        p = os.path.join(os.environ.get("VERIF_REPO", "/repo"), "test_vectors", "test_vectors.json")
        sys.exit(_selftest(p))
    if len(sys.argv) > 1 and sys.argv[1] == "--hash":
        sys.stdout.write(blake3(sys.stdin.buffer.read()).hex() + "\n")
        sys.exit(0)
    print(__doc__)
