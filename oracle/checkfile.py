"""Independent reference for the b3sum checkfile format (property C13), written from
/repo/b3sum/what_does_check_do.md and the property text -- NOT from b3sum/src/main.rs.

Used only by the directed search (lib/search_b3sum.py) to judge what the real b3sum does with a line
of text / prints for a path; it never decides a property.

The format
    plain   "<hash>  <file>"               --tag   "BLAKE3 (<file>) = <hash>"
  * <hash> is exactly 64 lowercase hex ASCII characters.
  * Output: the path is converted to Unicode lossily (invalid sequences -> U+FFFD); if it contains a
    backslash, LF or CR these are written as `\\\\`, `\\n`, `\\r` and the whole line gets ONE leading
    backslash (in both forms); lines end with LF.
  * Check: trailing CR / LF characters are the line terminator; an empty line is an error; a leading
    backslash means the file field is unescaped (`\\\\`, `\\n`, `\\r`; any other escape or a dangling
    backslash is an error), without it backslashes are literal; a line of the --tag shape
    ("BLAKE3 (" ... last ") = ") is a --tag line (its path may contain "  "), anything else splits at
    the FIRST "  "; an empty path, NUL or U+FFFD in the path are errors (Unix rules; the Windows-only
    rules 8/9 are not modelled).
"""

HEX = "0123456789abcdef"
TAG_PREFIX = "BLAKE3 ("
TAG_SEP = ") = "
SEP = "  "
REPLACEMENT = "�"


def lossy(path_bytes):
    """OsStr::to_string_lossy on Unix: UTF-8 with U+FFFD for invalid sequences"""
    return path_bytes.decode("utf-8", errors="replace")


def needs_escape(path):
    return any(c in path for c in "\\\n\r")


def escape(path):
    out = []
    for c in path:
        out.append({"\\": "\\\\", "\n": "\\n", "\r": "\\r"}.get(c, c))
    return "".join(out)


def unescape(field):
    """None for an invalid or dangling escape"""
    out, i, n = [], 0, len(field)
    while i < n:
        c = field[i]
        if c != "\\":
            out.append(c)
            i += 1
            continue
        if i + 1 >= n:
            return None
        e = field[i + 1]
        if e == "n":
            out.append("\n")
        elif e == "r":
            out.append("\r")
        elif e == "\\":
            out.append("\\")
        else:
            return None
        i += 2
    return "".join(out)


def file_field(path):
    """(field, is_escaped) as printed for a (Unicode) path"""
    if needs_escape(path):
        return escape(path), True
    return path, False


def format_line(path, hash_hex, tag):
    """the line b3sum prints (LF terminated) for a Unicode path string and a hex hash"""
    field, esc = file_field(path)
    body = (TAG_PREFIX + field + TAG_SEP + hash_hex) if tag else (hash_hex + SEP + field)
    return ("\\" if esc else "") + body + "\n"


def hash_field_ok(h):
    return len(h) == 64 and all(c in HEX for c in h)


def checkable(path):
    return path != "" and "\0" not in path and REPLACEMENT not in path


def parse_line(line):
    """what --check makes of one line of text: None (error) or
    {"path", "hash_hex", "is_escaped", "file_string"}"""
    end = len(line)
    while end > 0 and line[end - 1] in "\r\n":
        end -= 1
    l = line[:end]
    if l == "":
        return None
    esc = l[0] == "\\"
    body = l[1:] if esc else l
    field = h = None
    if body.startswith(TAG_PREFIX):
        rest = body[len(TAG_PREFIX):]
        k = rest.rfind(TAG_SEP)
        if k >= 0:
            field, h = rest[:k], rest[k + len(TAG_SEP):]
    if field is None:
        k = body.find(SEP)
        if k < 0:
            return None
        h, field = body[:k], body[k + len(SEP):]
    if not hash_field_ok(h):
        return None
    path = unescape(field) if esc else field
    if path is None or not checkable(path):
        return None
    return {"path": path, "hash_hex": h, "is_escaped": esc, "file_string": field}


def _selftest():
    h = "af1349b9f5f9a1a6a0404dea36dcc9499bcb25c9adc112b7cc9a93cae41f3262"
    # the examples of what_does_check_do.md
    assert format_line("a", h, False) == h + "  a\n"
    assert format_line("x\nx", h, False) == "\\" + h + "  x\\nx\n"
    assert parse_line("\\" + h + "  x\\nx\n")["path"] == "x\nx"
    assert parse_line(h + "  y�y") is None
    for p in ("a", "x\nx", "b\\c", "d\re", "two  spaces", "t) = u", "BLAKE3 (q) = r", " lead", "é€😀", "\\", "\\n"):
        for tag in (False, True):
            for eol in ("\n", "\r\n", ""):
                ln = format_line(p, h, tag)[:-1] + eol
                r = parse_line(ln)
                assert r and r["path"] == p and r["hash_hex"] == h and r["is_escaped"] == needs_escape(p), (p, tag, eol, r)
    for bad in ("", "\n", "\\", h, h + " a", h[:-1] + "  a", h + "0  a", h.upper() + "  a", h[:-1] + "g  a",
                h[:-2] + "é  a", h + "  ", "BLAKE3 () = " + h, "\\" + h + "  a\\", "\\" + h + "  a\\t", h + "  a\0",
                "\\" + h + "  \\", "BLAKE3 (a) = " + h[:-1], "İ" * 64 + "  a"):
        assert parse_line(bad) is None, bad
    assert parse_line(h + "  a\\t")["path"] == "a\\t"          # not escaped: backslashes are literal
    assert parse_line("BLAKE3 (foo  bar) = " + h)["path"] == "foo  bar"
    assert parse_line("BLAKE3 (a) = b) = " + h)["path"] == "a) = b"
    assert parse_line(h + "  a  b")["path"] == "a  b"
    return True


if __name__ == "__main__":
    print("oracle/checkfile.py selftest:", "ok" if _selftest() else "FAILED")
