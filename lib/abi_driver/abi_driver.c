/* /verif/lib/abi_driver/abi_driver.c -- calling-convention and frame check of one hand-written assembly file (bounded, C07).
 * Built once per file: -DISA_<x> selects the symbols, -DABI_WIN=0|1 the convention (the windows_gnu .S file is assembled for
 * ELF with `.section .rdata` renamed `.section .rodata`: same instructions, same Win64 prologue / epilogue). Every kernel is
 * called through vf_abi_call (abi_call.S) with patterns in all callee-saved registers; outputs are compared with the
 * portable kernels of c/blake3_portable.c and the bytes around the output buffer must stay untouched.
 * Output: lines "FAIL <what>"; exit status 0 = all good, 1 = failures, 77 = CPU lacks the instruction set. */
#include <stdint.h>
#include <stdio.h>
#include <stdlib.h>
#include <string.h>
#include "blake3_impl.h"

uint64_t vf_abi_call(int win64, void *fn, const uint64_t args[10], uint64_t report[4]);

#if defined(ISA_sse2)
#define NAME "sse2"
#define HM blake3_hash_many_sse2
#define CIP blake3_compress_in_place_sse2
#define CXOF blake3_compress_xof_sse2
#elif defined(ISA_sse41)
#define NAME "sse41"
#define HM blake3_hash_many_sse41
#define CIP blake3_compress_in_place_sse41
#define CXOF blake3_compress_xof_sse41
#elif defined(ISA_avx2)
#define NAME "avx2"
#define HM blake3_hash_many_avx2
#elif defined(ISA_avx512)
#define NAME "avx512"
#define HM blake3_hash_many_avx512
#define CIP blake3_compress_in_place_avx512
#define CXOF blake3_compress_xof_avx512
#if !ABI_WIN
#define XOFM blake3_xof_many_avx512
#endif
#endif

static int failures = 0;
static const char *GPR[8] = {"rbx", "rbp", "r12", "r13", "r14", "r15", "rsi", "rdi"};

static void judge(const char *what, uint64_t rep[4]) {
  for (int i = 0; i < 8; i++)
    if (rep[0] & (1u << i)) { printf("FAIL %s %s: callee-saved register %s not preserved\n", NAME, what, GPR[i]); failures++; }
  for (int i = 0; i < 10; i++)
    if (rep[1] & (1u << i)) { printf("FAIL %s %s: callee-saved register xmm%d not preserved\n", NAME, what, 6 + i); failures++; }
  if (rep[3]) { printf("FAIL %s %s: direction flag set on return\n", NAME, what); failures++; }
}

static uint8_t rnd(uint64_t *s) { *s = *s * 6364136223846793005ULL + 1442695040888963407ULL; return (uint8_t)(*s >> 56); }

#define CAN 64
static int canary_ok(const uint8_t *buf, size_t len) {
  for (size_t i = 0; i < CAN; i++) if (buf[i] != 0xC5 || buf[CAN + len + i] != 0xC5) return 0;
  return 1;
}

int main(void) {
  __builtin_cpu_init();
#if defined(ISA_sse41)
  if (!__builtin_cpu_supports("sse4.1")) return 77;
#elif defined(ISA_avx2)
  if (!__builtin_cpu_supports("avx2")) return 77;
#elif defined(ISA_avx512)
  if (!__builtin_cpu_supports("avx512f") || !__builtin_cpu_supports("avx512vl")) return 77;
#endif
  uint64_t seed = 12345, rep[4], a[10];
  const uint32_t key[8] = {0x6A09E667u, 0xBB67AE85u, 0x3C6EF372u, 0xA54FF53Au, 0x510E527Fu, 0x9B05688Cu, 0x1F83D9ABu, 0x5BE0CD19u};
  /* hash_many */
  static uint8_t data[40][16 * 64 + 3];
  static const size_t NI[] = {1, 2, 3, 4, 5, 7, 8, 9, 15, 16, 17, 31, 33};
  static const uint64_t CT[] = {0, 1, 0xfffffffaULL, 0xffffffffULL, 0x1ffffffffULL, 0xfffffffffffffff0ULL};
  for (size_t i = 0; i < 40; i++) for (size_t j = 0; j < sizeof data[i]; j++) data[i][j] = rnd(&seed);
  for (size_t ni = 0; ni < sizeof NI / sizeof NI[0]; ni++)
    for (size_t bl = 1; bl <= 16; bl += 15)
      for (size_t ci = 0; ci < sizeof CT / sizeof CT[0]; ci++)
        for (int inc = 0; inc < 2; inc++)
          for (int off = 0; off < 2; off++) {
            size_t n = NI[ni];
            const uint8_t *inputs[40];
            for (size_t i = 0; i < n; i++) inputs[i] = data[i] + (off ? 3 : 0);
            uint8_t want[40 * 32], got[CAN + 40 * 32 + CAN];
            memset(got, 0xC5, sizeof got);
            blake3_hash_many_portable(inputs, n, bl, key, CT[ci], inc, 0x10 | (ci & 1 ? 0x20 : 0), 1, 2, want);
            a[0] = (uint64_t)inputs; a[1] = n; a[2] = bl; a[3] = (uint64_t)key; a[4] = CT[ci]; a[5] = (uint64_t)inc;
            a[6] = 0x10 | (ci & 1 ? 0x20 : 0); a[7] = 1; a[8] = 2; a[9] = (uint64_t)(got + CAN + 0);
            /* small arguments are passed zero-extended to 64 bits, as C compilers do (`movzx r32`): the unix assembly
               relies on that (`shl r8, 32; add rdx, r8`), so nothing else is demanded here */
            vf_abi_call(ABI_WIN, (void *)HM, a, rep);
            char what[128];
            snprintf(what, sizeof what, "hash_many(n=%zu, blocks=%zu, counter=%llu, inc=%d, unaligned=%d)", n, bl, (unsigned long long)CT[ci], inc, off);
            judge(what, rep);
            if (memcmp(want, got + CAN, n * 32)) { printf("FAIL %s %s: output differs from the portable kernel\n", NAME, what); failures++; }
            if (!canary_ok(got, n * 32)) { printf("FAIL %s %s: bytes outside out[0..32*n) written\n", NAME, what); failures++; }
            if (failures > 20) goto done;
          }
#ifdef CIP
  for (unsigned blen = 0; blen <= 64; blen += (blen < 3 || blen > 60) ? 1 : 13)
    for (size_t ci = 0; ci < sizeof CT / sizeof CT[0]; ci++)
      for (int off = 0; off < 2; off++) {
        uint8_t blockbuf[64 + 8]; uint8_t *block = blockbuf + (off ? 1 : 0);
        for (int i = 0; i < 64; i++) block[i] = rnd(&seed);
        uint32_t cvw[8 + 2], cvg_buf[8 + 2]; uint32_t *cv0 = cvw, *cvg = cvg_buf;
        for (int i = 0; i < 8; i++) cv0[i] = cvg[i] = key[i] ^ (uint32_t)(ci * 77 + blen);
        uint8_t flags = (uint8_t)(1 | (blen & 2 ? 8 : 0));
        blake3_compress_in_place_portable(cv0, block, (uint8_t)blen, CT[ci], flags);
        a[0] = (uint64_t)cvg; a[1] = (uint64_t)block; a[2] = blen; a[3] = CT[ci]; a[4] = flags;
        a[5] = a[6] = a[7] = a[8] = a[9] = 0;
        vf_abi_call(ABI_WIN, (void *)CIP, a, rep);
        char what[128];
        snprintf(what, sizeof what, "compress_in_place(block_len=%u, counter=%llu, unaligned=%d)", blen, (unsigned long long)CT[ci], off);
        judge(what, rep);
        if (memcmp(cv0, cvg, 32)) { printf("FAIL %s %s: output differs from the portable kernel\n", NAME, what); failures++; }
        /* compress_xof */
        uint8_t want[64], got[CAN + 64 + CAN + 8];
        for (int o2 = 0; o2 < 2; o2++) {
          memset(got, 0xC5, sizeof got);
          for (int i = 0; i < 8; i++) cvg[i] = key[i] ^ (uint32_t)(ci * 77 + blen);
          blake3_compress_xof_portable(cvg, block, (uint8_t)blen, CT[ci], flags, want);
          uint8_t *out = got + CAN;
          a[0] = (uint64_t)cvg; a[1] = (uint64_t)block; a[2] = blen; a[3] = CT[ci]; a[4] = flags;
          a[5] = (uint64_t)(out + 0);
          if (o2) { memmove(got + 1, got, 0); }
          uint8_t shifted[CAN + 64 + CAN + 8];
          memset(shifted, 0xC5, sizeof shifted);
          if (o2) a[5] = (uint64_t)(shifted + CAN + 1);
          vf_abi_call(ABI_WIN, (void *)CXOF, a, rep);
          snprintf(what, sizeof what, "compress_xof(block_len=%u, counter=%llu, unaligned in=%d out=%d)", blen, (unsigned long long)CT[ci], off, o2);
          judge(what, rep);
          const uint8_t *res = o2 ? shifted + CAN + 1 : out;
          if (memcmp(want, res, 64)) { printf("FAIL %s %s: output differs from the portable kernel\n", NAME, what); failures++; }
          if (!o2 && !canary_ok(got, 64)) { printf("FAIL %s %s: bytes outside out[0..64) written\n", NAME, what); failures++; }
          if (o2) {
            for (int i = 0; i < CAN + 1; i++) if (shifted[i] != 0xC5) { printf("FAIL %s %s: bytes before out written\n", NAME, what); failures++; break; }
            for (int i = CAN + 1 + 64; i < (int)sizeof shifted; i++) if (shifted[i] != 0xC5) { printf("FAIL %s %s: bytes after out written\n", NAME, what); failures++; break; }
          }
        }
        if (failures > 20) goto done;
      }
#endif
#ifdef XOFM
  for (size_t nb = 1; nb <= 35; nb += (nb < 18 ? 1 : 5))
    for (size_t ci = 0; ci < sizeof CT / sizeof CT[0]; ci++) {
      uint8_t block[64]; for (int i = 0; i < 64; i++) block[i] = rnd(&seed);
      uint32_t cv[8]; for (int i = 0; i < 8; i++) cv[i] = key[i] ^ (uint32_t)nb;
      static uint8_t want[36 * 64], got[CAN + 36 * 64 + CAN];
      memset(got, 0xC5, sizeof got);
      for (size_t b = 0; b < nb; b++) blake3_compress_xof_portable(cv, block, 37, CT[ci] + b, 8 | 2, want + 64 * b);
      a[0] = (uint64_t)cv; a[1] = (uint64_t)block; a[2] = 37; a[3] = CT[ci]; a[4] = (8 | 2);
      a[5] = (uint64_t)(got + CAN); a[6] = nb; a[7] = a[8] = a[9] = 0;
      vf_abi_call(ABI_WIN, (void *)XOFM, a, rep);
      char what[128];
      snprintf(what, sizeof what, "xof_many(outblocks=%zu, counter=%llu)", nb, (unsigned long long)CT[ci]);
      judge(what, rep);
      if (memcmp(want, got + CAN, nb * 64)) { printf("FAIL %s %s: output differs from the portable kernel\n", NAME, what); failures++; }
      if (!canary_ok(got, nb * 64)) { printf("FAIL %s %s: bytes outside out[0..64*outblocks) written\n", NAME, what); failures++; }
      if (failures > 20) goto done;
    }
#endif
done:
  printf("%s %s: %d failure(s)\n", NAME, ABI_WIN ? "win64(gnu)" : "sysv", failures);
  return failures ? 1 : 0;
}
