"""Directed search for a failing input on the REAL crate (built from the working tree), used only
to make a failed obligation replayable -- never to decide a property. (Filled in step by step;
see lib/replay_driver/.)"""


def find(prop, fo, seed):
    try:
        import search_impl
    except ImportError:
        return {"found": None, "log": {"note": "no directed search registered for this obligation"}}
    return search_impl.find(prop, fo, seed)


def rerun(fi):
    import search_impl
    return search_impl.rerun(fi)
