UNITS = {
    "xof": {
        "files": CRATE_FILES,
        "prelude": _p("prelude/core.rs", "prelude/deps.rs", "prelude/kernels.rs", "prelude/iomodel.rs"),
        "spec": _p("spec/blake3_spec.rs", "spec/tree_spec.rs", "spec/stream_spec.rs"),
        "overlays": _p("contracts/compress.vc", "contracts/chunk.vc", "contracts/xof.vc"),
        "doc": "extended output: OutputReader (new, fill_one_block, fill, position, set_position, Read::read, "
               "Seek::seek), Platform::xof_many, hazmat::merge_subtrees_root_xof against the output-stream spec",
    },
}
