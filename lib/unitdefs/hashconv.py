UNITS = {
    "hashconv": {
        "files": [("src/lib.rs", "crate")],
        "prelude": _p("prelude/core.rs", "prelude/hashconv.rs"),
        "spec": _p("spec/hex_spec.rs"),
        "overlays": _p("contracts/hashconv.vc"),
        "doc": "Hash <-> hex / bytes / slice conversions, FromStr, Display and the three PartialEq impls "
               "against the property's wording (spec/hex_spec.rs)",
    },
}

UNITS["secrets"] = {
    "files": [("src/lib.rs", "crate"), ("src/platform.rs", "crate::platform")],
    "prelude": _p("prelude/core.rs", "prelude/deps.rs", "prelude/secrets.rs"),
    "spec": [],
    "overlays": _p("contracts/secrets.vc"),
    "doc": "Zeroize impls of Hash/Output/ChunkState/Hasher/OutputReader (every field but `platform` zero/empty "
           "afterwards) and the hand-written Debug impls of ChunkState/Hasher/OutputReader (ghost log depends on "
           "lengths, counters, flags, platform only)",
}
