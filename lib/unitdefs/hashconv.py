UNITS = {
    "hashconv": {
        "files": [("src/lib.rs", "crate")],
        "prelude": _p("prelude/core.rs", "prelude/hashconv.rs"),
        "spec": _p("spec/hex_spec.rs"),
        "overlays": _p("contracts/hashconv.vc"),
        "doc": "Hash <-> hex / bytes / slice conversions, FromStr, Display and the three PartialEq impls "
               "against the property's wording (spec/hex_spec.rs)",
    },
}
