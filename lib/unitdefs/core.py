UNITS = {
    "compress": {
        "files": CRATE_FILES,
        "prelude": _p("prelude/core.rs"),
        "spec": _p("spec/blake3_spec.rs"),
        "overlays": _p("contracts/compress.vc"),
        "doc": "portable compression function and byte/word helpers against the paper's G/round/permutation",
    },
}

UNITS["chunk"] = {
    "files": CRATE_FILES,
    "prelude": _p("prelude/core.rs", "prelude/deps.rs", "prelude/kernels.rs"),
    "spec": _p("spec/blake3_spec.rs"),
    "overlays": _p("contracts/compress.vc", "contracts/chunk.vc"),
    "doc": "Platform dispatch, hash1/hash_many, ChunkState, Output against the chunk-level spec",
}

UNITS["tree_lemmas"] = {
    "files": [],
    "prelude": _p("prelude/core.rs"),
    "spec": _p("spec/blake3_spec.rs", "spec/tree_spec.rs"),
    "overlays": [],
    "verify": "spec",
    "doc": "lemmas of the tree-level specification (no repo code): lp2, pairwise, split, covers",
}

UNITS["tree"] = {
    "files": CRATE_FILES,
    "prelude": _p("prelude/core.rs", "prelude/deps.rs", "prelude/kernels.rs"),
    "spec": _p("spec/blake3_spec.rs", "spec/tree_spec.rs"),
    "overlays": _p("contracts/compress.vc", "contracts/chunk.vc", "contracts/tree.vc"),
    "verify": "code",
    "doc": "tree hashing: compress_chunks/parents_parallel, compress_subtree_wide, hash_all_at_once, hash/keyed_hash/derive_key",
}

UNITS["stack_lemmas"] = {
    "files": [],
    "prelude": _p("prelude/core.rs"),
    "spec": _p("spec/blake3_spec.rs", "spec/tree_spec.rs", "spec/stack_spec.rs"),
    "overlays": [],
    "verify": "spec",
    "doc": "lemmas about the incremental hasher's CV stack (no repo code)",
}

UNITS["hasher"] = {
    "files": CRATE_FILES,
    "prelude": _p("prelude/core.rs", "prelude/deps.rs", "prelude/kernels.rs", "prelude/iomodel.rs"),
    "spec": _p("spec/blake3_spec.rs", "spec/tree_spec.rs", "spec/stack_spec.rs", "spec/stream_spec.rs"),
    "assumed_overlays": _p("contracts/compress.vc", "contracts/chunk.vc", "contracts/tree.vc", "contracts/xof.vc"),
    "overlays": _p("contracts/hasher.vc"),
    "verify": "code",
    "doc": "incremental Hasher (update/finalize/reset/count), hazmat extension, against the tree spec",
}

UNITS["spec_lemmas"] = {
    "files": [],
    "prelude": _p("prelude/core.rs"),
    "spec": _p("spec/blake3_spec.rs", "spec/tree_spec.rs", "spec/stack_spec.rs", "spec/stream_spec.rs"),
    "overlays": [],
    "verify": "spec",
    "doc": "all lemmas of the specification module used by the code units (tree, stack, output stream); no repo code",
}
