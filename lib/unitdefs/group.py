UNITS = {
    "group_lemmas": {
        "files": [],
        "prelude": _p("prelude/core.rs"),
        "spec": _p("spec/blake3_spec.rs", "spec/tree_spec.rs", "spec/group_spec.rs"),
        "overlays": [],
        "verify": "spec",
        "doc": "fixed power-of-two groups (no repo code): the subtree chaining values of consecutive groups of g chunks, "
               "merged as a tree / by pairwise layers down to two, give the chaining value / root node of the whole input",
    },
}
