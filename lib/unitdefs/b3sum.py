UNITS = {
    "b3sum": {
        "files": [("b3sum/src/main.rs", "crate")],
        "prelude": _p("prelude/strmodel.rs"),
        "spec": _p("spec/checkfile_spec.rs"),
        "overlays": _p("contracts/b3sum.vc"),
        # R17 (anyhow macros) and R19d (`for b in &mut <local array>`) are opt-in extraction rules
        # R21 (`print_model`): stdout is a ghost log threaded through the listed free functions
        "opts": {"anyhow": True, "array_iter_mut": ["hash_bytes"],
                 "print_model": ["hash_one_input", "write_hex_output", "write_raw_output", "check_one_line", "check_one_checkfile", "main"]},
        "rlimit": 30,
        "broadcast": False,   # prelude/core.rs (vf_lemmas) is not part of this unit
        "doc": "b3sum checkfile functions (hex_half_byte, check_for_invalid_characters, unescape, split_*_check_line, "
               "parse_check_line, filepath_to_string) and its printing functions (hash_one_input, write_hex_output over a ghost "
               "stdout log) against a spec of the checkfile format over vstd's UTF-8-aware "
               "str model",
    },
}
