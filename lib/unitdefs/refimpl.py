UNITS = {
    "refimpl": {
        "files": [("reference_impl/reference_impl.rs", "crate")],
        "prelude": _p("prelude/core.rs", "prelude/refimpl.rs"),
        "spec": _p("spec/blake3_spec.rs", "spec/tree_spec.rs", "spec/refimpl_lemmas.rs"),
        "overlays": _p("contracts/refimpl.vc"),
        "rlimit": 30,
        "doc": "reference_impl/reference_impl.rs (whole file: compression, ChunkState, Output, the eager CV stack of "
               "Hasher, the three modes, arbitrary output length) against the same specification as the optimized crate",
    },
}
