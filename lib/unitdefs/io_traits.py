_PRELUDE = _p("prelude/core.rs", "prelude/deps.rs", "prelude/kernels.rs", "prelude/iomodel.rs",
              "prelude/readermodel.rs")
_SPEC = _p("spec/blake3_spec.rs", "spec/tree_spec.rs", "spec/stack_spec.rs", "spec/stream_spec.rs")
_ASSUMED = _p("contracts/compress.vc", "contracts/chunk.vc", "contracts/tree.vc", "contracts/xof.vc",
              "contracts/hasher.vc")

UNITS = {
    "io": {
        "files": CRATE_FILES,
        "prelude": _PRELUDE,
        "spec": _SPEC,
        "assumed_overlays": _ASSUMED,
        "overlays": _p("contracts/io.vc"),
        "verify": "code",
        "doc": "io::copy_wide, Hasher::update_reader, Write::write/flush, io::maybe_mmap_file, update_mmap, "
               "update_mmap_rayon against a reader trait with a ghost log and a File/Mmap model, on top of the "
               "Hasher contracts (assumed here, verified by the hasher unit)",
    },
    "traits": {
        "files": CRATE_FILES,
        "prelude": _PRELUDE,
        "spec": _SPEC,
        "assumed_overlays": _ASSUMED,
        "overlays": _p("contracts/traits.vc"),
        "verify": "code",
        "doc": "RustCrypto trait impls of src/traits.rs (emitted as inherent fns, rule R13) and the deprecated guts "
               "API (guts::ChunkState, guts::parent_cv) against the contracts of the inherent API / the chunk-level "
               "specification (Hasher, OutputReader, ChunkState, Output contracts assumed here, verified by the "
               "hasher / xof / tree units)",
    },
}
