PROPS = {
    "C12": {
        "level": "proof",
        "design_ref": "4.13",
        "technique": "Verus function contracts on the mechanically extracted bodies of b3sum/src/main.rs that decide the "
                     "statement's two halves: write_hex_output / hash_one_input (what is printed) and check_one_line / "
                     "check_one_checkfile / main (what --check counts and what the exit status is), over a ghost stdout "
                     "log, a file-system function and a line-source model; hash_path's real body is verified against a "
                     "model of blake3::Hasher whose clauses are the contracts C02/C03/C11 verify on the crate; "
                     "clap is an assumed contract; write_raw_output's body is verified over an assumed model of Read::take / io::copy (partial claim: see level_note)",
        "level_text": "unbounded deductive proof (Verus/z3) for the FUNCTION-LEVEL half of the statement, every line, path, "
                      "checkfile length and number of inputs: write_hex_output appends the lowercase hex of exactly "
                      "S[pos..pos+length] of the reader it is given (hash_one_input: of the reader hash_path positioned at "
                      "--seek); check_one_line returns true IFF the line parses (sp_parse), the named file can be hashed "
                      "and the 32 bytes at --seek of its output stream equal the hash field, and prints exactly one status "
                      "line for a parsed entry (`<name>: OK` unless --quiet, `<name>: FAILED`, `<name>: FAILED (<error>)`); "
                      "check_one_checkfile checks EVERY line of the checkfile (it does not stop at a failure) and adds "
                      "exactly the number of failing lines to the counter, saturating; main processes EVERY input / "
                      "checkfile, and its status (Ok = 0, Err / process::exit(c != 0) = non-zero) is 0 only if the "
                      "saturating total of failing lines over all checkfiles is 0 and every checkfile was readable "
                      "(--check) resp. every input could be hashed (hex modes), and conversely is 0 in that case unless "
                      "the environment failed (argument parsing, key reading, pool construction, a read error)",
        "level_note": "PARTIAL: the process-level half of C12 (clap's argument grammar and conflicts, reading the key from "
                      "stdin, the real stdout / stderr, File::open / BufReader / stdin selection in check_one_checkfile, "
                      "rayon_core's pool) is NOT under contract: "
                      "clap (vf_parse_inner) is an ASSUMED contract, hash_path, Args::parse, read_key_from_stdin and write_raw_output are verified over ASSUMED models of "
                      "blake3::Hasher / File / stdin, the reader-selection prologue of "
                      "check_one_checkfile is replaced by a line-source model (its loop is the real code), the closure "
                      "passed to ThreadPool::install is verified as main's own block and process::exit(c) as `return` of "
                      "a status; that the stream hash_path returns IS the BLAKE3 output of the file in the selected mode is "
                      "C01/C02/C03/C11 on the crate; domain: seek + length + 64 <= u64::MAX and seek + 32 <= u64::MAX; "
                      "trusted: Verus+z3, extraction rules (R2, R12, R17, R18, R19d, R19h, R21, R21b), the str/String/Path "
                      "models of C13",
        "units": {"quick": [v("b3sum")], "thorough": [s("C12")]},
        "cone": [r"^crate::(check_one_line|check_one_checkfile|main|write_hex_output|hash_one_input|hash_path|"
                 r"write_raw_output|read_key_from_stdin|Args::(parse|quiet|seek|check|num_threads|len|raw|no_names|no_mmap|keyed))$"],
        "explanation": "Same unit as C13 (assembled on every run from the real b3sum/src/main.rs). New for C12: "
                       "check_one_line, check_one_checkfile and main are extracted and verified. The file system is a "
                       "function of the path during one run: sp_fs_stream(path) = Some(stream id) | None, fixed by the "
                       "assumed contract of hash_path (Ok(reader at --seek on that stream) / Err); a checkfile is "
                       "sp_checkfile_lines(path) = Some(lines) | None. sp_line_ok(line, seek) is written from the "
                       "property (parses AND hashable AND S[seek..seek+32] == hash field); check_one_line's postcondition "
                       "is `r == sp_line_ok(..)` plus the exact stdout delta (sp_status_line). check_one_checkfile's loop "
                       "invariant: after k lines the counter is sat_add(old, sp_count_bad(first k lines)); main's loop "
                       "invariant: in --check mode files_failed == sp_run_bad(first i checkfiles), otherwise files_failed "
                       "> 0 IFF one of the first i inputs could not be hashed; the postconditions relate main's result to "
                       "sp_run_bad / sp_unhashable over ALL of Args::file_args, so skipping an input, forgetting to count, "
                       "overwriting the counter, stopping early or inverting the status fails a named obligation. The "
                       "printing half (write_hex_output's loop invariant over the XOF stream, hash_one_input's line) is "
                       "shared with C13.",
        "uncovered": [
            "clap's derive-generated parser (the option grammar, conflicts / requires between --check, --raw, --keyed ...) - "
            "assumed contract; read_key_from_stdin's and Args::parse's own bodies (default `-`, the --raw single-file rule, "
            "selection of the base hasher) IS verified",
            "below hash_path: that blake3::Hasher / File / stdin behave as the b3sum-side model says is C02/C03/C10/C11 on the "
            "crate (verified there) plus the OS; the bounded exploration of the thorough tier runs the real binary over "
            "mode / seek / length combinations",
            "--raw: write_raw_output (real body) appends exactly S[pos..pos+length] of the given reader to a raw stdout log and "
            "hash_one_input passes it the reader of hash_path; Read::take and io::copy themselves are assumed models",
            "stdin as a checkfile, File::open errors, BufReader line splitting (a final line without terminator, CRLF) are "
            "behind the line-source model; stderr diagnostics (the WARNING summary, error texts) are not modelled",
            "with --check, an unreadable CHECKFILE ends the run with an error status immediately (the real code's `?`): "
            "later checkfiles are then not checked; the statement's 'remaining entries are still checked' is decided for "
            "entries (lines), not for unreadable checkfiles",
            "counter saturation: more than 2^64-1 failing lines still give a non-zero status (sat_add), proved",
        ],
        "assumptions": [
            "hash_path (VERIFIED body): Ok(reader) => the reader is at --seek on sp_stream_for(args, lossy path) = the stream "
            "of (mode of the base hasher, bytes it had absorbed ++ bytes of the file / of stdin for `-`, refused with "
            "--keyed); Err => that input is unreadable. Models ASSUMED for it (prelude/strmodel.rs): blake3::Hasher "
            "{clone copies (mode, absorbed); update_reader(r) appends exactly r's bytes or fails; update_mmap_rayon(path) "
            "appends exactly the file's bytes or fails; finalize_xof(&self) -> reader at 0 on sp_stream_id(mode, absorbed)}, "
            "OutputReader::set_position, File::open, io::stdin().lock(), `path == Path::new(\"-\")` (vf_path_is_dash); "
            "@subst: update_reader / update_mmap_rayon -> vf_* (their `&mut Self` result is dropped by the real code)",
            "read_key_from_stdin (VERIFIED body): Ok(k) IFF standard input holds exactly 32 bytes, and k is those bytes; ASSUMED "
            "below it: vf_stdin_take_read_to_end (= std::io::stdin().lock().take(limit).read_to_end(&mut buf)?: appends the "
            "first min(limit, |stdin|) bytes and returns their number) - the limit expression KEY_LEN + 1 stays the real "
            "code -, vf_vec_prefix / vf_key_from_slice (= bytes[..KEY_LEN].try_into().unwrap(), which requires 32 items)",
            "axiom_fs_fixed (ASSUMED): sp_fs_stream(path) == sp_stream_for(args, path) for the Args of this run - the file "
            "system, stdin's bytes and the options do not change during the run; paths are identified by their lossy "
            "rendering",
            "Args::parse (VERIFIED body): Ok(a) => a.inner is what clap returned (sp_the_inner()), a.file_args is the file list "
            "or [`-`] if it is empty, exactly one input with --raw, the base hasher has absorbed nothing and is in the mode "
            "the options select (keyed with the 32 stdin bytes / derive-key with the context / hash); Err => the key could "
            "not be read or --raw was given with several inputs. ASSUMED below it: vf_parse_inner (= clap's derive-generated "
            "Inner::parse_from(wild::args_os()), incl. `--check conflicts with --raw / --keyed`), blake3::Hasher::{new, new_keyed, new_derive_key} (mode = function of nothing / key / context; "
            "verified on the crate under C01/C02), Vec<PathBuf>::clone (vf_clone_paths), vec![\"-\".into()] (vf_dash_paths)",
            "vf_open_checkfile / VfLineReader::read_line (ASSUMED, replaces the reader-selection prologue of "
            "check_one_checkfile via @subst): Ok(reader over sp_checkfile_lines(path)) / Err iff None; read_line appends "
            "the next line and returns n > 0, or Ok(0) at the end, or Err (=> sp_env_failed())",
            "rayon_core::ThreadPoolBuilder::{new, num_threads, build} (ASSUMED: build fails => sp_env_failed()); "
            "`thread_pool.install(|| BODY)` is resolved to `(BODY)` (install runs the closure and returns its result)",
            "`std::process::exit(c)` is resolved to `return vf_process_exit(c)` whose result is Ok iff c == 0: the process "
            "status is modelled by main's result (std: Err from main => status 1)",
            "write_raw_output (VERIFIED body): ASSUMED below it OutputReader::take(limit) (a reader over the next `limit` bytes of "
            "the same stream), std::io::stdout().lock() (vf_stdout_handle) and io::copy(&mut take, &mut lock) (writes exactly "
            "those bytes: vf_copy_take_to_stdout, raw log of VfStdout)",
            "R21b: eprint!/eprintln! evaluate their arguments and write to stderr only (not modelled)",
            "R19h: `for p in &X` over a Vec field is an index loop in index order",
            "blake3::Hash == Hash is byte equality (vf_eq; verified on the real crate under C14); `\"\\\\\".to_string() + &s` is "
            "concatenation (vf_string_concat); &PathBuf -> &Path keeps the path (Deref)",
            "everything listed for the b3sum unit under C13 (str model, R17/R18 wrappers, R21 stdout log, OutputReader::fill "
            "contract verified by the xof unit, hex::encode)",
            EXTRACTION,
        ],
    },
}
