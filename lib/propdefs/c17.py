PROPS = {
    "C17": {
        "level": "proof",
        "design_ref": "4.11",
        "technique": "Verus function contracts on the real Zeroize and fmt::Debug impls, against a trait model of "
                     "`zeroize` and a ghost-log model of core::fmt's DebugStruct builder",
        "level_text": "unbounded deductive proof (Verus/z3). Zeroize: after zeroize() EVERY field except `platform` of "
                      "Hash, Output, ChunkState, Hasher, OutputReader is zero / empty (cv, key, block, buf words/bytes all "
                      "0; counters, lengths, flags, position 0; cv_stack empty), stated over the whole struct. Debug: the "
                      "formatter's log after fmt() is the old log plus one struct rendering whose (field name, value) list "
                      "is a spec function of count()/chunk_counter/flags/platform (ChunkState), flags/platform (Hasher), "
                      "position() (OutputReader) only; a noninterference lemma per type shows the list is equal for states "
                      "that differ in key, chaining value, buffered input or CV stack",
        "level_note": "trusted: Verus+z3, extraction rules, assumed contracts of zeroize on u8/u32/u64/[Z;N] and of "
                      "arrayvec's Zeroize impl, of Formatter::debug_struct / DebugStruct::{field, finish}, derive(Debug) "
                      "of Platform; bytes outside the abstract view (padding, ArrayVec spare capacity, copies left by moves) "
                      "are not modelled",
        "units": {"quick": [v("secrets"), g("zeroize_volatile")], "thorough": [s("C17")]},
        "explanation": "The repo's `impl Zeroize for T` blocks are kept as impls of a prelude trait whose contract is "
                       "`final(self).zeroed()`; `zeroed()` is defined per repo type in contracts/secrets.vc from the property "
                       "text (all fields but `platform`), so a forgotten `.zeroize()` call is a failed postcondition; the "
                       "`let Self { .. } = self` destructuring of `&mut self` is verified as written. The Debug impls are "
                       "verified as written against assumed contracts of debug_struct/field/finish that record each "
                       "(name, &dyn Debug value) pair in a ghost log; the postcondition fixes the whole log, so printing any "
                       "further field (key, cv, buf, cv_stack...) or a different value fails the proof.",
        "uncovered": [
            "guts::ChunkState's #[derive(Debug)] (macro-generated; it delegates to the verified crate::ChunkState impl)",
            "#[derive(Debug)] of platform::Platform (macro-generated; prints the variant name) - supplied as an "
            "unverified external impl",
            "the characters finally printed: the model stops at the (field name, type-erased value) pairs handed to "
            "core::fmt; the rendering of u8/u64/usize/Platform values by core::fmt is std code",
            "memory outside the abstract state: struct padding, ArrayVec spare capacity (zeroed by arrayvec's impl - "
            "assumed), stack copies left behind by earlier moves, compiler elision of the writes (zeroize's volatile "
            "writes are its own guarantee)",
            "OutputReader Debug / position() for a reader advanced past 2^64-1 output bytes (counter*64+pos overflows: "
            "debug-build panic; documented by the crate as unspecified) - excluded by precondition",
        ],
        "assumptions": [
            EXTRACTION,
            TYPE_ASSUMPTION,
            "zeroize::Zeroize for u8, u32, u64 sets the value to 0; for [Z; N] it zeroizes every element",
            "arrayvec's `impl Zeroize for ArrayVec<Z, CAP>` leaves the vector empty (and zeroes elements and spare "
            "capacity, which the Seq view cannot see)",
            "`x.zeroize()` on a repo type resolves to the repo's `impl Zeroize for T` (kept as a trait impl of the "
            "prelude's Zeroize model via @localtrait)",
            "fmt::Formatter::debug_struct(name) starts a struct rendering; DebugStruct::field(name, value) appends "
            "(name, value) to it; finish() completes it; the builder writes nothing else to the formatter "
            "(prelude/secrets.rs, prophecy-style contract because the builder holds the &mut Formatter)",
            "what core::fmt prints for a `&dyn Debug` value depends only on that value and the formatter's flags",
        ],
    },
}
