PROPS = {
    "C03": {
        "level": "proof",
        "design_ref": "4.3",
        "technique": "Verus function contracts on the real OutputReader / Platform::xof_many / merge_subtrees_root_xof "
                     "bodies against the output-stream spec S(node)[i] = root_block(node, i / 64)[i % 64]; prophecy-style "
                     "clauses for the `&mut &mut [u8]` cursor of fill_one_block",
        "level_text": "unbounded deductive proof (Verus/z3), for every root node (any cv / block / block_len / flags, i.e. "
                      "any input and mode), every position p in [0, 2^64-1] (counter: u64 symbolic, both sides of 2^32), "
                      "every buffer length n with p+n <= 2^64-1 and every Platform value: fill and Read::read write exactly "
                      "S[p..p+n] (every byte) and advance to p+n leaving the node unchanged; Read::read returns Ok(n); "
                      "position() = p; set_position(q) and seek(Start(q)) give q; seek(Current(d)) gives min(p+d, 2^64-1) "
                      "computed in i128 without overflow, or Err with the reader bit-for-bit unchanged when p+d < 0; "
                      "seek(End(_)) gives Err with the reader unchanged; the first 32 stream bytes equal sp_hash32 and the "
                      "k-th block is the spec's root compression with counter k (lemma); merge_subtrees_root_xof returns a "
                      "reader at 0 on the spec's parent node; every +, *, cast, index, slice, unwrap and debug_assert in "
                      "these bodies is an obligation",
        "level_note": "trusted: Verus+z3, extraction rules (R2 R3 R9 R13 R15 R16 R19b), prelude/iomodel.rs "
                      "(mem::take on &mut &mut [T], io::Error::new, io::{Error, ErrorKind, SeekFrom} as external types), "
                      "vf_array_mut_ref for `out_block.try_into().unwrap()`, the AVX-512 xof_many kernel assumed (C05)",
        "units": {"quick": [v("xof"), v("tree_lemmas")], "thorough": [v("xof", config="C", vacuity=False), k("output_reader_seek"), s("C03")]},
        "cone": [r"crate::OutputReader::", r"crate::platform::Platform::xof_many", r"crate::platform::Platform::compress_xof",
                 r"crate::Output::root_output_block", r"crate::hazmat::merge_subtrees_root_xof",
                 r"crate::hazmat::merge_subtrees_inner", r"crate::hazmat::Mode::", r"crate::parent_node_output",
                 r"crate::portable::compress_xof", r"\(contract\)"],
        "explanation": "The stream of a root node is defined in the spec as S[i] = sp_out_root_block(node, i / 64)[i % 64] "
                       "(node = the reader's `inner` with its counter field ignored; the counter is the cursor). Verus "
                       "proves, for the mechanically extracted bodies: OutputReader::new (wf, pos = 64*inner.counter), "
                       "fill_one_block (the first take = min(len, 64 - pwb) bytes of the ORIGINAL slice become "
                       "S[pos..pos+take], `*buf` is re-pointed to the rest - stated with final(*old(buf)) / "
                       "final(*final(buf)) -, pos advances by take, the `counter += 1` cannot overflow), fill (three "
                       "phases: partial block, Platform::xof_many over the whole blocks, tail; postcondition "
                       "final(buf)@ == sp_stream(node, pos, n), taken from the property text), Platform::xof_many (fallback "
                       "loop over compress_xof with `counter += 1` proved not to overflow; AVX-512 arm = assumed kernel "
                       "contract), position, set_position, Read::read (Ok(buf.len()) + fill's postcondition), Seek::seek "
                       "(all three SeekFrom cases, error paths leave *self unchanged), Mode::{key_words, flags_byte}, "
                       "merge_subtrees_inner, merge_subtrees_root_xof. Output::root_output_block and compress_xof come with "
                       "their verified contracts from the chunk unit. Compositions that CALL the real functions in "
                       "sequence (two reads of arbitrary sizes; read, set_position, read; read, seek back, re-read, failed "
                       "seeks in between) are verified from the contracts alone, which is the 'however reads are sized or "
                       "interleaved' part: every contract speaks only about (node, pos). The vacuity twin shows that no "
                       "precondition or assumed contract is contradictory.",
        "uncovered": [
            "beyond the documented maximum: fill / read with p + n > 2^64-1 is outside every contract (the crate documents "
            "it as unspecified). For the record, the code there: a reader at p = 2^64-1 (counter 2^58-1, pwb 63) that "
            "fills one more byte returns stream byte 2^64-1 and moves to counter 2^58, pwb 0, after which position() and "
            "seek(Current(_)) compute counter * 64 in u64: overflow panic in debug builds, wrap to a small position in "
            "release builds; with counter near 2^64 the `counter += 1` / `counter += full_blocks` themselves overflow. "
            "position() and seek therefore REQUIRE pos() <= 2^64-1, which every operation inside the documented domain "
            "re-establishes (postconditions of fill/read/set_position/seek)",
            "'every finalized state': that Hasher::finalize_xof hands OutputReader::new the root node of the input "
            "(final_output() == sp_root_out, counter 0) is the Hasher contract of C02 and not decided here; here the "
            "stream is proved coherent for EVERY node value, and merge_subtrees_root_xof's node is proved to be the spec's "
            "parent node. That finalize()'s 32 bytes equal sp_hash32 of the same node is C01/C02 (Output::root_hash)",
            "clone: OutputReader derives Clone; a clone has the same (node, pos) by the field-wise meaning of derive(Clone) "
            "(type-system assumption), after which the contracts apply to each copy separately",
            "trait dispatch (that `reader.read(..)`, `reader.seek(..)` reach these impls) and the provided trait methods "
            "built on them (Read::read_exact / read_to_end, Seek::stream_position / rewind) are std code, not modelled "
            "(R13); read_to_end on an endless reader does not terminate, by design",
            "the digest XofReader impl (src/traits.rs), Debug and Zeroize for OutputReader: C16 / C17",
            "configurations B and D (no AVX-512 arm in xof_many; same fallback loop) are not run; configuration C "
            "(portable only) is run in the thorough tier",
        ],
        "assumptions": [
            SIMD_ASSUMPTION + " - here: crate::avx512::xof_many (prelude/kernels.rs) writes, for out.len() % 64 == 0 and "
            "counter + out.len()/64 <= 2^64-1, block j of `out` = compress_xof(cv, block, block_len, counter + j, flags); "
            "sse2/sse41/avx512 compress_xof likewise",
            EXTRACTION,
            "R9: core::mem::take(buf) on `&mut &mut [u8]` is vf_take_mut_slice (prelude/iomodel.rs): returns the stored "
            "reference (same target: final(result)@ == final(*old(buf))@) and leaves an empty slice in *buf",
            "R15: std::io::Error::new(kind, msg) is vf_io_error_new (total, no effect); std::io::Error is an opaque "
            "external type, io::ErrorKind and io::SeekFrom are std's enums (external_type_specification). Which "
            "ErrorKind / message the error carries is not part of the property and not specified",
            "R19b: `for out_block in out.chunks_exact_mut(BLOCK_LEN) { .. }` is the index loop `vf_n = out.len() / "
            "BLOCK_LEN; for vf_i in 0..vf_n { let out_block = &mut out[vf_i*BLOCK_LEN..(vf_i+1)*BLOCK_LEN]; .. }` "
            "(std's documented chunks_exact_mut semantics)",
            "@subst in Platform::xof_many: `out_block.try_into().unwrap()` (TryFrom<&mut [u8]> for &mut [u8; 64], which "
            "succeeds iff the length is 64) is `vf_array_mut_ref::<_, {BLOCK_LEN}>(&mut (out_block)[..], 0)`, whose "
            "precondition 0 + 64 <= out_block.len() is the obligation replacing the unwrap",
            "R13: `impl std::io::Read / Seek for OutputReader` are emitted as inherent fns Read__read / Seek__seek, "
            "bodies verbatim; R3: cmp::min inlined as std defines it on integers; `u64::max_value()` is `u64::MAX`",
            TYPE_ASSUMPTION,
        ],
    },
}
