PROPS = {
    "C04": {
        "level": "proof",
        "design_ref": "4.4",
        "technique": "Verus contracts that are generic in the Platform value, repeated for the build configurations A-D",
        "level_text": "unbounded deductive proof modulo C05: every Platform method has a postcondition that does not mention "
                      "the platform (== the spec's compression), simd_degree is only known to be 1/4/8/16 <= MAX_SIMD_DEGREE, "
                      "and every caller (tree code, Hasher, OutputReader) is verified for an ARBITRARY platform value; the "
                      "extraction is repeated for configurations A (AVX-512 asm, degree 16), B (pure, 8), C (no SIMD, 1/2), "
                      "D (NEON, 4) so that array sizes, MAX_SIMD_DEGREE asserts and buffer obligations are discharged for each",
        "level_note": "NOT decided: that the linked kernels satisfy their contract (C05, assumed); build.rs feature->cfg mapping "
                      "and Platform::detect's CPUID logic are outside any contract (trusted)",
        "units": {"quick": [v("tree"), v("tree", "B"), v("tree", "C"), v("hasher"), v("xof"), v("spec_lemmas"), v("tree_lemmas"), g("kernels")],
                  "thorough": [v("tree", "B"), v("tree", "C"), v("tree", "D"), v("hasher", "B"), v("hasher", "C"),
                               v("hasher", "D"), v("xof", "C"), s("C04")]},
        "explanation": "The result of hash / Hasher / OutputReader is proved equal to a platform-independent spec function "
                       "for all Platform values and SIMD degrees; configurations differ only in constants and in which "
                       "(assumed) kernel is called.",
        "uncovered": ["kernel correctness (C05): assumed; the kernel sources are pinned by sha256 (guard:kernels) and a change of them is decided only by the directed search (platform family over all SIMD feature sets)", "build.rs / Cargo feature plumbing", "CPU feature detection",
                      "prefer_intrinsics vs assembly flavours differ only in which assumed kernel is linked"],
        "assumptions": [SIMD_ASSUMPTION, EXTRACTION],
    },
}
