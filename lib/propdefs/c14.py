PROPS = {
    "C14": {
        "level": "proof",
        "design_ref": "4.7",
        "technique": "Verus function contracts on the real Hash conversion / comparison functions against a spec of the "
                     "hex text form written from the property statement (spec/hex_spec.rs)",
        "level_text": "unbounded deductive proof (Verus/z3), for all byte arrays, slices and strings: to_hex/Display give "
                      "exactly hex_lower(bytes) (64 chars, high nibble first, 0-9a-f); from_hex/from_str return Ok IFF the "
                      "input is 64 hex digits of either case, then byte i = 16*val(2i)+val(2i+1), otherwise Err, with every "
                      "index, subtraction, `16*..+..` and ArrayString::push capacity check discharged (no panic); from_slice "
                      "Ok IFF len == 32; the three eq impls return (bytes equal); round trips to_hex->from_hex, "
                      "to_hex->from_str, Hash->[u8;32]->Hash, as_slice->from_slice are verified compositions of those "
                      "contracts",
        "level_note": "trusted: Verus+z3, extraction rules (R13, R13b, R14, R19, R20), assumed contracts of "
                      "arrayvec::ArrayString (new/push/as_str), constant_time_eq{,_32} (= byte equality; constant TIME is out "
                      "of scope), <[T;N] as TryFrom<&[T]>>::try_from, fmt::Formatter::write_str / debug_tuple / DebugTuple, "
                      "vstd's str model (as_bytes = UTF-8 encoding)",
        "units": {"quick": [v("hashconv"), g("hash_serde_derive")], "thorough": [k("from_hex"), s("C14")]},
        "explanation": "Verus proves, for all inputs, postconditions copied from the property text for the mechanically "
                       "extracted bodies of Hash::{as_bytes, from_bytes, as_slice, from_slice, to_hex, from_hex (with its "
                       "nested hex_val)}, From<[u8;32]> for Hash, From<Hash> for [u8;32], FromStr::from_str, the three "
                       "PartialEq::eq impls, Display::fmt and Debug::fmt of Hash. from_hex's contract is an equivalence "
                       "(Ok <=> 64 bytes, all in 0-9a-fA-F), so both a wrongly accepted and a wrongly rejected input fail "
                       "the proof; absence of panics follows from the discharged bounds/overflow/capacity obligations. The "
                       "round-trip functions in contracts/hashconv.vc call the real functions in sequence and are verified "
                       "to return the original bytes, using lemma_hex_round_trip (proved, spec/hex_spec.rs).",
        "uncovered": [
            "serde Serialize/Deserialize of Hash (sequence form and legacy byte-string form): macro-generated, "
            "feature-gated code outside the extractor's reach - not decided here",
            "from_str: the contract is stated on the string's UTF-8 bytes (vstd: as_bytes == encode_utf8); that a str "
            "whose bytes are 64 hex digits consists of exactly 64 ASCII characters is UTF-8 reasoning not done here "
            "(the to_hex -> from_str round trip IS proved)",
            "trait dispatch itself (that `a == b`, `.into()`, `.parse()`, `{}` reach these impls) is rustc's name "
            "resolution, not modelled (R13)",
            "Display for HexError (error text) and #[derive(Hash, Eq, Clone, Copy)] on Hash",
        ],
        "assumptions": [
            EXTRACTION,
            "R14: `hex: impl AsRef<[u8]>` is taken as `hex: &[u8]` and `hex.as_ref()` as `hex` (std: AsRef<[u8]> for "
            "[u8], [u8; N], Vec<u8>, str, String returns the bytes); in from_str `Hash::from_hex(s)` is rewritten to "
            "`Hash::from_hex(s.as_bytes())` (AsRef<[u8]> for str is as_bytes)",
            "R13 call resolution: `Hash::from(hash_bytes)` in from_hex is the extracted inherent twin "
            "`Hash::From_u8_OUT_LEN__from`; `Self::Err` in from_str is `HexError`",
            "R13b: `impl From<Hash> for [u8; OUT_LEN]` is emitted as the free fn `u8_OUT_LEN__From_Hash__from` with "
            "`Self` spelled out (no inherent impl is possible on an array type)",
            "R20: the byte-string literal b\"0123456789abcdef\" is emitted as the array literal of its bytes (Verus knows "
            "only the length of a byte-string literal); the bytes are re-read from the source on every run",
            "the nested fn hex_val gets its contract (Ok <=> is_hex(byte), value = hex_val(byte)) through a signature "
            "substitution; its body is verified",
            "arrayvec::ArrayString<CAP>: view Seq<char>; CAP counts bytes; push requires the UTF-8 length to fit "
            "(obligation), as_str returns the same characters",
            "constant_time_eq::constant_time_eq / constant_time_eq_32 return true iff the byte sequences are equal",
            "<[T; N] as TryFrom<&[T]>>::try_from is Ok iff len == N and then holds the same elements; `?` on its Err "
            "returns that Err",
            "fmt::Formatter::write_str appends the string to the formatter's text when it returns Ok; "
            "Formatter::debug_tuple / DebugTuple::{field, finish}: ghost log of the values passed (prelude/hashconv.rs)",
        ],
    },
}
