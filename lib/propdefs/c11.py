PROPS = {
    "C11": {
        "level": "proof",
        "design_ref": "4.8",
        "technique": "Verus function contracts on the real io::copy_wide / Hasher::update_reader / Write::write / "
                     "Write::flush / io::maybe_mmap_file / Hasher::update_mmap{,_rayon} bodies, against a universally "
                     "quantified reader (trait VfRead with a ghost log) and a File / Mmap environment model, on top of the "
                     "Hasher::repr contracts of C02 (assumed in the io unit, verified by the hasher unit in the same run)",
        "level_text": "unbounded deductive proof (Verus/z3) for EVERY reader: the reader is a trait parameter whose `read` "
                      "is specified only by std's documented contract (Ok(n): n <= buf.len(), the n bytes are appended to "
                      "the ghost log, the rest of buf untouched; Err: nothing consumed), so every sequence of short reads, "
                      "Interrupted, hard errors and Ok(0) is covered by one proof, not enumerated. copy_wide / "
                      "update_reader: at EVERY exit the hasher represents m ++ (log' - log0) for every m it represented "
                      "before (exactly the bytes yielded, none lost, none duplicated); Ok(total) is returned only after "
                      "exactly one read returned Ok(0), with total == |log' - log0| (no u64 overflow) and no hard error "
                      "swallowed; the loop continues after Interrupted with nothing absorbed (loop invariant: eofs and "
                      "hard_errors unchanged inside the loop); the first error that is not Interrupted is the one "
                      "returned. Write::write returns Ok(input.len()) with update's postcondition, flush changes nothing. "
                      "maybe_mmap_file on a fresh File: Ok(Some(map)) ==> map@ == the whole content (the length passed to "
                      "MmapOptions::len is offset_len + 16383 == |content|, the `as usize` cast and the addition are "
                      "overflow obligations), Ok(None) ==> the cursor is at 0 with nothing read (short file: seek error; "
                      "exactly 16383 bytes: seek returns 0; unseekable; too long; unmappable: rewind), for every file "
                      "length; update_mmap and update_mmap_rayon then leave repr(m ++ content) on Ok whichever branch ran, "
                      "and a prefix (exactly the bytes read before the error) on Err; a verified composition calls the "
                      "real update_reader on a freshly opened File and has, word for word, the same postcondition",
        "level_note": "trusted: Verus+z3, extraction rules, prelude/readermodel.rs (VfRead = std's Read contract; "
                      "vf_fs::File / Path and memmap2::{Mmap, MmapOptions} = POSIX lseek / read / mmap on an unchanging "
                      "regular file, pipes as unseekable, /sys-style files as unmappable), io::Error::kind and ErrorKind's "
                      "PartialEq; termination is NOT claimed (exec_allows_no_decreases_clause: an endless reader is "
                      "legal); domain: the source plus what the hasher already absorbed is shorter than 2^64 bytes",
        "units": {"quick": [v("spec_lemmas"), v("io"), v("hasher"), v("xof"), v("tree")], "thorough": [v("io", "C", vacuity=False), s("C11")]},
        "cone": [r"crate::io::", r"crate::Hasher::update_reader", r"crate::Hasher::update_mmap",
                 r"crate::Hasher::Write__", r"vf_update_reader_fresh_file", r"\(contract\)"],
        "explanation": "Reader model (prelude/readermodel.rs): trait VfRead with ghost observables log() (all bytes "
                       "yielded), eofs() (reads into a non-empty buffer that returned Ok(0)), hard_errors() (errors other "
                       "than Interrupted), last_error(), limit() (bound on |log|, unchanged by reading), inv() and "
                       "source() (the reader's own invariant / what reading never changes; trivial for a plain reader, "
                       "the File model uses them). copy_wide's loop invariant is sp_absorbed(h0, hasher, log0, log): "
                       "log0 is a prefix of log, same mode, total_len grew by |log| - |log0|, and forall m. h0.repr(m) ==> "
                       "hasher.repr(m ++ log[|log0|..]); eofs and hard_errors are unchanged inside the loop, `total == "
                       "|log| - |log0|`. The Ok(n) arm re-establishes it from Hasher::update's contract for "
                       "&buffer[..n]; update's preconditions (total < 2^64, hazmat subtree budget) follow from the "
                       "precondition 'what was absorbed plus what the source can still yield <= 2^64-1' via limit(). "
                       "File model: ghost content (fixed), start (cursor after open / the last successful seek), log "
                       "(bytes read since; cursor = start + |log|), seekable, mappable; invariant: log == "
                       "content[start..cursor], Ok(0) only at the end. seek(End(d <= 0)) succeeds exactly with "
                       "|content| + d >= 0 on a seekable file and otherwise fails leaving everything unchanged. "
                       "MmapOptions::map with len = l shows the first l bytes of the file. From these, maybe_mmap_file's "
                       "real body is proved to map the whole file or leave the cursor at 0, and update_mmap{,_rayon} to "
                       "absorb exactly the content. The vacuity twin shows no contract or model clause is contradictory.",
        "uncovered": [
            "whether the operating system behaves like the File / Mmap model: files modified, truncated or extended "
            "while being hashed (the content is assumed fixed; with mmap a truncation is a SIGBUS), special files whose "
            "seek result does not describe what read delivers (/dev/random, /dev/zero: seek returns 0 and the code falls "
            "back to reads, which is the None branch of the model, but their 'content' is endless), directories (open "
            "succeeds, read fails with EISDIR: a hard error in the reader model, but lseek on a directory is not "
            "modelled), a failed lseek that moves the cursor (POSIX says it does not)",
            "termination / progress: an endless reader never returns; a reader that returns Interrupted forever spins. "
            "Not claimed by the property ('until end of file')",
            "the by-value reader: copy_wide / update_reader take `impl Read` by value; the contracts are stated for the "
            "instantiation `&mut R` (std: `impl<R: Read> Read for &mut R` forwards), because a postcondition cannot name "
            "the final state of a consumed value. `io::copy_wide(&file, self)` (Read for &File) is `&mut file` in the model",
            "sources of 2^64 bytes or more (precondition sp_can_absorb): Hasher::update itself is specified below 2^64 "
            "bytes; `total += n as u64` is proved not to overflow inside that domain only",
            "that Ok(0) from a reader means end of file is std's convention; the contract says exactly 'Ok is returned "
            "after the first read that returned Ok(0) into the (non-empty, 65536-byte) buffer'",
            "b3sum's use of these methods (which one it picks, --no-mmap): C12 / C13",
            "configurations B, D; configuration C runs in the thorough tier",
        ],
        "assumptions": [
            "std::io::Read::read (trait VfRead in prelude/readermodel.rs): Ok(n) ==> n <= buf.len(), buf[..n] are the "
            "next n bytes of the source (appended to the ghost log), buf[n..] unchanged; Err(_) ==> nothing was "
            "consumed; no other constraint (any pattern of outcomes)",
            "std::io::Error::kind returns a fixed kind of the (opaque) error; ErrorKind's derived PartialEq is equality "
            "of variants",
            "File / Path model (vf_fs in prelude/readermodel.rs) stands for std::fs::File / std::path::Path: content "
            "fixed while open; open puts the cursor at 0; seek(SeekFrom::End(d)), d <= 0: Ok(|content| + d) and cursor "
            "there iff seekable and |content| + d >= 0 (may also fail, then nothing changes); rewind: cursor 0 or "
            "failure with nothing changed; stream_position: the cursor; read: the bytes at the cursor, Ok(0) on a "
            "non-empty buffer only at the end. Only `seek(End(d <= 0))` is modelled (precondition), the only form used",
            "memmap2 model: MmapOptions::new().len(l).map(&file): Ok(m) ==> mappable, |m| == l, m[i] == content[i] for "
            "i < min(l, |content|); fails on unmappable files; Mmap derefs to its bytes. `unsafe` and the generic "
            "MmapAsRawDesc parameter are dropped (rule R16 / monomorphic model)",
            "@subst (call resolution): `mut reader: impl io::Read` / `reader: impl std::io::Read` -> `reader: &mut R` "
            "with `R: VfRead`; `path: impl AsRef<std::path::Path>` + `path.as_ref()` -> `path: &Path` + `path` (rule R14 "
            "for paths); `std::fs::File::open(..)` -> the model's `File::open(..)`; `io::copy_wide(&file, self)` -> "
            "`io::copy_wide(&mut file, self)`",
            "R13: `impl std::io::Write for Hasher` is emitted as inherent fns Write__write / Write__flush; `self.update(..)` "
            "inside resolves to the inherent Hasher::update (inherent methods win); the provided methods of io::Write "
            "(write_all, write_fmt, ...) are std code built on write and not modelled",
            "`cfg!(debug_assertions)` is evaluated as true (R12): the debug assertion `position == 0` in "
            "maybe_mmap_file is an obligation, discharged from the precondition 'freshly opened file'",
            "the Hasher contracts (contracts/hasher.vc: update, update_rayon; repr, total_len, same_mode) are assumed in "
            "the io unit and verified by the hasher unit of the same run",
            SIMD_ASSUMPTION, TYPE_ASSUMPTION, EXTRACTION,
        ],
    },
}
