PROPS = {
    "C08": {
        "level": "proof",
        "design_ref": "7 (C08)",
        "technique": "Verus: compress_subtree_wide / update_with_join verified generically in J: Join, in both sequential orders of the two recursive calls; Join trait contract; frames from split_at_mut",
        "level_text": "unbounded deductive proof for the Rust side: the two halves of every recursive split write disjoint "
                      "halves of cv_array (split_at_mut) and read shared immutable slices; the function is verified with "
                      "the left call first and with the right call first (rule R5, both emitted), modularly, so every "
                      "assignment of orders to the nodes of the split tree yields the same postcondition (== spec); "
                      "SerialJoin::join's body is verified against the Join contract",
        "level_note": "rayon_core::join (RayonJoin::join) is ASSUMED to meet the Join contract and to be data-race free; "
                      "interleavings are argued from frames + Rust aliasing rules, not explored; the C/C++ TBB half is not "
                      "applicable (C++); on the C side the frames of the two leaf functions (compress_chunks_parallel / compress_parents_parallel write only their own output window - the non-interference of the two halves), blake3_hasher_update_base for every value of use_tbb, and  blake3_hasher_update_tbb (same contract as blake3_hasher_update) and the "
                      "-DBLAKE3_USE_TBB build of blake3_compress_subtree_wide are checked against an assumed contract of the "
                      "oneTBB join seam; update_mmap_rayon (unit io) == update_reader on a freshly opened file",
        "units": {"quick": [v("tree"), v("tree", "A", join_order="rl"), v("hasher"), v("spec_lemmas"), v("io"),
                            c("blake3_hasher_update_tbb"), c("blake3_compress_subtree_wide_tbb"), c("blake3_hasher_update_base"),
                            c("compress_chunks_parallel"), c("compress_parents_parallel"), g("c_statics"), g("tbb_seam")],
                  "thorough": [v("hasher", "A", join_order="rl"), s("C08")]},
        "explanation": "update_rayon == update_with_join::<RayonJoin>; both are instances of the generic function proved once "
                       "for all J. Determinism under every schedule follows from: results are functions of the inputs "
                       "(postcondition == spec), frames are disjoint, inputs are immutable.",
        "uncovered": ["real thread interleavings / data-race detection (no tool on this image explores them)",
                      "c/blake3_tbb.cpp and blake3_hasher_update_tbb (C++)", "thread-pool sizes"],
        "assumptions": [SIMD_ASSUMPTION, TYPE_ASSUMPTION, EXTRACTION,
                        "rayon_core::join(a, b) returns (a(), b()), each closure run exactly once"],
    },
}
