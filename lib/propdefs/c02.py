PROPS = {
    "C02": {
        "level": "proof",
        "design_ref": "4.2",
        "technique": "Verus representation invariant Hasher::repr(m) ('this hasher has absorbed m') re-established by update for every prior state and input; finalize/finalize_xof/count are functions of repr",
        "level_text": "unbounded deductive proof (Verus/z3): constructors establish repr([]); update(input) maps repr(m) to "
                      "repr(m ++ input) for EVERY prior state and EVERY input (so any number of updates of any sizes is an "
                      "induction, not an enumeration); finalize == hash32(root_out(m)) , finalize_xof's node == root_out(m), "
                      "count() == |m| -- the same spec functions the one-shot functions are proved against (C01), hence "
                      "equal by transitivity; update_rayon goes through the same generic update_with_join",
        "level_note": "trusted: Verus+z3, extraction rules, ArrayVec model (push requires len < CAP), std intrinsics, SIMD "
                      "kernels assumed (C05); &self purity and derive(Clone) by Rust's type system; domain: total input < 2^64 bytes",
        "units": {"quick": [v("hasher"), v("tree"), v("spec_lemmas")], "thorough": [v("hasher", "C"), v("tree", "C"), v("hasher", "B"), v("hasher", "D"), k("deps_models"), k("largest_power_of_two_leq"), s("C02")]},
        "explanation": "Hasher::repr(m): chunk_state represents m[1024T..], the CV stack is the spine decomposition "
                       "(sp_stack_ok) of the T complete chunks with sizes sp_sizes(T, n) that are strictly decreasing powers "
                       "of two except possibly the last two (lazy merging), ties to popcount proved as lemmas. merge_cv_stack, "
                       "push_cv, update_with_join (both loops), final_output, finalize, finalize_xof, count, constructors are "
                       "verified bodies; every ArrayVec::push capacity, pop().unwrap(), index, arithmetic and (debug_)assert "
                       "is an obligation.",
        "uncovered": ["update_reader / update_mmap*: property C11", "Write::write: see C11/C16",
                      "finalize on clones: derive(Clone) copies field-wise (type-system assumption)"],
        "assumptions": [SIMD_ASSUMPTION, TYPE_ASSUMPTION, EXTRACTION],
    },
}
