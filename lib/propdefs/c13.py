STR_MODEL = ("vstd's native model of `str` (Verus 0.2026.09.13): `s@` is a Seq<char>, `s.len()` is the length of "
             "`vstd::utf8::encode_utf8(s@)` in BYTES, `chars()/next()` walk the chars, `&s[a..b]` requires both ends to be "
             "char boundaries; vstd gives `<str as Index<Range*>>::index` only that precondition, so its postcondition "
             "(vstd's own `index_postcondition`: the result's bytes are the byte sub-range) is added as an "
             "assume_specification; `axiom_str_len_bound`: a str is at most isize::MAX bytes (std allocation limit)")
R18_WRAPPERS = [
    "vf_find_char == str::find(char): None iff the char does not occur; Some(i) => i is the BYTE offset "
    "sp_blen(s@.take(k)) of the FIRST occurrence k (hence a char boundary)",
    "vf_contains_char == str::contains(char): s@.contains(c)",
    "vf_contains_chars == str::contains([char; N]): some char of s@ is one of the N chars",
    "vf_starts_with_str == str::starts_with(&str): the pattern's chars are a prefix of s@",
    "vf_split_once_str == str::split_once(&str): None iff the pattern does not occur; Some((a, b)) => s@ == a@ + pat@ + b@ "
    "and the pattern occurs at no char index < a@.len() (FIRST occurrence)",
    "vf_rsplit_once_str == str::rsplit_once(&str): as above with no occurrence at an index > a@.len() (LAST occurrence)",
    "vf_trim_end_matches_chars == str::trim_end_matches([char; N]): the result is the prefix of s@ such that every "
    "removed char is a listed char and the last kept char is not",
    "vf_replace_char == str::replace(char, &str): every occurrence of the char replaced by the string, left to right "
    "(sp_replace_char)",
    "vf_string_with_capacity == String::with_capacity(n): an empty String (allocation failure / capacity overflow, "
    "i.e. a line longer than 2^62 bytes, is outside the model)",
]

PROPS = {
    "C13": {
        "level": "proof",
        "design_ref": "4.12",
        "technique": "Verus function contracts on the mechanically extracted checkfile functions of b3sum/src/main.rs "
                     "against a Seq<char> specification of the checkfile format, over vstd's UTF-8-aware str model; "
                     "the clauses of the property are proof fns (theorems) about that specification",
        "level_text": "unbounded deductive proof (Verus/z3), for every &str line / every path string: parse_check_line "
                      "returns exactly sp_parse(line) (never panics: every unwrap, str slice boundary, index and "
                      "arithmetic operation in it and its callees is a discharged obligation), filepath_to_string "
                      "returns the documented escaping, and sp_parse(sp_line(path, hash, form, eol)) == (path, hash) "
                      "for both output forms, escaped or not, LF or CRLF; and the printing side: for every path and "
                      "every Args not in --raw / --no-names mode, a successful hash_one_input appends to stdout exactly "
                      "sp_line(lossy path, hash bytes, --tag?, LF) -- the escape marker first iff filepath_to_string "
                      "says escaped, in BOTH forms -- which for a 32-byte hash and a checkable path parses back "
                      "(sp_parse) to that path and hash; a failed call prints nothing",
        "level_note": "trusted: Verus+z3, the extraction rules (R2, R12, R17, R18, R19d), the assumed contracts of the "
                      "std str/String/Path methods listed under assumptions, the model of blake3::Hash::from; for the "
                      "printing side rule R21 (print!/println! with a literal format string -> writes to a ghost stdout "
                      "log threaded through hash_one_input / write_hex_output / write_raw_output) and the assumed "
                      "contracts of OutputReader::fill, hex::encode, Display of String/&str",
        "units": {"quick": [v("b3sum")], "thorough": [s("C13")]},
        "cone": [r"^crate::(parse_check_line|unescape|hex_half_byte|check_for_invalid_characters|"
                 r"split_untagged_check_line|split_tagged_check_line|filepath_to_string|hash_one_input|write_hex_output|"
                 r"Args::(raw|tag|no_names|len))$", r"^\(contract\)"],
        "explanation": "The unit is assembled on every run from the real b3sum/src/main.rs (hex_half_byte, "
                       "check_for_invalid_characters, unescape, split_untagged_check_line, split_tagged_check_line, "
                       "parse_check_line, filepath_to_string and the two structs). Postconditions come from the "
                       "property text: spec/checkfile_spec.rs defines sp_parse (strip CR/LF, leading backslash = "
                       "escaped, a --tag-shaped line is split at the LAST ') = ' after 'BLAKE3 (', any other line at "
                       "the FIRST '  ', hash field = exactly 64 lowercase hex chars, path = sp_unescape(file field) "
                       "or the field itself, path non-empty without NUL/U+FFFD) and proves parse_check_line(line) == "
                       "sp_parse(line@) for all lines: Ok carries the decoded hash, the path and the flag, Err is "
                       "returned exactly when sp_parse is None. Because vstd's str model distinguishes byte length "
                       "from char count, `hash_hex.len() == 64` followed by 64 `chars().next().unwrap()` is an "
                       "obligation that only holds if a missing char is an error return. unescape, hex_half_byte, "
                       "check_for_invalid_characters and both split functions have exact functional contracts "
                       "(sp_unescape: \\\\ -> \\, \\n -> LF, \\r -> CR, anything else after a backslash or a dangling "
                       "backslash is an error). Proved theorems about the specification: lemma_parse_ok_shape (a "
                       "successful parse has one of the two shapes with 64 lowercase hex digits and the documented "
                       "unescaping; an empty line, wrong-length / non-hex / non-ASCII hash field, invalid or dangling "
                       "escape, empty path, NUL or U+FFFD give None), lemma_escape_is_replace3 (filepath_to_string's "
                       "three chained replace calls are the per-char escaping), lemma_roundtrip (every printed line "
                       "parses back to the same path and hash) and lemma_no_confusion (two different paths never "
                       "parse to the same path). The printing side is under contract too: rule R21 turns every "
                       "print!/println! of the extracted hash_one_input and write_hex_output into writes to a ghost "
                       "stdout log (`print!(\"BLAKE3 ({}) = \", s)` -> write \"BLAKE3 (\", write Display(s), write \") = \"; "
                       "println! appends \"\\n\"), in program order, so the ORDER of the statements of hash_one_input is "
                       "what is verified. write_hex_output (real body, loop invariant over the XOF stream model of C03) "
                       "appends sp_hex_encode of the next --length stream bytes; this includes the obligation that "
                       "`&hex_str[..2 * take_bytes]` cuts the hex String at a char boundary. hash_one_input (real body) "
                       "has the postcondition sp_prints_line(old stdout, new stdout, sp_path_lossy(path), h, args.tag) for "
                       "some h of --length bytes whenever it returns Ok outside --raw / --no-names: new stdout == old "
                       "stdout + sp_line(path, h, tag, LF) where sp_line starts with the backslash marker iff "
                       "sp_needs_escape(path) in the plain AND the --tag form, and (via lemma_roundtrip, called in the "
                       "body's proof) sp_parse of that line is (path, h) when h has 32 bytes and the path is non-empty "
                       "without NUL / U+FFFD; --no-names prints the hex and LF only; Err leaves stdout unchanged. "
                       "Args::raw/tag/no_names/len are verified getters of the real struct Inner.",
        "uncovered": [
            "the printed hash is 'the next --length bytes of the OutputReader hash_path returned' (h is existentially "
            "quantified in hash_one_input's postcondition): that this stream is the BLAKE3 hash of the file's contents is "
            "C01/C02/C03/C11 on the blake3 crate plus the assumed contract of hash_path, not decided here",
            "hash_one_input is proved under `seek + length + 64 <= u64::MAX` (write_hex_output always fills whole 64-byte "
            "blocks, so closer to the end of the stream it would leave the domain of OutputReader::fill's contract); the "
            "default --seek 0 --length 32 is inside",
            "--raw output (bytes, not text) is not described; b3sum prints LF only, so CRLF-terminated lines are covered by "
            "lemma_roundtrip over the specification (crlf = true), not by the print contract",
            "stdout itself (buffering, flush, a closed pipe -- print! panics on a write error), the loop in main that "
            "calls hash_one_input per path and the eprintln! diagnostics are outside the unit",
            "`OsStr -> lossy String` (Path::to_string_lossy) and `String -> PathBuf` are uninterpreted (sp_path_lossy, "
            "sp_pathbuf_str): 'paths that are not valid Unicode are rejected at check time' is decided only as 'a "
            "path string containing U+FFFD is rejected', relying on std's documented lossy conversion",
            "check_one_line / check_one_checkfile / main (clap, file IO, line splitting of the checkfile, exit status) are "
            "outside the unit (C12)",
            "Windows-only branches (cfg!(windows): backslash normalisation and rejection) are evaluated as false "
            "(configuration A: unix)",
        ],
        "assumptions": [STR_MODEL] + R18_WRAPPERS + [
            "R17: anyhow::Result<T> -> Result<T, VfErr>, bail!(..) -> return Err(vf_err()), ensure!(c, ..) -> "
            "if !(c) { return Err(vf_err()); }: error messages are dropped, an error is an opaque value",
            "R18: the Pattern-generic str methods are renamed to the monomorphic wrappers above by @gsubst lines of "
            "contracts/b3sum.vc (the argument type selects the wrapper; a different argument type is a type error = "
            "undecided)",
            "R19d: `for byte in &mut hash_bytes` (IntoIterator for &mut [u8; 32]) is rewritten to an index loop over "
            "`&mut hash_bytes[vf_i]` in index order",
            "blake3::Hash is modelled as a wrapper of [u8; 32] with From<[u8; 32]> storing the bytes (C14 decides that on "
            "the real crate); blake3::OUT_LEN == 32",
            "PathBuf::from(String) keeps the string (sp_pathbuf_str); Path::to_string_lossy yields sp_path_lossy(path); "
            "Cow<str>::to_string copies it",
            "R21 (extraction rule, unit option print_model = [hash_one_input, write_hex_output, write_raw_output]): these "
            "free functions get a first parameter `vf_out: &mut VfStdout` (a ghost Seq<char> log), calls of them pass it "
            "on, `print!(\"lit {} lit\", a)` becomes vf_stdout_write(vf_out, \"lit \"); vf_stdout_write_disp(vf_out, &(a)); "
            "vf_stdout_write(vf_out, \" lit\") and println! additionally writes \"\\n\"; only `{}` placeholders are inside "
            "the rule (anything else is an extraction error = undecided). ASSUMED: std's print!/println! write exactly "
            "these pieces in this order to the process's stdout",
            "vf_stdout_write appends the literal; vf_stdout_write_disp appends Display of the argument, where Display of "
            "String / str / &T is the string itself (std: `f.pad(s)` with no width / precision under `{}`)",
            "hash_path (verified in this unit for C12, see evidence/C12.json): a returned OutputReader is positioned at --seek; write_raw_output (verified for C12): the text log is untouched",
            "blake3::OutputReader is modelled by a stream identity and a position; `fill(buf)` has the contract the xof "
            "unit VERIFIES on the real crate for C03 (requires pos + len <= u64::MAX; buf := the next len stream bytes, "
            "pos += len, same stream); blake3::Hasher is an opaque type (only stored in Args); blake3::BLOCK_LEN == 64",
            "hex::encode(&[u8]) returns sp_hex_encode of the bytes (two lowercase hex digits per byte, high nibble first)",
            "@subst in write_hex_output: `&hex_str[..n]` on a String is resolved to `&hex_str.as_str()[..n]` (String's "
            "Index impl forwards to str's; vstd specifies only the latter)",
            "the structs Inner / Args are the real ones with clap's derive attributes dropped (attributes are not code); "
            "clap argument parsing, main, file and terminal IO are outside the unit",
            EXTRACTION,
        ],
    },
}
