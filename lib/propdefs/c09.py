PROPS = {
    "C09": {
        "level": "proof",
        "design_ref": "4.5",
        "technique": "Verus contracts on hazmat helpers and subtree functions against the tree-level spec",
        "level_text": "unbounded deductive proof (Verus/z3) over the real hazmat functions",
        "level_note": "trusted: Verus+z3, extraction rules, std intrinsics (next_power_of_two, trailing_zeros), SIMD kernels assumed (C05)",
        "units": {"quick": [v("hasher"), v("tree"), v("xof"), v("spec_lemmas"), v("group_lemmas"), k("left_subtree_len"), k("max_subtree_len")], "thorough": [v("hasher", "C"), s("C09")]},
        "cone": [r"crate::hazmat::", r"crate::Hasher::", r"crate::compress_subtree", r"crate::parent_node_output",
                 r"crate::Output::", r"\(contract\)"],
        "explanation": "left_subtree_len / max_subtree_len: closed forms on the whole stated domain (Verus + complete Kani "
                       "harnesses). set_input_offset(o) establishes repr([]) at chunk counter o/1024; update keeps repr for "
                       "any update sequence within max_subtree_len; finalize_non_root == sp_subtree_cv(m, o/1024): a "
                       "subtree's CV depends only on its bytes, offset and mode key, for offsets in [0, 2^64). "
                       "merge_subtrees_non_root/root/root_xof == parent CV / root hash / root stream. Composition "
                       "(lemma_decomp, lemma_decomp_root over an inductive decomposition datatype): every tree of splits at "
                       "left_subtree_len, leaves hashed by any hasher, reproduces sp_root_out(input).",
        "uncovered": ["fixed power-of-two groups are proved at the specification level (unit group_lemmas, spec/group_spec.rs): "
                      "for every power of two g and every input cut into consecutive groups of g chunks (last one shorter), the "
                      "group chaining values sp_subtree_cv(group i, t0 + g*i) -- what set_input_offset(1024*g*i) + update + "
                      "finalize_non_root is proved to return -- satisfy lemma_grouped_tree (their tree is sp_subtree_cv of the "
                      "input), lemma_grouped_covers (sp_covers, so lemma_pairwise_covers / lemma_covers_two apply) and "
                      "lemma_grouped_root (pairwise merge_subtrees_non_root layers until two remain, then the parent node == "
                      "sp_root_out(input), i.e. merge_subtrees_root / _root_xof). Not covered: the driver loop itself is the "
                      "caller's code (the crate only has it in a test); it is modelled by the spec fn sp_pairwise_until_two, "
                      "not extracted from Rust. Group sizes that are not a power of two are outside max_subtree_len's rule "
                      "and are not claimed"],
        "assumptions": [SIMD_ASSUMPTION, EXTRACTION],
    },
}
