PROPS = {
    "C09": {
        "level": "proof",
        "design_ref": "4.5",
        "technique": "Verus contracts on hazmat helpers and subtree functions against the tree-level spec",
        "level_text": "unbounded deductive proof (Verus/z3) over the real hazmat functions",
        "level_note": "trusted: Verus+z3, extraction rules, std intrinsics (next_power_of_two, trailing_zeros), SIMD kernels assumed (C05)",
        "units": {"quick": [v("tree"), v("tree_lemmas")], "thorough": []},
        "cone": [r"crate::hazmat::", r"crate::Hasher::", r"crate::compress_subtree", r"crate::parent_node_output",
                 r"crate::Output::", r"\(contract\)"],
        "explanation": "hazmat::left_subtree_len / max_subtree_len are proved against their closed forms on the whole "
                       "stated domain; subtree hashing functions are proved against the tree-level specification.",
        "uncovered": [],
        "assumptions": [SIMD_ASSUMPTION, EXTRACTION],
    },
}
