PROPS = {
    "C09": {
        "level": "proof",
        "design_ref": "4.5",
        "technique": "Verus contracts on hazmat helpers and subtree functions against the tree-level spec",
        "level_text": "unbounded deductive proof (Verus/z3) over the real hazmat functions",
        "level_note": "trusted: Verus+z3, extraction rules, std intrinsics (next_power_of_two, trailing_zeros), SIMD kernels assumed (C05)",
        "units": {"quick": [v("hasher"), v("tree"), v("xof"), v("spec_lemmas"), k("left_subtree_len"), k("max_subtree_len")], "thorough": [v("hasher", "C")]},
        "cone": [r"crate::hazmat::", r"crate::Hasher::", r"crate::compress_subtree", r"crate::parent_node_output",
                 r"crate::Output::", r"\(contract\)"],
        "explanation": "left_subtree_len / max_subtree_len: closed forms on the whole stated domain (Verus + complete Kani "
                       "harnesses). set_input_offset(o) establishes repr([]) at chunk counter o/1024; update keeps repr for "
                       "any update sequence within max_subtree_len; finalize_non_root == sp_subtree_cv(m, o/1024): a "
                       "subtree's CV depends only on its bytes, offset and mode key, for offsets in [0, 2^64). "
                       "merge_subtrees_non_root/root/root_xof == parent CV / root hash / root stream. Composition "
                       "(lemma_decomp, lemma_decomp_root over an inductive decomposition datatype): every tree of splits at "
                       "left_subtree_len, leaves hashed by any hasher, reproduces sp_root_out(input).",
        "uncovered": ["fixed power-of-two groups are covered only as recursive decompositions that split at left_subtree_len; "
                      "the 'pairwise layer' driver used in the crate's own test (lemma_pairwise_tree exists) is not tied to "
                      "an arbitrary group size by a lemma"],
        "assumptions": [SIMD_ASSUMPTION, EXTRACTION],
    },
}
