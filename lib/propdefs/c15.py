PROPS = {
    "C15": {
        "level": "proof",
        "design_ref": "4.9",
        "technique": "Verus function contracts on the whole of reference_impl/reference_impl.rs against the same "
                     "spec-function transcription of the BLAKE3 paper the optimized crate is proved against (C01); "
                     "the published vectors by evaluation of that verified code plus an independent oracle",
        "level_text": "unbounded deductive proof (Verus/z3) for the Rust reference implementation: for every key/flags, "
                      "every input of fewer than 2^64 bytes, EVERY sequence of update calls (the contract of update "
                      "quantifies over the prior state: forall m. old.repr(m) ==> final.repr(m + input)) and EVERY "
                      "output length, finalize writes out[i] == sp_stream_byte(sp_root_out(m, key, flags), i), with "
                      "new / new_keyed / new_derive_key fixing (key, flags) to the spec's three modes (sp_mode_hash / "
                      "sp_mode_keyed / sp_mode_derive over the UTF-8 bytes of the context); every arithmetic "
                      "operation, shift, index (cv_stack[..] with cv_stack_len == popcount(chunks) <= 54), slice, "
                      "copy_from_slice length, debug_assert and loop termination in the file is an obligation. "
                      "The 35 x 3 published vectors (131 bytes each) are EVALUATED (level bounded, 105 evaluations): "
                      "recomputed with the real reference_impl crate built from the working tree and compared with "
                      "test_vectors.json, and test_vectors.json compared with oracle/b3spec.py",
        "level_note": "trusted: Verus+z3, extraction rules (R2, R3, R4, R19 incl. the new forms R19e/f/g), std "
                      "intrinsics (rotate_right, from/to_le_bytes, slice->array try_into().unwrap()), vstd's str model "
                      "(as_bytes == UTF-8 encoding), rustc/cargo for the evaluated binary",
        "units": {"quick": [v("refimpl"), e("vectors")], "thorough": [s("C15")]},
        "explanation": "The Verus unit `refimpl` extracts all 24 functions of reference_impl.rs mechanically and verifies "
                       "their bodies: g / round / permute / compress equal sp_g / sp_round / sp_compress (the 7 rounds "
                       "with permute in between are the spec's sp_rounds over the iterated schedule sp_sched(r): lemma "
                       "'after r permutes block[i] == m[sp_sched(r)[i]]', MSG_PERMUTATION checked against the paper's "
                       "table); words_from_little_endian_bytes == sp_words; Output::chaining_value == sp_out_cv; "
                       "Output::root_output_bytes writes sp_stream_byte(node, i) for every i < out.len() (block counter "
                       "= i / 64, partial last word); ChunkState::{new,len,start_flag,update,output} against "
                       "sp_chunk_fold / sp_chunk_out (CHUNK_START on the first block only, CHUNK_END on the last, the "
                       "last block never compressed early); parent_output / parent_cv == sp_parent_out / sp_parent_cv; "
                       "Hasher: invariant repr(m) = {chunk_state holds m[1024*T..] with T = chunk_counter, non-empty "
                       "unless T == 0; the eager stack equals sp_estack(m, T, 1): one sp_subtree_cv per set binary "
                       "digit of T over the aligned slice of m, largest first; cv_stack_len == popcount(T) <= 54}; "
                       "add_chunk_chaining_value's trailing-zero merge loop is proved with lemma_unit_merge (two "
                       "adjacent complete subtrees of 2^j chunks are the children of the subtree of 2^(j+1) chunks, "
                       "from lemma_subtree_split + lp2 of a power of two); finalize's fold over the stack is proved "
                       "equal to sp_root_out(m) by lemma_efold_estack (induction over the binary digits of T, "
                       "lemma_lp2_concat for each right edge). Verified wrappers vf_c15_hash / vf_c15_keyed_hash / "
                       "vf_c15_derive_key compose new*, update over an arbitrary list of pieces and finalize into the "
                       "property statement out == sp_stream(sp_mode_*(concatenation)). Because src/lib.rs (C01) and "
                       "the C code (C06) are tied to the same spec functions, agreement with reference_impl follows. "
                       "The eval unit `vectors` builds the real crate and compares all 105 published outputs.",
        "uncovered": [
            "the published vectors are decided by EVALUATION of the verified reference implementation (105 runs) and "
            "of the Python oracle, not by a symbolic proof about the JSON text; the JSON's own `key` and "
            "`context_string` fields are taken as 'the stated key and context'",
            "inputs of 2^64 bytes or more (precondition total_len + input.len() <= u64::MAX; the 54-entry stack and the "
            "u64 chunk counter are only claimed below that)",
            "'ports validated against either are validated against BLAKE3' is a consequence drawn from C01/C06/C15 "
            "sharing one specification; it is not a separate obligation",
            "the doc-test in the file header and reference_impl/README.md are not checked",
        ],
        "assumptions": [
            EXTRACTION,
            "new extraction rules (general, index-loop forms of std iterators, same family as R19): "
            "R19e `for (a, b) in X.chunks_exact(K).zip(W)` -> i in 0..min(X.len()/K, W.len()): a = &X[i*K..(i+1)*K], "
            "b = &mut W[i]; R19f `for b in Y.chunks_mut(K)` -> consecutive pieces &mut Y[o..min(o+K, len)] (K != 0 is an "
            "obligation); R19g `for (a, b) in X.iter().zip(Y.chunks_mut(K))` -> i in 0..min(X.len(), ceil(Y.len()/K)): "
            "a = &X[i], b = &mut Y[i*K..min((i+1)*K, len)]. They rely on std's documented semantics of chunks_exact, "
            "chunks_mut, iter and zip (zip stops at the shorter side)",
            "call resolution: the file's `use core::cmp::min;` makes the bare `min(a, b)` core::cmp::min (then rule R3: "
            "inline `if b < a { b } else { a }`)",
            "`S.try_into().unwrap()` (slice -> [T; N], in first_8_words and words_from_little_endian_bytes) is emitted as "
            "the trusted prelude helper `S.vf_to_array()` (prelude/refimpl.rs): requires len == N (an obligation at both "
            "call sites: the unwrap cannot panic), ensures the same elements",
            "u32::rotate_right, u32::from_le_bytes, u32::to_le_bytes: assumed specs in prelude/core.rs (R4)",
            "vstd: str::as_bytes is the UTF-8 encoding of the string (vstd::utf8::encode_utf8); slices have at most "
            "usize::MAX elements; usize is 64 bits (global size_of usize == 8)",
            "eval unit: rustc/cargo compile reference_impl faithfully; the 30-line runner lib/vectors_runner/src/main.rs "
            "paints the input pattern i % 251 and calls the public Hasher API; oracle/b3spec.py is an independent "
            "transcription of the paper (validated separately)",
        ],
    },
}
