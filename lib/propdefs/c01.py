PROPS = {
    "C01": {
        "level": "proof",
        "design_ref": "4.1",
        "technique": "Verus function contracts against a spec-function transcription of the BLAKE3 paper",
        "level_text": "unbounded deductive proof (Verus/z3) that the real portable compression function and the "
                      "byte/word helpers equal the paper's G/round/permutation definition for all arguments",
        "level_note": "trusted: Verus+z3, extraction rules, std intrinsics (rotate_right, from/to_le_bytes), SIMD "
                      "kernels assumed (C05)",
        "units": {"quick": [v("chunk")], "thorough": []},
        "explanation": "Verus discharges, for all inputs, the postconditions that tie the real (mechanically "
                       "extracted) functions of src/lib.rs, src/portable.rs, src/platform.rs, src/hazmat.rs to a "
                       "BLAKE3 specification written as spec functions from the paper; every arithmetic operation, "
                       "index, slice, unwrap, ArrayVec::push and (debug_)assert in those functions is an obligation.",
        "uncovered": [],
        "assumptions": [SIMD_ASSUMPTION, EXTRACTION],
    },
}

