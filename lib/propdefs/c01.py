PROPS = {
    "C01": {
        "level": "proof",
        "design_ref": "4.1",
        "technique": "Verus function contracts against a spec-function transcription of the BLAKE3 paper",
        "level_text": "unbounded deductive proof (Verus/z3): hash / keyed_hash / derive_key and every function below them "
                      "(tree recursion, chunk state, portable kernels, byte/word helpers) meet postconditions that equate "
                      "their results with a spec-function transcription of the BLAKE3 paper, for all inputs and all "
                      "Platform values; every arithmetic op, index, unwrap, push and (debug_)assert is an obligation",
        "level_note": "trusted: Verus+z3, extraction rules, std intrinsics (rotate_right, from/to_le_bytes), SIMD "
                      "kernels assumed (C05)",
        "units": {"quick": [v("tree"), v("tree_lemmas")],
                  "thorough": [v("tree", "B"), v("tree", "C"), v("tree", "D"), v("tree", "A", join_order="rl"),
                               k("std_specs"), k("prelude_array_ref"), k("counter_words"), k("largest_power_of_two_leq"),
                               k("left_subtree_len"), k("deps_models"), s("C01")]},
        "explanation": "Verus discharges, for all inputs, the postconditions that tie the real (mechanically "
                       "extracted) functions of src/lib.rs, src/portable.rs, src/platform.rs, src/hazmat.rs to a "
                       "BLAKE3 specification written as spec functions from the paper; every arithmetic operation, "
                       "index, slice, unwrap, ArrayVec::push and (debug_)assert in those functions is an obligation.",
        "uncovered": [],
        "assumptions": [SIMD_ASSUMPTION, EXTRACTION],
    },
}

