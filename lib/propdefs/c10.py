PROPS = {
    "C10": {
        "level": "proof",
        "design_ref": "4.6",
        "technique": "Verus whole-state postcondition on Hasher::reset (+ Kani complete harness as counterexample twin)",
        "level_text": "unbounded deductive proof (Verus/z3): after reset() every field equals that of a freshly constructed "
                      "hasher of the same mode/key (initial_chunk_counter == 0, chunk_counter == 0, cv == key, zeroed "
                      "buffer, empty stack) and the state represents the empty input, whatever the prior state was; "
                      "Kani proves the same over all input offsets as a loop-free harness",
        "level_note": "trusted: Verus+z3, extraction rules, ArrayVec::clear model; clone independence rests on "
                      "derive(Clone) over owned data (Rust's type system), not proved",
        "units": {"quick": [v("hasher"), v("spec_lemmas"), k("reset_restores_initial_state")], "thorough": [s("C10")]},
        "cone": [r"crate::Hasher::reset", r"crate::Hasher::clone", r"crate::ChunkState::clone", r"crate::Hasher::new", r"crate::Hasher::count", r"crate::ChunkState::new",
                 r"crate::traits::Hasher::Reset", r"crate::traits::Hasher::.*reset", r"\(contract\)"],
        "explanation": "Hasher::reset's postcondition is stated over the whole state, not just the touched fields: "
                       "a forgotten field (as initial_chunk_counter was) fails it. 'Observationally identical to a new "
                       "hasher' then follows because every other operation's contract depends only on repr().",
        "uncovered": ["clone independence: derive(Clone) on owned data; stated as an assumption of Rust's type system"],
        "assumptions": [TYPE_ASSUMPTION, EXTRACTION],
    },
}
