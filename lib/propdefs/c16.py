PROPS = {
    "C16": {
        "level": "proof",
        "design_ref": "4.10",
        "technique": "Verus function contracts on the real bodies of src/traits.rs (trait methods emitted as inherent "
                     "fns, rule R13) and src/guts.rs: each trait method carries the postcondition of the inherent method "
                     "it must mean, the guts functions that of the chunk-level specification; on top of the Hasher / "
                     "OutputReader / ChunkState / Output contracts (assumed in the traits unit, verified by the hasher, "
                     "xof and tree units in the same run)",
        "level_text": "unbounded deductive proof (Verus/z3), for every prior state, input, key, chunk counter and root "
                      "flag: Update::update maps repr(m) to repr(m ++ data); Reset::reset leaves the whole state of a "
                      "fresh hasher of the same mode and key; FixedOutput::finalize_into writes sp_hash32(root_out(m)); "
                      "FixedOutputReset::finalize_into_reset writes the hash of the state BEFORE the reset and leaves the "
                      "fresh state; ExtendableOutput::finalize_xof / ExtendableOutputReset::finalize_xof_reset return a "
                      "reader at position 0 on root_out(m) of the state before the reset (and leave the fresh state); "
                      "XofReader::read has fill's postcondition (writes S[p..p+n], advances to p+n); KeyInit::new gives "
                      "the keyed mode with that key and the empty input -- the very clauses the inherent methods are "
                      "proved against (C02, C03, C10), hence byte-identical. Verified compositions call the real trait "
                      "methods in sequence (new, update x2, finalize_into_reset, update, finalize_xof_reset, read, "
                      "finalize_into) and the inherent methods in the same sequence: both yield the same specification "
                      "values. guts::ChunkState::{new, len, update, finalize} and guts::parent_cv: for every chunk "
                      "counter, every split into updates, every length 0..=1024 and both values of is_root, the "
                      "results are sp_chunk_cv(IV, bytes, counter, 0) / sp_hash32(sp_chunk_out(IV, bytes, 0, 0)) / "
                      "sp_parent_cv(l, r, IV, 0) / sp_hash32(sp_parent_out(l, r, IV, 0))",
        "level_note": "trusted: Verus+z3, extraction rules (R13: trait impls as inherent fns, so trait dispatch and the "
                      "digest crate's blanket/provided methods are not modelled), the 32-byte model of digest's "
                      "Array<u8, U32>, Platform::detect (any platform), SIMD kernels assumed (C05); domain of update: "
                      "fewer than 2^64 bytes in total; finalize(true) of a guts chunk requires chunk counter 0",
        "units": {"quick": [v("spec_lemmas"), v("traits"), v("hasher"), v("xof"), v("tree")], "thorough": [v("traits", "C", vacuity=False), s("C16")]},
        "cone": [r"crate::traits::", r"crate::guts::", r"crate::Hash::as_bytes", r"crate::Hash::from_bytes",
                 r"crate::Hash::From_u8_OUT_LEN__from", r"vf_traits_sequence", r"vf_inherent_sequence", r"vf_guts_chunk",
                 r"\(contract\)"],
        "explanation": "src/traits.rs: every method is a thin wrapper; what can go wrong is forwarding to the wrong "
                       "method, in the wrong order (reset before reading the output), on the wrong state (reader of the "
                       "reset state), or with the wrong constructor. Each of these changes the postcondition: the "
                       "contracts are the inherent methods' (contracts/hasher.vc, xof.vc) restated over old(self) / "
                       "final(self), and sp_reset_of(old, final) is Hasher::reset's whole-state postcondition. src/guts.rs: "
                       "guts::ChunkState::repr(c) := inner.repr(c, IV) && flags == 0; new establishes repr([]) for the "
                       "given counter, update maps repr(c) to repr(c ++ input) (|c| + |input| <= 1024), len == |c|, "
                       "finalize(false) == sp_chunk_cv(IV, c, counter, 0), finalize(true) (counter 0) == "
                       "sp_hash32(sp_chunk_out(IV, c, 0, 0)); parent_cv likewise with sp_parent_out(l, r, IV, 0). "
                       "The vacuity twin shows no contract is contradictory.",
        "uncovered": [
            "the digest crate's own code: trait dispatch, the blanket impls and provided methods built on these "
            "methods (Digest::{new, update, finalize, finalize_reset, chain_update}, Mac::{update, finalize, verify*, "
            "new_from_slice}, ExtendableOutput::finalize_boxed, XofReader::read_boxed, ...), the HashMarker / MacMarker / "
            "OutputSizeUser / KeySizeUser / BlockSizeUser marker impls (types only: U32, U32, U64)",
            "name resolution inside the trait impls: `self.update(data)`, `self.reset()`, `self.finalize()`, "
            "`self.fill(..)` are taken to resolve to the INHERENT methods (inherent methods win over trait methods of "
            "the same name; the file's own comment says so); rule R13 makes this true by construction in the verified "
            "text, so an accidental self-recursion through the trait method would not be seen",
            "guts finalize(true) with chunk_counter != 0: outside the specification (a root chunk has counter 0); in "
            "the code it is the debug_assert in Output::root_hash (panic in debug builds; release builds hash with "
            "counter 0 regardless of the stored counter)",
            "guts::ChunkState::update beyond 1024 bytes in total: outside the contract (ChunkState::update's "
            "precondition; the crate documents guts as 'for exactly one chunk')",
            "derive(Clone, Debug) of guts::ChunkState: type-system assumption / C17",
            "configurations B, D; configuration C runs in the thorough tier",
        ],
        "assumptions": [
            "R13: `impl digest::{Update, Reset, FixedOutput, FixedOutputReset, ExtendableOutput, ExtendableOutputReset, "
            "XofReader, KeyInit} for Hasher / OutputReader` are emitted as inherent fns Trait__method in module "
            "crate::traits, bodies verbatim; method calls inside resolve to the inherent methods (name resolution "
            "inside trait impls is assumed, see uncovered)",
            "digest::array::Array<u8, U32> (= digest::Key<Hasher>, = Array<u8, <Hasher as OutputSizeUser>::OutputSize>) "
            "is the model VfArray32 (prelude/readermodel.rs): 32 bytes; copy_from_slice(src) requires |src| == 32 (the "
            "real one panics otherwise) and copies; `.into()` to [u8; 32] yields the same bytes. @subst: "
            "`Array<u8, Self::OutputSize>` / `digest::Key<Self>` -> `VfArray32`, `Self::Reader` -> `OutputReader` "
            "(associated types of the trait impls)",
            "call resolution in guts: `output.chaining_value().into()` goes through `impl From<[u8; 32]> for Hash` "
            "(src/lib.rs). R13 emits that impl as the inherent fn Hash::From_u8_OUT_LEN__from (real body, verified here: "
            "r.0 == bytes); contracts/traits.vc re-materialises the trait impl as a forwarder to it (glue, verified, with "
            "vstd's FromSpecImpl), so that `.into()` resolves by Rust's own trait resolution; std's blanket "
            "`impl<T, U: From<T>> Into<U> for T` is vstd's assumed specification of Into::into",
            "Platform::detect() (trusted, contracts/chunk.vc) returns some Platform; every contract used holds for every "
            "platform value modulo the SIMD assumption",
            "the Hasher / OutputReader / ChunkState / Output / parent_node_output contracts (contracts/hasher.vc, xof.vc, "
            "chunk.vc) are assumed in the traits unit and verified by the hasher, xof and tree units of the same run",
            SIMD_ASSUMPTION, TYPE_ASSUMPTION, EXTRACTION,
        ],
    },
}
