import sys, os
sys.path.insert(0, os.path.dirname(os.path.dirname(os.path.abspath(__file__))))
try:
    import cbmc_backend as _cb
    _U = _cb.list_units()
except Exception as _e:  # back end missing: the three C properties are then not claimed
    _U = {}


# units named *_fn (one-level functional contracts with uninterpreted kernels) are still under construction:
# they are registered only once listed in STABLE_FN
STABLE_FN = {
    # quick (each < 50 s alone)
    "blake3_compress_in_place_portable_fn", "blake3_compress_xof_portable_fn",
    "blake3_compress_in_place_fn", "blake3_compress_xof_fn", "blake3_hash_many_fn", "output_chaining_value_fn",
    "output_root_bytes_fn", "compress_parents_parallel_fn", "blake3_hasher_finalize_seek_fn", "blake3_hasher_finalize_fn",
    # thorough (2 - 6 min each)
    "blake3_xof_many_fn", "blake3_hash_many_rows_fn", "blake3_hasher_finalize_seek_pending_fn",
}


def _units(prop, tier):
    return [c(n) for n, d in _U.items() if prop in d["props"] and d["tier"] == tier
            and (not n.endswith("_fn") or n in STABLE_FN)]


_CBMC_NOTE = ("trusted: CBMC 6.11 (goto-cc, goto-instrument --dfcc, SAT back ends), its models of memcpy/memset, "
              "unsigned wraparound and narrowing casts treated as the defined C behaviour they are, object-bits 12; asm "
              "blocks (cpuid/xgetbv) are nondeterministic; the SIMD kernels (C intrinsics, assembly) are NOT analysed: "
              "their frames are assumed contracts")

PROPS = {}
if _U:
    PROPS["C07"] = {
        "level": "proof", "engine": "cbmc", "design_ref": "6.1",
        "technique": "CBMC function contracts (DFCC) on #include of the real c/blake3.c, blake3_portable.c, blake3_dispatch.c: requires/ensures/assigns per function, callers checked against callee contracts",
        "level_text": "deductive, modular: each C function is enforced against its own contract (is_fresh pointer preconditions, "
                      "exact __CPROVER_assigns frames, hasher/chunk-state data invariant) with callees replaced by their "
                      "contracts; pointer, bounds, pointer-overflow, signed-overflow, undefined-shift and div-by-zero checks "
                      "on; unbounded in input_len/out_len/seek via loop contracts, type-bounded loops unwound with unwinding "
                      "assertions (complete when they pass)",
        "level_note": _CBMC_NOTE + "; hand-written assembly (calling convention, callee-saved registers, direction flag, output "
                      "frame): NO contract verifier reads it - BOUNDED stand-in only (unit guard:asm_abi, never counted as "
                      "proved): the unix .S and windows_gnu .S files of SSE2 / SSE4.1 / AVX2 / AVX-512 are called through a "
                      "trampoline that checks every callee-saved register of System V resp. Win64, the direction flag, the "
                      "bytes around the output and the result against the portable kernel, over a stated finite set of calls; "
                      "the MSVC .asm files cannot be assembled here (a change there is undecided); NOT applicable: C intrinsics "
                      "files (cbmc aborts on vector casts), unsafe Rust intrinsics",
        "units": {"quick": _units("C07", "quick") + [g("c_pointer_casts"), g("kernels_frames"), g("asm_abi")], "thorough": _units("C07", "thorough") + [s("C07")]},
        "explanation": "memory safety, frames (exactly 32 bytes per hashed input, 64 per XOF block, out_len per finalize, "
                       "plus the hasher) and absence of UB of the C library's C sources, function by function",
        "uncovered": ["assembly kernels (.S): no verifier on this image reads x86 assembly -> the calling-convention part of the "
                      "statement is only explored (bounded unit guard:asm_abi: unix and windows_gnu files, finitely many calls), "
                      "not proved; windows_msvc .asm files: not even that", "C intrinsics kernels (blake3_sse2.c ...): CBMC crashes on vector typecasts",
                      "unsafe Rust intrinsics (rust_sse2.rs ...): not covered", "blake3_neon.c, blake3_tbb.cpp"],
        "assumptions": ["SIMD kernels' frames are assumed contracts", "asm blocks nondeterministic"],
    }
    PROPS["C06"] = {
        "level": "proof", "engine": "cbmc", "design_ref": "6.2",
        "technique": "CBMC function contracts: structural half of the statement (finalize pure, reset == init, derive-key inits agree, zero-length no-ops, flag/counter plumbing, shape invariants, integer helpers) + one-level functional contracts with the compression kernels as uninterpreted functions of all their value arguments (units *_fn); thorough: portable compress == paper spec (kissat)",
        "level_text": "deductive for the structural half ONLY: finalize/finalize_seek assign nothing but out[0..out_len); reset "
                      "leaves every field as hasher_init_base(key, flags) does; init_derive_key == init_derive_key_raw(strlen); "
                      "update(_,_,0) assigns nothing; exact postconditions for chunk_state_output / parent_output / make_output "
                      "/ maybe_start_flag; length accounting and the lazy-last-block shape of chunk_state_update; stack-length "
                      "vs popcount relations of merge/push/update; integer helpers over their whole machine domain. "
                      "FUNCTIONAL plumbing, one call level deep (units *_fn): with each kernel family abstracted by an "
                      "uninterpreted function of ALL its value arguments, the four dispatch functions (every ISA branch), the two "
                      "portable kernels' feed-forward over compress_pre, output_chaining_value, output_root_bytes (every requested "
                      "byte, unbounded out_len / seek), compress_parents_parallel and finalize / finalize_seek (<= 3 stack entries) "
                      "are proved to pass exactly the right bytes, counter, flags and CV to exactly the right kernel call and to "
                      "put every result byte where the specification says; update_base passes an aligned subtree (a 2^k-chunk "
                      "subtree starts at a chunk index divisible by 2^k) to compress_subtree_to_parent_node",
        "level_note": _CBMC_NOTE + "; the END-TO-END functional equality of the C library's output with the specification is NOT "
                      "decided (no inductive spec functions in CBMC contracts): the one-level UF contracts do not compose "
                      "across the subtree recursion, chunk_state_update, compress_chunks_parallel and the CV stack; that the "
                      "kernels are deterministic functions of their value arguments and that all ISA variants of a family "
                      "compute the same function is assumed (C05)",
        # guard `kernels`: the C library links the same kernel files as the crate's C / assembly flavours; the contracts of
        # C06 assume them (C05), so a changed kernel file is re-validated here too (round 7, seeded change C06-13)
        "units": {"quick": _units("C06", "quick") + [g("c_functional_text"), g("kernels")], "thorough": _units("C06", "thorough") + [s("C06")]},
        "explanation": "what contracts can decide about C06 without relating 7-round ARX outputs: state plumbing and shapes; "
                       "plus (thorough) one complete equivalence: the C portable compression function == the paper's",
        "uncovered": ["finalize_seek writes S[seek..seek+out_len] of the concatenated input END TO END (functional equality with "
                      "the spec / the Rust crate): not decided by contracts; the thorough tier's bounded unit search:C06 explores it",
                      "units *_fn (cbmc/README.md, 'One-level functional contracts'): with the kernels as uninterpreted functions "
                      "of ALL their value arguments, which bytes/counter/flags/CV go into which kernel call and where every result "
                      "byte lands is decided one call level deep for the four dispatch functions (every ISA branch), "
                      "output_chaining_value, output_root_bytes (every requested byte, unbounded), compress_parents_parallel and "
                      "finalize (<= 3 stack entries); NOT for chunk_state_update, compress_chunks_parallel, hasher_merge_cv_stack / "
                      "hasher_push_cv, the subtree recursion and update_base: a change there that keeps memory safety and shapes "
                      "but feeds wrong bytes/CV to a compression is not detected"],
        "assumptions": ["see level_note"],
    }
    PROPS["C18"] = {
        "level": "proof", "engine": "cbmc", "design_ref": "6.3",
        "technique": "CBMC DFCC assigns clauses: every public C API function writes only its pointer arguments' footprints and the g_cpu_features cache; Rust side by typing",
        "level_text": "frame proof: DFCC rejects any write to a static-lifetime object not in the assigns clause, so discharging "
                      "each API function's contract with assigns within {argument footprints, g_cpu_features} proves there is no "
                      "other shared mutable state; get_cpu_features stores only a CPUID-derived value (idempotent)",
        "level_note": _CBMC_NOTE + "; interleavings of concurrent calls are ARGUED from disjoint frames, not explored (no tool "
                      "here explores them); Rust side: safe code, frames fixed by &mut, cpufeatures' atomics assumed",
        "units": {"quick": _units("C18", "quick") + [g("rust_statics"), g("c_cache_single_store"), g("c_statics")], "thorough": _units("C18", "thorough")},
        "explanation": "isolation of independent hasher instances as absence of shared mutable state (frame conditions)",
        "uncovered": ["actual concurrent executions / data races (not modelled)", "Rust statics in dependencies (cpufeatures)",
                      "the idempotence of get_cpu_features is checked as 'stores only a CPUID-derived value'; the ORDER of "
                      "partial stores to the cache within one detection is not (a thread reading the cache between two "
                      "stores of one detection is a data race outside this family's reach)"],
        "assumptions": ["see level_note"],
    }
