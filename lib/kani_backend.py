"""Kani back end: complete proofs of the loop-free integer code of /repo, the audit of the `core`
specifications the Verus units assume, and concrete counterexamples for the Verus side.

Every run
  1. copies `Cargo.toml Cargo.lock build.rs src/ c/` from common.REPO into a scratch directory
     (outside /repo and /verif; `[dev-dependencies]` is dropped from the COPY because the path
     dependency `reference_impl` is not copied),
  2. appends the unit's harness module /verif/kani/<unit>.rs to the copied source file whose private
     items it needs (`#[cfg(kani)] mod vf_kani_<unit> { use super::*; ... }`),
  3. runs `cargo kani` there (CARGO_TARGET_DIR inside the scratch directory) under a timeout and a
     16 GB address-space limit,
  4. parses Kani's per-check results, and removes the scratch directory.

Verdicts: "fail" only for a FAILURE of a semantic check (harness assertion, arithmetic overflow,
panic, bounds, pointer check) -- with the concrete inputs of Kani's concrete playback decoded into
the harness's variables.  Timeout, memory limit, compile error, lost function, unwinding assertion,
unsupported construct, an UNDETERMINED check, or an unreachable harness end are "undecided".
"""
import os
import re
import shutil
import time

import common
from common import failed_obligation, new_result, rm_rf, run, scratch_dir

KANI_DIR = os.path.join(common.VERIF, "kani")
COPY = ["Cargo.toml", "Cargo.lock", "build.rs", "src", "c"]
# `pure`: build.rs compiles no C/assembly.  no_*: Platform::detect() short-circuits at compile time
# (cfg!), so no cpuid inline assembly is reachable; irrelevant for every property below (no
# compression function is executed by any harness).
FEATURES = "pure,no_sse2,no_sse41,no_avx2,no_avx512"
TRUSTED = ["Kani/CBMC, rustc MIR semantics"]
COMPLETE = "complete: loop-free, full symbolic domain"

# ---------------------------------------------------------------------------------------------
# Units.  `file`: the repo file the harness module is appended to.  `functions`: the repo
# functions the unit is about: (path in the Verus side's naming, file, regex that finds the `fn`
# line).  `harnesses`: harness fn -> ordered (name, type) of its kani::any() calls, used to decode
# Kani's concrete playback values.
# ---------------------------------------------------------------------------------------------
UNITS = {
    "left_subtree_len": {
        "props": ["C09", "C01"], "tier": "quick", "file": "src/hazmat.rs",
        "doc": "hazmat::left_subtree_len(n), all n: u64 > 1024: no panic/overflow, result r is a power of two, "
               "r < n <= 2r",
        "functions": [("crate::hazmat::left_subtree_len", "src/hazmat.rs", r"\bfn\s+left_subtree_len\s*\(")],
        "harnesses": {"vf_left_subtree_len": [("n", "u64")]},
        "domain": "all n: u64 with n > 1024 (2^64 - 1025 values)",
    },
    "max_subtree_len": {
        "props": ["C09"], "tier": "quick", "file": "src/hazmat.rs",
        "doc": "hazmat::max_subtree_len(o), all chunk-aligned o: u64: None iff o == 0, else "
               "Some(1024 * 2^tz(o/1024)) = largest power of two dividing o; no overflow",
        "functions": [("crate::hazmat::max_subtree_len", "src/hazmat.rs", r"\bfn\s+max_subtree_len\s*\(")],
        "harnesses": {"vf_max_subtree_len": [("o", "u64")]},
        "domain": "all o: u64 with o % 1024 == 0 (2^54 values)",
    },
    "largest_power_of_two_leq": {
        "props": ["C01", "C02"], "tier": "quick", "file": "src/lib.rs",
        "doc": "largest_power_of_two_leq(n): no panic/overflow for ANY n: usize (n/2+1 <= 2^63); for n >= 1 the "
               "result r is a power of two with r <= n < 2r; at n == 0 it returns 1 (no power of two <= 0 exists; "
               "callers pass n > 1024)",
        "functions": [("crate::largest_power_of_two_leq", "src/lib.rs", r"\bfn\s+largest_power_of_two_leq\s*\(")],
        "harnesses": {"vf_largest_power_of_two_leq": [("n", "usize")]},
        "domain": "all n: usize (64-bit); value property on n >= 1",
    },
    "counter_words": {
        "props": ["C01"], "tier": "quick", "file": "src/lib.rs",
        "doc": "counter_low/counter_high: (high as u64) << 32 | low as u64 == counter, for all u64",
        "functions": [("crate::counter_low", "src/lib.rs", r"\bfn\s+counter_low\s*\("),
                      ("crate::counter_high", "src/lib.rs", r"\bfn\s+counter_high\s*\(")],
        "harnesses": {"vf_counter_low": [("counter", "u64")], "vf_counter_high": [("counter", "u64")],
                      "vf_counter_words": [("counter", "u64")]},
        "targets": {"vf_counter_high": "crate::counter_high"},
        "domain": "all counter: u64",
    },
    "output_reader_seek": {
        "props": ["C03"], "tier": "quick", "file": "src/lib.rs",
        "doc": "OutputReader::position/set_position and Seek::seek arithmetic for every reader state with "
               "pwb < 64 and 64*counter + pwb <= u64::MAX and every SeekFrom value: Start(x) -> x; Current(d) -> "
               "min(pos + d, u64::MAX), negative target -> Err, state unchanged; End(_) -> Err, state unchanged; "
               "no overflow",
        "functions": [("crate::OutputReader::position", "src/lib.rs", r"\bpub\s+fn\s+position\s*\(\s*&self"),
                      ("crate::OutputReader::set_position", "src/lib.rs", r"\bpub\s+fn\s+set_position\s*\("),
                      ("crate::OutputReader::Seek__seek", "src/lib.rs", r"\bfn\s+seek\s*\(\s*&mut\s+self")],
        "harnesses": {
            "vf_position": [("counter", "u64"), ("position_within_block", "u8")],
            "vf_set_position": [("counter", "u64"), ("position_within_block", "u8"), ("x", "u64")],
            "vf_seek_start": [("counter", "u64"), ("position_within_block", "u8"), ("x", "u64")],
            "vf_seek_current": [("counter", "u64"), ("position_within_block", "u8"), ("d", "i64")],
            "vf_seek_end": [("counter", "u64"), ("position_within_block", "u8"), ("d", "i64")],
        },
        "targets": {"vf_set_position": "crate::OutputReader::set_position",
                    "vf_seek_start": "crate::OutputReader::Seek__seek",
                    "vf_seek_current": "crate::OutputReader::Seek__seek",
                    "vf_seek_end": "crate::OutputReader::Seek__seek"},
        "domain": "all (counter: u64, pwb: u8) with pwb < 64 and 64*counter + pwb <= u64::MAX; all x: u64 / d: i64",
    },
    "from_hex": {
        "props": ["C14"], "tier": "quick", "file": "src/lib.rs",
        "doc": "Hash::from_hex on any [u8; 64]: Ok iff all bytes are hex digits, then byte i == 16*val(2i)+val(2i+1); "
               "any length in 0..=130 other than 64 (arbitrary content) -> Err",
        "functions": [("crate::Hash::from_hex", "src/lib.rs", r"\bpub\s+fn\s+from_hex\s*\(")],
        "harnesses": {"vf_from_hex_64": [("hex", "[u8;64]")],
                      "vf_from_hex_len": [("buf", "[u8;130]"), ("len", "usize")]},
        "domain": "all [u8; 64] (2^512 inputs); all lengths 0..=130 except 64 with arbitrary content",
        "bounded_note": ["loops of constant trip count (32 / 64) fully unwound; Kani's unwinding assertions are "
                         "obligations", "length harness: lengths 0..=130 (the property quantifies over all lengths; "
                         "the length test is a single comparison)"],
    },
    "std_specs": {
        "props": ["C01"], "tier": "quick", "file": "src/lib.rs",
        "doc": "audit of the `core` specifications assumed in /verif/prelude/core.rs against the real core: "
               "u32::rotate_right, u32::from_le_bytes/to_le_bytes, u64/usize::count_ones, u64/usize::"
               "next_power_of_two (x <= 2^63), u64::trailing_zeros, size_of::<usize>() == 8",
        "functions": [],
        "audited": ["u32::rotate_right", "u32::from_le_bytes (vf_u32_from_le_bytes)",
                    "u32::to_le_bytes (VfToLe::vf_to_le_bytes)", "u64::count_ones", "usize::count_ones",
                    "u64::next_power_of_two", "usize::next_power_of_two", "u64::trailing_zeros (sp_tz64)",
                    "global size_of usize == 8"],
        "harnesses": {
            "vf_spec_u32_rotate_right": [("x", "u32"), ("n", "u32")],
            "vf_spec_u32_from_le_bytes": [("b", "[u8;4]")],
            "vf_spec_u32_to_le_bytes": [("w", "u32")],
            "vf_spec_u64_count_ones": [("x", "u64")],
            "vf_spec_usize_count_ones": [("x", "usize")],
            "vf_spec_u64_next_power_of_two": [("x", "u64")],
            "vf_spec_usize_next_power_of_two": [("x", "usize")],
            "vf_spec_u64_trailing_zeros": [("x", "u64")],
            "vf_spec_usize_is_64_bit": [],
        },
        "targets": {
            "vf_spec_u32_rotate_right": "core::u32::rotate_right (assumed specification)",
            "vf_spec_u32_from_le_bytes": "core::u32::from_le_bytes (assumed specification vf_u32_from_le_bytes)",
            "vf_spec_u32_to_le_bytes": "core::u32::to_le_bytes (assumed specification VfToLe::vf_to_le_bytes)",
            "vf_spec_u64_count_ones": "core::u64::count_ones (assumed specification)",
            "vf_spec_usize_count_ones": "core::usize::count_ones (assumed specification)",
            "vf_spec_u64_next_power_of_two": "core::u64::next_power_of_two (assumed specification)",
            "vf_spec_usize_next_power_of_two": "core::usize::next_power_of_two (assumed specification)",
            "vf_spec_u64_trailing_zeros": "core::u64::trailing_zeros (specification sp_tz64)",
            "vf_spec_usize_is_64_bit": "global size_of usize == 8 (assumed configuration)",
        },
        "domain": "full domain of each argument (rotate: 0 < n < 32; next_power_of_two: x <= 2^63)",
        "bounded_note": ["recursive spec functions transcribed as loops of at most 64 iterations (type width), "
                         "unwound 66 times: exhaustive, unwinding assertions are obligations"],
    },
    "deps_models": {
        "props": ["C01", "C02"], "tier": "thorough", "file": "src/lib.rs", "level": "bounded",
        "doc": "audit of the dependency models of /verif/prelude/deps.rs against the real crates: arrayvec::ArrayVec "
               "(new/push/pop/len/is_empty/clear/deref; push panics exactly when full) and <[T]>::chunks_exact / "
               "ChunksExact::next / remainder; instances only",
        "functions": [],
        "audited": ["arrayvec::ArrayVec model (prelude/deps.rs)", "core::slice::ChunksExact model (prelude/deps.rs)"],
        "harnesses": {
            "vf_model_arrayvec": [],
            "vf_model_arrayvec_push_full_panics": [],
            "vf_model_chunks_exact": [("buf", "[u8;13]"), ("len", "usize"), ("k", "usize")],
        },
        "targets": {"vf_model_arrayvec": "arrayvec::ArrayVec (assumed model)",
                    "vf_model_arrayvec_push_full_panics": "arrayvec::ArrayVec::push (assumed precondition len < CAP)",
                    "vf_model_chunks_exact": "core::slice::ChunksExact (assumed model)"},
        "domain": "T = u8, CAP = 4 (2 for the panic harness), scripts of 6 operations; slices of length <= 13, chunk size 1..=4",
    },
    "prelude_array_ref": {
        "props": ["C01"], "tier": "quick", "file": "src/lib.rs", "level": "bounded",
        "doc": "audit of extraction rule R1 / trusted wrappers vf_array_ref, vf_array_mut_ref against the real "
               "arrayref::array_ref!/array_mut_ref! macros: window == s[off..off+N], writes confined to the window; "
               "instances only (generic in T, N)",
        "functions": [],
        "audited": ["vf_array_ref (R1: arrayref::array_ref!)", "vf_array_mut_ref (R1: arrayref::array_mut_ref!)"],
        "harnesses": {
            "vf_spec_array_ref_u8_4": [("buf", "[u8;16]"), ("len", "usize"), ("off", "usize")],
            "vf_spec_array_ref_u8_32": [("buf", "[u8;72]"), ("len", "usize"), ("off", "usize")],
            "vf_spec_array_mut_ref_u8_4": [("old", "[u8;16]"), ("len", "usize"), ("off", "usize"), ("new", "[u8;4]")],
        },
        "targets": {"vf_spec_array_ref_u8_4": "arrayref::array_ref! (assumed specification vf_array_ref)",
                    "vf_spec_array_ref_u8_32": "arrayref::array_ref! (assumed specification vf_array_ref)",
                    "vf_spec_array_mut_ref_u8_4": "arrayref::array_mut_ref! (assumed specification vf_array_mut_ref)"},
        "bounded": ["instances T = u8, N = 4 (slice length <= 16) and N = 32 (slice length <= 72), every offset with "
                    "off + N <= len; the wrappers are generic in T and N"],
        "domain": "T = u8; (N, max len) in {(4, 16), (32, 72)}; all contents, lengths, offsets with off + N <= len",
    },
    "reset_restores_initial_state": {
        "props": ["C10"], "tier": "quick", "file": "src/lib.rs", "playback": "cbmc",
        "doc": "Hasher::new()/new_keyed(any key), set_input_offset(1024*k) for any k, reset(): count() == 0 without "
               "panic and every field equals the one of a fresh Hasher",
        "functions": [("crate::Hasher::reset", "src/lib.rs", r"\bpub\s+fn\s+reset\s*\(\s*&mut\s+self"),
                      ("crate::Hasher::count", "src/lib.rs", r"\bpub\s+fn\s+count\s*\(\s*&self\s*\)\s*->\s*u64"),
                      ("crate::hazmat::Hasher::HasherExt__set_input_offset", "src/hazmat.rs",
                       r"\bfn\s+set_input_offset\s*\(\s*&mut\s+self[^;]*\{")],
        "harnesses": {"vf_reset_after_set_input_offset": [("k", "u64")],
                      "vf_reset_after_set_input_offset_keyed": [("k", "u64"), ("key", "[u8;32]")]},
        "domain": "all k: u64 with 1024*k <= u64::MAX; all keys [u8; 32]; no input bytes hashed",
    },
}

# function path (Verus side's naming) -> unit whose counterexample applies to it
TWINS = {
    "crate::hazmat::left_subtree_len": "left_subtree_len",
    "crate::hazmat::max_subtree_len": "max_subtree_len",
    "crate::largest_power_of_two_leq": "largest_power_of_two_leq",
    "crate::counter_low": "counter_words",
    "crate::counter_high": "counter_words",
    "crate::OutputReader::position": "output_reader_seek",
    "crate::OutputReader::set_position": "output_reader_seek",
    "crate::OutputReader::Seek__seek": "output_reader_seek",
    "crate::Hash::from_hex": "from_hex",
    "crate::Hasher::reset": "reset_restores_initial_state",
    "crate::Hasher::count": "reset_restores_initial_state",
}

NON_SEMANTIC_CLASSES = ("unwind", "unsupported_construct", "reachability_check", "sanity_check", "internal")
NON_SEMANTIC_DESC = re.compile(r"unwinding assertion|is not currently supported by Kani|not supported|"
                               r"recursion unwinding|Kani does not support|unsupported", re.I)


def list_units():
    return {k: {"props": list(v["props"]), "tier": v["tier"], "doc": v["doc"]} for k, v in UNITS.items()}


# ----------------------------------------------------------------------------------------- scratch

def _strip_dev_dependencies(text):
    """the copy does not contain reference_impl/ (a path dev-dependency); cargo metadata would refuse"""
    return re.sub(r"(?ms)^\[dev-dependencies\]\s*\n.*?(?=^\[|\Z)", "", text)


def build_scratch(d, unit):
    """returns (module_start_line, error).  module_start_line: first line of the appended module."""
    u = UNITS[unit]
    for name in COPY:
        src = os.path.join(common.REPO, name)
        dst = os.path.join(d, name)
        if os.path.isdir(src):
            shutil.copytree(src, dst, symlinks=False)
        elif os.path.isfile(src):
            shutil.copy2(src, dst)
        elif name in ("Cargo.toml", "src"):
            return 0, "repo has no %s" % name
    ct = os.path.join(d, "Cargo.toml")
    common.write(ct, _strip_dev_dependencies(common.read(ct)))
    target = os.path.join(d, u["file"])
    if not os.path.isfile(target):
        return 0, "repo file %s does not exist" % u["file"]
    body = common.read(target)
    if not body.endswith("\n"):
        body += "\n"
    start = body.count("\n") + 2
    common.write(target, body + "\n" + common.read(os.path.join(KANI_DIR, unit + ".rs")))
    return start, None


def locate_functions(d, unit):
    found, missing = [], []
    for path, rel, pat in UNITS[unit]["functions"]:
        p = os.path.join(d, rel)
        line = None
        if os.path.isfile(p):
            text = common.read(p)
            m = re.search(pat, text)
            if m:
                line = text.count("\n", 0, m.start()) + 1
        if line:
            found.append("%s (%s:%d)" % (path, rel, line))
        else:
            missing.append(path)
    return found, missing


# ------------------------------------------------------------------------------------------ parse

CHECK_RE = re.compile(
    r"Check (\d+): (.+?)\n\s*- Status: (\w+)\n\s*- Description: \"(.*)\"(?:\n\s*- Location: (.*))?")
LOC_RE = re.compile(r"^(.*?):(\d+):(\d+) in function (.*)$")


def parse_output(out):
    """-> {harness full name: {"checks": [...], "summary": (failed, total) | None, "verdict": str | None,
                               "playback": [{"check": desc, "vals": [[bytes]], "notes": [...]}, ...]}}"""
    res = {}
    parts = re.split(r"^Checking harness (\S+?)\.\.\.\s*$", out, flags=re.M)
    for i in range(1, len(parts), 2):
        name, body = parts[i], parts[i + 1]
        checks = []
        for m in CHECK_RE.finditer(body):
            desc = m.group(4)
            if len(desc) >= 2 and desc[0] == '"' and desc[-1] == '"':
                desc = desc[1:-1]
            loc = (m.group(5) or "").strip()
            lm = LOC_RE.match(loc)
            checks.append({
                "n": int(m.group(1)), "id": m.group(2), "status": m.group(3), "description": desc,
                "file": lm.group(1) if lm else None, "line": int(lm.group(2)) if lm else None,
                "function": lm.group(4) if lm else None, "location": loc,
            })
        sm = re.search(r"\*\* (\d+) of (\d+) failed", body)
        vm = re.search(r"VERIFICATION:- (\w+)", body)
        tm = re.search(r"Verification Time: ([0-9.]+)s", body)
        res[name] = {"checks": checks, "summary": (int(sm.group(1)), int(sm.group(2))) if sm else None,
                     "verdict": vm.group(1) if vm else None, "playback": [], "body": body,
                     "seconds": float(tm.group(1)) if tm else None}
    for m in re.finditer(r"Concrete playback unit test for `([^`]+)`:\s*\n```\n(.*?)\n```", out, flags=re.S):
        h, code = m.group(1), m.group(2)
        cm = re.search(r"/// Check for `(\w+)`: \"(.*)\"", code)
        kind, desc = (cm.group(1), cm.group(2)) if cm else ("?", "")
        if len(desc) >= 2 and desc[0] == '"' and desc[-1] == '"':
            desc = desc[1:-1]
        vals, notes = [], []
        vm_ = re.search(r"vec!\[\s*\n(.*)\n\s*\];", code, flags=re.S)
        if vm_:
            for ln in vm_.group(1).split("\n"):
                ln = ln.strip()
                if ln.startswith("//"):
                    notes.append(ln[2:].strip())
                else:
                    mm = re.match(r"vec!\[([0-9,\s]*)\],?$", ln)
                    if mm:
                        vals.append([int(x) for x in mm.group(1).replace(" ", "").split(",") if x != ""])
        if h in res:
            res[h]["playback"].append({"kind": kind, "check": desc, "vals": vals, "notes": notes})
    return res


def _int(bs, signed=False):
    return int.from_bytes(bytes(bs), "little", signed=signed)


def decode_inputs(schema, vals):
    """Kani's concrete playback lists one byte vector per primitive kani::any() in execution order
    (arrays: one vector per element)."""
    out, i = {}, 0
    try:
        for name, ty in schema:
            m = re.match(r"\[u8;(\d+)\]$", ty)
            if m:
                n = int(m.group(1))
                if i < len(vals) and len(vals[i]) == n:      # whole array in one vector
                    arr = list(vals[i])
                    i += 1
                else:
                    arr = [_int(v) for v in vals[i:i + n]]
                    i += n
                if len(arr) != n:
                    raise IndexError
                out[name] = arr
                if all(32 <= b < 127 for b in arr):
                    out[name + "_ascii"] = bytes(arr).decode("ascii")
            elif ty == "bool":
                out[name] = bool(_int(vals[i]))
                i += 1
            else:
                out[name] = _int(vals[i], signed=ty.startswith("i"))
                i += 1
    except IndexError:
        for name, _ in schema:
            out.setdefault(name, None)     # not on the failing trace: any value
        out["_note"] = "variables shown as null are not assigned on the failing trace (any value)"
    if i < len(vals):
        out["_extra"] = vals[i:]
    return out


def _kind(desc, cid):
    d = desc.lower()
    if d.startswith("attempt to") or "overflow" in d or "division by zero" in d or "divide by zero" in d:
        return "overflow"
    if "index out of bounds" in d or "out of range for slice" in d or "array_bounds" in cid or "bounds" in cid:
        return "bounds"
    if "unwrap()" in d or "expect()" in d:
        return "unwrap"
    if "pointer" in cid or "dereference failure" in d:
        return "bounds"
    return "assertion"


def _repo_function(kani_fn):
    """Kani's function name -> the Verus side's path naming (best effort)."""
    f = kani_fn.strip()
    m = re.match(r"^<(.+?) as (.+?)>::(\w+)$", f)
    if m:
        ty = re.sub(r"<.*>", "", m.group(1))
        tr = re.sub(r"<.*>", "", m.group(2)).split("::")[-1]
        return "crate::%s::%s__%s" % (ty.replace("crate::", ""), tr, m.group(3))
    f = re.sub(r"::<[^:]*>$", "", f)          # monomorphization suffix  from_hex::<&[u8; 64]>
    return "crate::" + f


# -------------------------------------------------------------------------------------------- run

def _kani_cmd(unit, harnesses, playback=False, exact=False):
    cmd = ["cargo", "kani", "--verbose", "--features", FEATURES]
    for h in harnesses:
        cmd += ["--harness", h if exact else "vf_kani_%s::%s" % (unit, h)]
    if exact:
        cmd += ["--exact"]
    if playback:
        cmd += ["-Z", "concrete-playback", "--concrete-playback=print"]
    return cmd + list(UNITS[unit].get("args", []))


def run_unit(name, tier="quick", keep=None, timeout=None):
    u = UNITS[name]
    res = new_result("kani:" + name, "kani", level=u.get("level", "proof"))
    res["trusted_base"] = list(TRUSTED)
    res["bounded"] = list(u.get("bounded", []))
    res["complete"] = COMPLETE if not u.get("bounded") else None
    res["domain"] = u.get("domain")
    res["notes"] = list(u.get("bounded_note", []))
    if u.get("audited"):
        res["audited_specs"] = list(u["audited"])
    t0 = time.time()
    d = keep or scratch_dir("kani_" + name)
    try:
        start, err = build_scratch(d, name)
        if err:
            res["undecided_reason"] = "scratch copy: " + err
            return res
        found, missing = locate_functions(d, name)
        res["functions_verified"] = found
        if missing:
            res["undecided_reason"] = "lost anchor: function(s) not found in the working tree: " + ", ".join(missing)
            return res
        env = {"CARGO_TARGET_DIR": os.path.join(d, "target"), "CARGO_NET_OFFLINE": "true"}
        cmd = _kani_cmd(name, list(u["harnesses"]))
        res["cmd"] = ("cd <scratch copy of %s with kani/%s.rs appended to %s> && CARGO_NET_OFFLINE=true "
                      "CARGO_TARGET_DIR=<scratch>/target %s" % (common.REPO, name, u["file"], " ".join(cmd)))
        rc, out, errtxt, secs = run(cmd, timeout=timeout or u.get("timeout", 1500), mem_gb=16, cwd=d, env=env)
        res["solver_seconds"] = round(sum(float(x) for x in re.findall(r"Verification Time: ([0-9.]+)s", out)), 2)
        parsed = parse_output(out)
        _classify(res, u, name, parsed, rc, out, errtxt, start)
        if res["failed"]:
            _attach_inputs(res, u, name, parsed, d, env)
        return res
    finally:
        res["seconds"] = round(time.time() - t0, 2)
        if not keep:
            rm_rf(d)


# ------------------------------------------------------------------------- counterexample values

def _attach_inputs(res, u, unit, parsed, d, env):
    """Second phase, only for failing harnesses: concrete values of the harness's kani::any() calls.
    (1) Kani's concrete playback (`-Z concrete-playback --concrete-playback=print`); Kani asks CBMC
        for a trace of EVERY failed property including its internal reachability checks, which is
        prohibitive for harnesses that move large structs (Hasher: 2 GB of JSON) -> time-boxed;
    (2) otherwise / on failure: CBMC itself, with the command line Kani used, restricted to the one
        failed property (`--property ID --trace --compact-trace`); the return values of
        kani::any_raw_* in trace order are the same byte vectors Kani's playback prints."""
    by_h = {}
    for fo in res["failed"]:
        by_h.setdefault(fo["_harness"], []).append(fo)
    for hname, fos in by_h.items():
        full, h = next(((f, x) for f, x in parsed.items() if f.split("::")[-1] == hname), (None, None))
        schema = u["harnesses"][hname]
        todo = list(fos)
        if u.get("playback", "kani") == "kani":
            cmd = _kani_cmd(unit, [full], playback=True, exact=True)
            rc, out, err, secs = run(cmd, timeout=u.get("playback_timeout", 180), mem_gb=16, cwd=d, env=env)
            pbs = [p for p in parse_output(out).get(full, {}).get("playback", []) if p["kind"] != "cover"]
            for fo in list(todo):
                pb = next((p for p in pbs if p["check"] == fo["message"]), None)
                if pb:
                    fo["inputs"] = decode_inputs(schema, pb["vals"])
                    fo["inputs_source"] = "kani concrete playback: " + " ".join(cmd)
                    todo.remove(fo)
        for fo in todo[:4]:
            vals, cmdtxt = _cbmc_trace_values(h, fo["_check_id"], d)
            if vals is not None:
                fo["inputs"] = decode_inputs(schema, vals)
                fo["inputs_source"] = "cbmc trace of the single failed property: " + cmdtxt
    for fo in res["failed"]:
        fo.pop("_harness", None)
        fo.pop("_check_id", None)


def _cbmc_trace_values(h, check_id, d):
    m = re.search(r"\[Kani\] Running: `(cbmc [^`]*)`", h["body"] if h else "")
    if not m:
        return None, ""
    import shlex
    argv = shlex.split(m.group(1))
    out_argv, skip = [], False
    for a in argv:
        if skip:
            skip = False
            continue
        if a == "--verbosity":
            skip = True
            continue
        if a in ("--json-ui", "--trace", "--compact-trace", "--slice-formula"):
            continue          # no formula slicing: every kani::any() must appear in the trace, in order
        out_argv.append(a)
    out_argv += ["--property", check_id, "--trace", "--compact-trace"]
    rc, out, err, secs = run(out_argv, timeout=300, mem_gb=16, cwd=d)
    vals = []
    for mm in re.finditer(r"^\s*\d+: goto_symex\$\$return_value\$\$\S*any_raw\S*=.*\(([01 ]+)\)\s*$", out, flags=re.M):
        bits = mm.group(1).replace(" ", "")
        if len(bits) % 8:
            continue
        vals.append(list(int(bits, 2).to_bytes(len(bits) // 8, "little")))
    if "Trace for" not in out and "VERIFICATION FAILED" not in out:
        return None, ""
    return vals, " ".join(out_argv).replace(d, "<scratch>")


def _classify(res, u, unit, parsed, rc, out, errtxt, mod_start):
    undec, failed, samples = [], [], []
    obligations = discharged = 0
    by_short = {}
    for full, h in parsed.items():
        by_short[full.split("::")[-1]] = (full, h)
    if rc == -9:
        undec.append("cargo kani timed out")
    elif not parsed and rc != 0:
        lines = [l.strip() for l in (errtxt + "\n" + out).split("\n")
                 if re.search(r"^error|panicked|memory allocation|Killed|SIG", l.strip())]
        seen, uniq = set(), []
        for l in lines:
            if l not in seen:
                seen.add(l)
                uniq.append(l)
        res["undecided_reason"] = ("cargo kani did not build/run the harness module (rc=%s): %s"
                                   % (rc, " | ".join(uniq[:6]) or (errtxt or out)[-600:]))[:2000]
        return
    for hname, schema in u["harnesses"].items():
        if hname not in by_short:
            if rc != -9:
                tail = " | ".join([l for l in (errtxt + "\n" + out).split("\n") if re.search(r"error|Error|panicked|"
                                  r"memory|Killed|SIG", l)][-6:]) or (errtxt or out)[-600:]
                undec.append("harness %s did not run (rc=%s): %s" % (hname, rc, tail[:900]))
            continue
        full, h = by_short[hname]
        if not h["summary"] or not h["verdict"]:
            m = re.search(r"(CBMC failed.*|out of memory.*|Out of memory.*|std::bad_alloc.*|timed out.*|"
                          r"Killed.*|SIGKILL.*|SIGSEGV.*)", h["body"] + errtxt)
            undec.append("harness %s: no verdict from CBMC (rc=%s)%s" % (hname, rc, (": " + m.group(1)[:200]) if m else ""))
            continue
        nfail, ntot = h["summary"]
        covers = [c for c in h["checks"] if ".cover." in c["id"] or c["status"] in ("SATISFIED", "UNSATISFIABLE")]
        proper = [c for c in h["checks"] if c not in covers]
        obligations += ntot
        discharged += sum(1 for c in proper if c["status"] in ("SUCCESS", "UNREACHABLE"))
        for c in covers:
            if c["status"] != "SATISFIED":
                undec.append("vacuity guard: harness %s: cover \"%s\" is %s (assumptions contradictory or end "
                             "unreachable)" % (hname, c["description"], c["status"]))
        for c in proper:
            if c["status"] in ("SUCCESS", "UNREACHABLE"):
                continue
            cls = c["id"].rsplit(".", 2)[-2] if c["id"].count(".") >= 2 else ""
            if c["status"] != "FAILURE":
                undec.append("harness %s: check \"%s\" is %s" % (hname, c["description"][:120], c["status"]))
                continue
            if cls in NON_SEMANTIC_CLASSES or NON_SEMANTIC_DESC.search(c["description"]):
                undec.append("harness %s: %s (%s)" % (hname, c["description"][:200], c["location"][:120]))
                continue
            # semantic failure
            in_repo = bool(c["file"]) and c["file"].startswith("src/")
            in_harness = in_repo and c["file"] == u["file"] and (c["line"] or 0) >= mod_start
            primary = u.get("targets", {}).get(hname) or (u["functions"][0][0] if u["functions"] else "core")
            ploc = next((f.split(" (")[1].rstrip(")") for f in res["functions_verified"]
                         if f.startswith(primary + " (")), None)
            if in_repo and not in_harness:
                fn = _repo_function(c["function"] or "")
                loc = "%s:%d" % (c["file"], c["line"])
            else:
                fn = primary
                loc = ploc            # check inside `core` reached from the function: the function's line
                if in_harness:
                    loc = "verif:kani/%s.rs:%d" % (unit, c["line"] - mod_start + 1)
            fo = failed_obligation(
                fn, _kind(c["description"], c["id"]), c["description"], location=loc,
                clause="%s [harness %s]" % (c["description"], hname), inputs=None,
                raw="Check %d: %s\n - Status: %s\n - Description: %s\n - Location: %s" % (
                    c["n"], c["id"], c["status"], c["description"], c["location"]))
            fo["_harness"], fo["_check_id"] = hname, c["id"]
            failed.append(fo)
        if h["verdict"] != "SUCCESSFUL" and nfail == 0:
            undec.append("harness %s: VERIFICATION:- %s with 0 failed checks" % (hname, h["verdict"]))
        for c in proper:
            if c["status"] != "SUCCESS" or "pointer" in c["id"] or not (c["file"] or "").startswith("src/"):
                continue
            in_h = c["file"] == u["file"] and (c["line"] or 0) >= mod_start
            if in_h and (re.match(r"attempt to|division by zero|unreachable code", c["description"])
                         or ".assertion." not in c["id"]):
                continue                      # arithmetic of the harness's own assertion text
            s = {"function": (u.get("targets", {}).get(hname) or (u["functions"][0][0] if u["functions"] else "core"))
                 if in_h else _repo_function(c["function"] or ""),
                 "kind": "postcondition" if in_h else _kind(c["description"], c["id"]),
                 "clause": c["description"],
                 "location": ("verif:kani/%s.rs:%d" % (unit, c["line"] - mod_start + 1)) if in_h
                 else "%s:%d" % (c["file"], c["line"]), "harness": hname}
            if not any(x["clause"] == s["clause"] and x["location"] == s["location"] for x in samples):
                samples.append(s)
    res["obligations"] = obligations
    res["discharged"] = discharged
    res["failed"] = failed
    post = [s for s in samples if s["kind"] == "postcondition"]
    other = [s for s in samples if s["kind"] != "postcondition"]
    res["samples"] = post[:5] + other[:3]
    res["harnesses"] = {k: {"verdict": v[1]["verdict"], "checks": v[1]["summary"][1] if v[1]["summary"] else 0,
                            "seconds": v[1]["seconds"]}
                        for k, v in by_short.items()}
    if failed:
        res["status"] = "fail"
        if undec:
            res["undecided_reason"] = "; ".join(undec)[:2000]
    elif undec:
        res["status"] = "undecided"
        res["undecided_reason"] = "; ".join(undec)[:2000]
    elif obligations > 0 and len(by_short) >= len(u["harnesses"]) and discharged == obligations:
        res["status"] = "pass"
    else:
        res["undecided_reason"] = "no verdict (rc=%s, %d of %d checks accounted for)" % (rc, discharged, obligations)


def counterexample(function_path):
    """Concrete failing inputs for a function with a Kani twin, or None (no twin / twin passes / undecided).
    Used by the replay stage to attach an input to an obligation Verus cannot model."""
    unit = TWINS.get(function_path)
    if not unit:
        return None
    r = run_unit(unit)
    if r["status"] != "fail":
        return None
    best = None
    for fo in r["failed"]:
        if fo.get("inputs"):
            if fo["function"] == function_path:
                return {"unit": unit, "function": fo["function"], "kind": fo["kind"], "message": fo["message"],
                        "location": fo["location"], "inputs": fo["inputs"]}
            best = best or fo
    if best:
        return {"unit": unit, "function": best["function"], "kind": best["kind"], "message": best["message"],
                "location": best["location"], "inputs": best["inputs"]}
    return None


if __name__ == "__main__":
    import json
    import sys
    names = sys.argv[1:] or list(UNITS)
    for n in names:
        r = run_unit(n, keep=os.environ.get("VERIF_KEEP"))
        if os.environ.get("VERIF_JSON"):
            print(json.dumps(r, indent=1))
        else:
            print("[%s] %-32s %3d/%-3d %6.1fs %s" % (r["status"], n, r["discharged"], r["obligations"], r["seconds"],
                                                    r.get("undecided_reason") or ""))
            for fo in r["failed"]:
                print("    FAILED %s [%s] %s @ %s inputs=%s" % (fo["function"], fo["kind"], fo["message"],
                                                                fo["location"], fo["inputs"]))
