"""Verus back end: assemble a unit from /repo's working tree, verify it, classify the diagnostics."""
import json
import os
import re
import time

import common
import extract
import units
from common import failed_obligation, new_result, rm_rf, run, scratch_dir, write

SEMANTIC = [
    # (regex on the diagnostic message, obligation kind)
    (r"^postcondition not satisfied", "postcondition"),
    (r"^precondition not satisfied", "precondition"),
    (r"^assertion failed", "assertion"),
    (r"^invariant not satisfied", "invariant"),
    (r"^loop invariant not satisfied", "invariant"),
    (r"^possible arithmetic underflow/overflow", "overflow"),
    (r"^possible division by zero", "overflow"),
    (r"^possible bit shift underflow/overflow", "overflow"),
    (r"^decreases not satisfied", "termination"),
    (r"^could not prove termination", "termination"),
    (r"^unable to prove (assertion|safety)", "assertion"),
    (r"^failed (pre|post)condition", "postcondition"),
    (r"^constructed value may fail to meet its declared type invariant", "invariant"),
    (r"^unable to prove", "assertion"),
    (r"^possible (index|slice) out of bounds", "bounds"),
    (r"^assert_by_compute", "assertion"),
    (r"^assertion failed in auxiliary", "assertion"),
    (r"^cannot show invariant holds", "invariant"),
    (r"^ensures clause .* not satisfied", "postcondition"),
    (r"^inferred (mode|type)", None),
]
UNDECIDED = [r"[Rr]esource limit", r"rlimit", r"timed out", r"solver (returned|error)", r"z3 (crashed|error)"]
IGNORE = [r"^aborting due to", r"^could not compile", r"^recommendation not met"]

ASSUME_RE = re.compile(
    r"(#\[verifier::external_body\]|#\[verifier::external_type_specification\]|assume_specification|"
    r"#\[verifier::external\]|\badmit\s*\(|\bassume\s*\(|#\[verifier::external_fn_specification\]|"
    r"#\[verifier::exec_allows_no_decreases_clause\]|#\[verifier::truncate\]|#\[verifier::rlimit|"
    r"#\[verifier::spinoff_prover\]|#\[verifier::accept_recursive_types|#\[verifier::reject_recursive_types)")


def list_units():
    return {k: {"props": v.get("props", []), "tier": v.get("tier", "quick"), "doc": v.get("doc", "")}
            for k, v in units.UNITS.items()}


def scan_trusted(text):
    """mechanical scan of the assembled file for every escape hatch; returns list of strings"""
    out = []
    lines = text.split("\n")
    for i, ln in enumerate(lines):
        m = ASSUME_RE.search(ln.split("//")[0])
        if not m:
            continue
        what = m.group(1)
        name = None
        if "assume_specification" in what:
            mm = re.search(r"assume_specification\s*(<[^>]*>)?\s*\[\s*(.*?)\s*\]", ln)
            name = mm.group(2) if mm else ln.strip()
        else:
            for j in range(i, min(i + 12, len(lines))):
                mm = re.search(r"\b(fn|struct|trait|enum)\s+([A-Za-z_][A-Za-z0-9_]*)", lines[j])
                if mm:
                    name = mm.group(2)
                    break
        out.append("%s %s" % (what.strip("#[]").replace("verifier::", ""), name or "?"))
    return sorted(set(out))


def count_obligations(logdir):
    n = 0
    if os.path.isdir(logdir):
        for f in os.listdir(logdir):
            if f.endswith(".smt2"):
                with open(os.path.join(logdir, f), errors="replace") as fh:
                    n += len(re.findall(r"declare-const %%location_label%%", fh.read()))
    return n


def _classify(msg):
    for pat in IGNORE:
        if re.search(pat, msg):
            return "ignore", None
    for pat in UNDECIDED:
        if re.search(pat, msg):
            return "undecided", None
    for pat, kind in SEMANTIC:
        if re.search(pat, msg):
            return ("semantic", kind) if kind else ("other", None)
    return "other", None


def _fn_at(line, fn_ranges):
    best = None
    for a, b, path, file, fl, mode in fn_ranges:
        if a <= line <= b:
            if best is None or (b - a) < (best[1] - best[0]):
                best = (a, b, path, file, fl, mode)
    return best


def _origin(line, linemap):
    if 1 <= line <= len(linemap):
        src, l = linemap[line - 1]
        if src:
            return "%s:%d" % (src, l)
    return None


def _enclosing_name(text_lines, line):
    """name of the nearest preceding `fn` (for lemmas / spec items that are not repo functions)"""
    for j in range(min(line, len(text_lines)) - 1, -1, -1):
        m = re.search(r"\bfn\s+([A-Za-z_][A-Za-z0-9_]*)", text_lines[j])
        if m:
            return m.group(1)
    return "?"


def insert_vacuity_probes(text, fn_ranges):
    """vacuity twin: every verified repo function gets `assert(false)` as its first statement
    (the assembler marks each body opening with /*vf-body*/). Each must be reported as failing; a
    function where `false` is provable has contradictory preconditions / assumed contracts."""
    lines = text.split("\n")
    probes = {}
    for a, b, path, file, fl, mode in fn_ranges:
        if mode != "verify":
            continue
        for j in range(a - 1, min(b, len(lines))):
            if "/*vf-body*/" in lines[j]:
                lines[j] = lines[j].replace("/*vf-body*/", " assert(false); ", 1)
                probes[path] = j + 1
                break
    return "\n".join(lines), probes


def run_verus(path, logdir, rlimit, extra=(), timeout=1500, multiple=4):
    cmd = ["verus", path, "--output-json", "--time", "--error-format=json", "--rlimit", str(rlimit),
           "--multiple-errors", str(multiple)] + list(extra)
    if logdir:
        cmd += ["--log", "smt", "--log-dir", logdir]
    rc, out, err, secs = run(cmd, timeout=timeout, mem_gb=24, cwd=os.path.dirname(path))
    return cmd, rc, out, err, secs


def parse_diagnostics(err):
    diags = []
    junk = []
    for ln in err.split("\n"):
        ln = ln.strip()
        if not ln:
            continue
        if ln.startswith("{"):
            try:
                diags.append(json.loads(ln))
                continue
            except Exception:
                pass
        junk.append(ln)
    return diags, junk


def run_unit(name, tier="quick", config="A", opts=None, keep=None):
    opts = dict(opts or {})
    u = units.UNITS[name]
    tag = "verus:%s[%s%s]" % (name, config, ("," + opts["join_order"]) if "join_order" in opts else "")
    res = new_result(tag, "verus")
    res["config"] = {"cfg": config, **opts}
    t0 = time.time()
    cfg = extract.CONFIGS[config]
    try:
        text, linemap, asm, ov, table = extract.assemble(common.REPO, u, cfg, opts)
    except (extract.ExtractError, extract.LexError, FileNotFoundError, IndexError, KeyError, ValueError) as e:
        res["undecided_reason"] = "extraction: %s: %s" % (type(e).__name__, e)
        res["seconds"] = time.time() - t0
        return res
    d = keep or scratch_dir("verus_" + name)
    try:
        path = os.path.join(d, name + ".rs")
        write(path, text)
        rlimit = u.get("rlimit", 30)
        logdir = os.path.join(d, "log")
        # which modules are verified here: "all" (default), "code" (everything but the spec/lemma module,
        # whose proofs are discharged by the lemma unit over the same files) or "spec" (only that module)
        scope = u.get("verify", "all")
        extra = []
        if scope == "code":
            extra = ["--verify-root"]
            for m in asm.modules:
                if m != "crate":
                    extra += ["--verify-module", m[len("crate::"):]]
            extra += ["--verify-module", "vf_lemmas"]
        elif scope == "spec":
            extra = ["--verify-module", "vf_spec"]
        res["verify_scope"] = scope
        cmd, rc, out, err, secs = run_verus(path, logdir, rlimit, extra=extra)
        res["cmd"] = " ".join(cmd).replace(d, "<scratch>")
        res["obligations"] = count_obligations(logdir)
        tlines = text.split("\n")
        try:
            j = json.loads(out[out.index("{"):]) if "{" in out else {}
        except Exception:
            j = {}
        vr = j.get("verification-results", {})
        tms = j.get("times-ms", {})
        res["solver_seconds"] = (tms.get("smt", {}) or {}).get("total", 0) / 1000.0 if tms else None
        res["verus_functions_verified"] = vr.get("verified")
        diags, junk = parse_diagnostics(err)
        undec, failed, rejected_in, auto_items = [], [], [], []
        for dg in diags:
            if dg.get("level") != "error":
                continue
            msg = dg.get("message", "")
            cls, kind = _classify(msg)
            if cls == "ignore":
                continue
            spans = dg.get("spans", [])
            prim = [s for s in spans if s.get("is_primary")] or spans
            pl = prim[0]["line_start"] if prim else 0
            if cls == "semantic":
                fnr = None
                for s in prim + spans:
                    fnr = _fn_at(s["line_start"], asm.fn_ranges)
                    if fnr:
                        break
                # a precondition failure is reported at the call site (primary) and the callee's clause (secondary)
                clause, call_line = None, pl
                for s in spans:
                    lab = (s.get("label") or "")
                    if "failed" in lab:
                        clause = " ".join(x["text"].strip() for x in s.get("text", []))[:400]
                    elif kind == "precondition" and not s.get("is_primary"):
                        pass
                if kind == "precondition":
                    # function = the caller, i.e. the fn containing the span that is NOT the clause
                    for s in spans:
                        if "failed" not in (s.get("label") or ""):
                            f2 = _fn_at(s["line_start"], asm.fn_ranges)
                            if f2:
                                fnr, call_line = f2, s["line_start"]
                if fnr:
                    fname = fnr[2]
                    loc_default = "%s:%d" % (fnr[3], fnr[4])
                else:
                    fname = "(contract) " + _enclosing_name(tlines, pl)
                    loc_default = None
                loc = None
                for s in sorted(spans, key=lambda s: 0 if "failed" not in (s.get("label") or "") else 1):
                    o = _origin(s["line_start"], linemap)
                    if o and not o.startswith("verif:"):
                        loc = o
                        break
                snippet = " ".join(x["text"].strip() for x in (prim[0].get("text", []) if prim else []))[:300]
                fo = failed_obligation(fname, kind, msg, location=loc or loc_default,
                                       clause=clause or snippet,
                                       raw=(dg.get("rendered") or "")[:3000])
                fo["contract_origin"] = next((o for o in (_origin(s["line_start"], linemap) for s in spans)
                                              if o and o.startswith("verif:")), None)
                # proof HINTS of the overlay (assert / loop invariant / decreases spliced into a repo function, calls
                # of lemmas from spliced proof text) as opposed to contract CLAUSES (requires/ensures of repo
                # functions, overflow / bounds / the repo's own assert!s): a hint that stops holding after a source
                # change is a broken proof, not evidence against the property
                prim_origin = _origin(pl, linemap) or ""
                # (loop invariants are contracts of the loop - the inductive statement of the function's clause - and
                # stay clause-level: seeded change C15-5, wrong only on big-endian targets, shows up as nothing else)
                if fnr and kind in ("assertion", "termination") and prim_origin.startswith("verif:"):
                    fo["hint"] = True
                if fnr and kind == "precondition" and (_origin(call_line, linemap) or "").startswith("verif:"):
                    fo["hint"] = True
                failed.append(fo)
            elif cls == "undecided":
                undec.append(msg)
                # a resource limit hit inside a repo function (its proof got harder after a source change): no verdict,
                # but the function is a suspect for the directed search
                fnr = _fn_at(pl, asm.fn_ranges)
                if fnr:
                    rejected_in.append(failed_obligation(fnr[2], "other", "no verdict for this function: " + msg[:160],
                                                         location="%s:%d" % (fnr[3], fnr[4])))
            else:
                undec.append("verus rejected the assembled unit: %s (%s)" % (msg[:300], _origin(pl, linemap)))
                # rejected inside a repo function (its shape changed under the contract overlay): remember the
                # function so that `check` can ask the directed search for a concrete failing input
                fnr = _fn_at(pl, asm.fn_ranges)
                mm = re.match(r"cannot find (?:value|type) `(\w+)` in this scope", msg)
                if mm and fnr:
                    mod = fnr[2]
                    # the item of that name in the function's module (or an enclosing one)
                    while "::" in mod:
                        mod = mod.rsplit("::", 1)[0]
                        cand = mod + "::" + mm.group(1)
                        if cand in table and table[cand].kind in ("const", "static", "type"):
                            auto_items.append(cand)
                            break
                if fnr:
                    rejected_in.append(failed_obligation(fnr[2], "other", "unit rejected by Verus: " + msg[:200],
                                                         location="%s:%d" % (fnr[3], fnr[4])))
        new_items = [a for a in auto_items if a not in opts.get("extra_items", [])]
        if new_items and len(opts.get("extra_items", [])) < 12:
            # the source now uses crate constants the overlay never listed: include them and run again
            o2 = dict(opts, extra_items=list(opts.get("extra_items", [])) + sorted(set(new_items)))
            if not keep:
                rm_rf(d)
            r2 = run_unit(name, tier, config, o2, keep)
            r2.setdefault("auto_included_items", sorted(set(o2["extra_items"])))
            return r2
        # the unit was rejected (no verification result) inside repo functions that are under contract: run again with
        # those functions demoted to their contracts, so that the rest of the unit is still decided; the demoted
        # functions come back as "not extractable" suspects (directed search)
        rej = [f for f in rejected_in if (f.get("message") or "").startswith("unit rejected by Verus")]
        if rej and not failed and not vr.get("verified") and rc != -9:
            dem = dict(opts.get("demote") or {})
            new_dem = {f["function"]: f.get("message") or "rejected" for f in rej if f["function"] not in dem}
            if new_dem and len(dem) < 6:
                dem.update(new_dem)
                o2 = dict(opts, demote=dem)
                if not keep:
                    rm_rf(d)
                r2 = run_unit(name, tier, config, o2, keep)
                r2.setdefault("demoted_functions", sorted(dem))
                return r2
        if rc == -9:
            undec.append("verus timed out")
        if not vr and not failed and not undec:
            undec.append("verus produced no result: " + (" | ".join(junk[-5:]) or err[-500:]))
        nfail_fns = vr.get("errors", 0)
        # proof hints that lost their anchor were dropped by the extractor: a failed obligation in such a
        # function may be due to the missing hint, so it is *suspect* (undecided), not an alarm by itself;
        # `check` then asks the directed search for a concrete failing input on the real code.
        lost_fns = {p for (p, _) in getattr(asm, "lost", [])}
        res["lost_anchors"] = [d for (_, d) in getattr(asm, "lost", [])]
        suspect = [f for f in failed if f["function"] in lost_fns]
        failed = [f for f in failed if f["function"] not in lost_fns]
        for (pth, why) in getattr(asm, "lost", []):
            if why.startswith("assumption lost"):
                suspect.append(failed_obligation(pth, "other", why[:300]))
                undec.append(why[:300])
            if why.startswith("not extractable"):
                loc = next(("%s:%d" % (f_, l_) for (_, _, p_, f_, l_, m_) in asm.fn_ranges if p_ == pth), None)
                suspect.append(failed_obligation(pth, "other", "function body outside the extraction rules: " + why[:200],
                                                 location=loc))
                undec.append("%s: %s" % (pth, why[:200]))
        hints = [f for f in failed if f.get("hint")]
        if hints:
            failed = [f for f in failed if not f.get("hint")]
            for f in hints:
                f = dict(f)
                f["message"] = "proof hint of the contract overlay no longer holds (%s: %s)" % (f["message"], (f.get("clause") or "")[:120])
                suspect.append(f)
            undec.append("proof hints of the overlay no longer hold in %s (not contract clauses: undecided unless a failing "
                         "input is found)" % ", ".join(sorted({f["function"] for f in hints}))[:400])
        seen_fn = set()
        for f in rejected_in:
            if f["function"] not in seen_fn:
                seen_fn.add(f["function"])
                suspect.append(f)
        res["suspect"] = suspect
        if suspect and not failed and not undec:
            undec.append("proof hints lost their anchors (%s); obligations that now fail there are undecided: %s"
                         % ("; ".join(res["lost_anchors"])[:600],
                            ", ".join("%s [%s]" % (f["function"], f["kind"]) for f in suspect)[:600]))
        res["failed"] = failed
        res["trusted_base"] = scan_trusted(text)
        forbidden = [t for t in res["trusted_base"] if t.startswith("assume ") or t.startswith("admit ")]
        if forbidden:
            undec.append("assume/admit present in the assembled unit: %s" % forbidden)
        res["functions_verified"] = ["%s (%s:%d)" % (p, f, l) for (_, _, p, f, l, m) in asm.fn_ranges if m == "verify"]
        res["functions_trusted"] = ["%s (%s:%d) [assumed contract]" % (p, f, l) for (_, _, p, f, l, m) in asm.fn_ranges
                                    if m == "trusted"]
        res["functions_assumed_here"] = ["%s (%s:%d)" % (p, f, l) for (_, _, p, f, l, m) in asm.fn_ranges
                                         if m == "assumed"]
        res["unlisted_functions"] = len(asm.unlisted)
        if failed:
            res["status"] = "fail"
            res["discharged"] = max(0, res["obligations"] - len(failed))
        elif undec:
            res["status"] = "undecided"
            res["undecided_reason"] = "; ".join(undec)[:2000]
        elif (vr.get("success") or (vr and not vr.get("encountered-error") and not vr.get("encountered-vir-error")
                                     and vr.get("verified", 0) > 0)) and vr.get("errors") == 0 and res["obligations"] > 0:
            res["status"] = "pass"
            res["discharged"] = res["obligations"]
        else:
            res["undecided_reason"] = "no verdict (rc=%s, results=%s)" % (rc, vr)
        # a few discharged obligations written out: contract clauses of verified functions
        samples = []
        for p, fc in list(ov.fns.items())[:200]:
            if fc.spec and fc.mode == "verify" and len(samples) < 6:
                samples.append({"function": p, "clauses": " ".join(fc.spec[0].split())[:300]})
        res["samples"] = samples
        # vacuity twin
        if res["status"] == "pass" and opts.get("vacuity", True):
            vtext, probes = insert_vacuity_probes(text, asm.fn_ranges)
        if res["status"] == "pass" and opts.get("vacuity", True) and probes:
            vpath = os.path.join(d, name + "_vacuity.rs")
            write(vpath, vtext)
            vcmd, vrc, vout, verr, vsecs = run_verus(vpath, None, 5, multiple=0, extra=extra)
            vd, _ = parse_diagnostics(verr)
            hit = set()
            for dg in vd:
                if dg.get("level") != "error":
                    continue
                for s in dg.get("spans", []):
                    for p, ln in probes.items():
                        if s["line_start"] == ln:
                            hit.add(p)
                # rlimit on the probe function also shows `false` was not proved
            try:
                vj = json.loads(vout[vout.index("{"):])
            except Exception:
                vj = {}
            res["vacuity"] = {"probes": len(probes), "failed_as_required": len(hit),
                              "not_reported": sorted(set(probes) - hit)[:20], "seconds": round(vsecs, 1)}
            nverr = (vj.get("verification-results") or {}).get("errors", 0)
            if probes and nverr < len(probes):
                # some probe function verified `false`: contradictory assumptions
                res["status"] = "undecided"
                res["undecided_reason"] = ("vacuity guard: assert(false) was not refuted in %d of %d functions: %s"
                                           % (len(probes) - nverr, len(probes), sorted(set(probes) - hit)[:10]))
        res["seconds"] = round(time.time() - t0, 2)
        return res
    finally:
        if not keep:
            rm_rf(d)


if __name__ == "__main__":
    import sys
    r = run_unit(sys.argv[1], config=sys.argv[2] if len(sys.argv) > 2 else "A",
                 keep=os.environ.get("VERIF_KEEP"))
    brief = {k: r.get(k) for k in ("unit", "status", "obligations", "discharged", "seconds", "solver_seconds",
                                   "undecided_reason", "vacuity")}
    brief["n_verified"] = len(r["functions_verified"])
    brief["n_assumed_here"] = len(r.get("functions_assumed_here", []))
    brief["failed"] = [{k: f.get(k) for k in ("function", "kind", "location", "clause")} for f in r["failed"]]
    print(json.dumps(brief, indent=1))
