"""Verus units: which repo files are cut, which contract overlays are spliced, prelude / spec files."""
import os

V = os.path.dirname(os.path.dirname(os.path.abspath(__file__)))


def _p(*xs):
    return [os.path.join(V, x) for x in xs]


CRATE_FILES = [
    ("src/lib.rs", "crate"),
    ("src/platform.rs", "crate::platform"),
    ("src/portable.rs", "crate::portable"),
    ("src/hazmat.rs", "crate::hazmat"),
    ("src/join.rs", "crate::join"),
    ("src/io.rs", "crate::io"),
    ("src/guts.rs", "crate::guts"),
    ("src/traits.rs", "crate::traits"),
]

UNITS = {
    "compress": {
        "files": CRATE_FILES,
        "prelude": _p("prelude/core.rs"),
        "spec": _p("spec/blake3_spec.rs"),
        "overlays": _p("contracts/compress.vc"),
        "doc": "portable compression function and byte/word helpers against the paper's G/round/permutation",
    },
}
