"""Verus units: which repo files are cut, which contract overlays are spliced, prelude / spec files.
Each file lib/unitdefs/*.py defines UNITS = {name: {...}}; they are merged here (one file per
area so that independent work does not collide)."""
import glob
import importlib.util
import os

V = os.path.dirname(os.path.dirname(os.path.abspath(__file__)))


def _p(*xs):
    return [os.path.join(V, x) for x in xs]


CRATE_FILES = [
    ("src/lib.rs", "crate"),
    ("src/platform.rs", "crate::platform"),
    ("src/portable.rs", "crate::portable"),
    ("src/hazmat.rs", "crate::hazmat"),
    ("src/join.rs", "crate::join"),
    ("src/io.rs", "crate::io"),
    ("src/guts.rs", "crate::guts"),
    ("src/traits.rs", "crate::traits"),
]

UNITS = {}
for _f in sorted(glob.glob(os.path.join(V, "lib", "unitdefs", "*.py"))):
    _s = importlib.util.spec_from_file_location("unitdefs_" + os.path.basename(_f)[:-3], _f)
    _m = importlib.util.module_from_spec(_s)
    _m._p, _m.CRATE_FILES, _m.V = _p, CRATE_FILES, V
    _s.loader.exec_module(_m)
    for _k, _v in _m.UNITS.items():
        if _k in UNITS:
            raise RuntimeError("duplicate unit " + _k)
        UNITS[_k] = _v
