"""Directed search for a failing input on the REAL C library (c/blake3.c, blake3_dispatch.c, blake3_portable.c and
the x86 kernels), used only to make an undecided / failed obligation of C06 or C07 replayable -- it never decides a
property by itself and never runs for a unit that has a verdict.

The library is built from the working tree in three flavours, each with AddressSanitizer + UBSan
(-fsanitize=address,undefined: alignment, shifts, signed overflow, bounds ...) and lib/c_driver/driver.c:
    portable     -DBLAKE3_NO_SSE2 ... (the configuration the CBMC units are about)
    asm          the four c/*_x86-64_unix.S kernels, runtime dispatch
    intrinsics   c/blake3_{sse2,sse41,avx2,avx512}.c, runtime dispatch
In the two dispatching flavours every feature level the host supports is forced through g_cpu_features
(portable, SSE2, SSE4.1, AVX2, AVX-512).  Every buffer is flush against an inaccessible page (see driver.c).

Judged against oracle/b3spec.py (transcribed from the paper): output bytes S[seek..seek+out_len] for every mode,
update split, out_len and seek; a second finalize gives the same bytes and leaves the hasher unchanged; reset +
replay of the same input gives the same bytes.  A sanitizer report, a guard-page fault or a damaged canary is a
memory-safety failure (C07); everything else is a functional failure (C06)."""
import os
import random
import subprocess
import sys
import time

import common

sys.path.insert(0, os.path.join(common.VERIF, "oracle"))
import b3spec  # noqa: E402

DRIVER = os.path.join(common.VERIF, "lib", "c_driver", "driver.c")
SAN = ["-g", "-O1", "-fsanitize=address,undefined", "-fno-sanitize-recover=all", "-fno-omit-frame-pointer"]
TSAN = ["-g", "-O1", "-fsanitize=thread", "-fno-omit-frame-pointer"]
NO_SIMD = ["-DBLAKE3_NO_SSE2", "-DBLAKE3_NO_SSE41", "-DBLAKE3_NO_AVX2", "-DBLAKE3_NO_AVX512"]
# enum cpu_feature of blake3_dispatch.c
SSE2, SSSE3, SSE41, AVX, AVX2, AVX512F, AVX512VL = 1, 2, 4, 8, 16, 32, 64
MASKS = [("avx512", SSE2 | SSSE3 | SSE41 | AVX | AVX2 | AVX512F | AVX512VL), ("avx2", SSE2 | SSSE3 | SSE41 | AVX | AVX2),
         ("sse41", SSE2 | SSSE3 | SSE41), ("sse2", SSE2), ("none", 0)]
KEY = bytes(range(7, 39))
TOTAL_BUDGET_S = 170


def _run(cmd, timeout=300, cwd=None):
    try:
        p = subprocess.run(cmd, stdout=subprocess.PIPE, stderr=subprocess.PIPE, timeout=timeout, cwd=cwd)
        return p.returncode, p.stdout.decode("utf-8", "replace"), p.stderr.decode("utf-8", "replace")
    except subprocess.TimeoutExpired:
        return 124, "", "timeout"


def build(root, repo=None, only=None):
    """-> {flavour: exe}, log"""
    repo = repo or common.REPO
    c = os.path.join(repo, "c")
    log = []
    exes = {}
    procs = []

    def cc(args, out, san=None):
        return subprocess.Popen(["clang"] + (san or SAN) + ["-I" + c, "-Wno-everything"] + args + ["-o", out],
                                stdout=subprocess.PIPE, stderr=subprocess.STDOUT)
    asm = [os.path.join(c, "blake3_%s_x86-64_unix.S" % k) for k in ("sse2", "sse41", "avx2", "avx512")]
    flavours = {
        "portable": (NO_SIMD, []),
        "asm": ([], asm),
        "intrinsics": ([], "objs"),
        # -DBLAKE3_USE_TBB: blake3_hasher_update_tbb + the real c/blake3_tbb.cpp against the parallel_invoke stand-in
        "tbb_portable": (NO_SIMD + ["-DBLAKE3_USE_TBB"], "tbb"),
        "tbb_asm": (["-DBLAKE3_USE_TBB"], "tbb+asm"),
        # the same under ThreadSanitizer (instead of ASan/UBSan): the two halves on two threads; a reported race is a
        # failure of C08's "no data race" clause
        "tbb_tsan": (NO_SIMD + ["-DBLAKE3_USE_TBB"], "tbb+tsan"),
    }
    for name, (defs, extra) in flavours.items():
        if only and name not in only:
            continue
        exe = os.path.join(root, "cdrv_" + name)
        san = TSAN if (isinstance(extra, str) and extra.endswith("tsan")) else SAN
        if isinstance(extra, str) and extra.startswith("tbb"):
            o = os.path.join(root, "tbb_%s.o" % name)
            stub = os.path.join(common.VERIF, "lib", "c_driver", "tbb_stub")
            p = subprocess.Popen(["clang++"] + san + ["-std=c++17", "-fno-exceptions", "-fno-rtti", "-I" + stub, "-I" + c,
                                                      "-Wno-everything"] + defs + ["-c", os.path.join(c, "blake3_tbb.cpp"), "-o", o],
                                 stdout=subprocess.PIPE, stderr=subprocess.STDOUT)
            out = p.communicate()[0].decode("utf-8", "replace")
            if p.returncode != 0:
                log.append({"flavour": name, "ok": False, "error": out[-1500:]})
                continue
            extra = [o, "-lstdc++", "-lpthread"] + (asm if extra.endswith("asm") else [])
        if extra == "objs":
            objs = []
            ok = True
            for k, fl in (("sse2", ["-msse2"]), ("sse41", ["-msse4.1"]), ("avx2", ["-mavx2"]),
                          ("avx512", ["-mavx512f", "-mavx512vl"])):
                o = os.path.join(root, "k_%s.o" % k)
                p = cc(["-c"] + fl + [os.path.join(c, "blake3_%s.c" % k)], o)
                out = p.communicate()[0].decode("utf-8", "replace")
                if p.returncode != 0:
                    log.append({"flavour": name, "ok": False, "error": out[-1500:]})
                    ok = False
                    break
                objs.append(o)
            if not ok:
                continue
            extra = objs
        procs.append((name, exe, cc(defs + [DRIVER] + list(extra), exe, san)))
    for name, exe, p in procs:
        out = p.communicate()[0].decode("utf-8", "replace")
        if p.returncode == 0:
            exes[name] = exe
            log.append({"flavour": name, "ok": True})
        else:
            log.append({"flavour": name, "ok": False, "error": out[-1500:]})
    return exes, log


def pat(seed, n, off=0):
    return bytes(((seed + i * 131 + (i >> 8) * 7) & 0xFF) for i in range(off, off + n))


def splits_for(n, rnd):
    out = [[n], [0, n, 0]]
    if n >= 2:
        out += [[1, n - 1], [n - 1, 1], [n // 2, n - n // 2]]
    for a in (63, 64, 65, 512, 1023, 1024, 1025, 2048, 3072):
        if 0 < a < n:
            out.append([a, n - a])
            if n - a > 1:
                out.append([a, 1, n - a - 1])
    for piece in (64, 512, 1024, 4096):
        if piece < n <= piece * 200:
            k, r = divmod(n, piece)
            out.append([piece] * k + ([r] if r else []))
    for _ in range(2):
        if n >= 3:
            cuts = sorted(rnd.sample(range(1, n), min(3, n - 1)))
            out.append([b - a for a, b in zip([0] + cuts, cuts + [n])])
    seen, res = set(), []
    for s in out:
        t = tuple(s)
        if t not in seen and sum(s) == n:
            seen.add(t)
            res.append(s)
    return res


LENS = [0, 1, 2, 63, 64, 65, 127, 128, 129, 1023, 1024, 1025, 2047, 2048, 2049, 3071, 3072, 3073, 4096, 4097, 5120, 6144, 7168,
        8192, 8193, 9216, 12288, 16384, 16385, 17408, 31744, 32768, 33793, 65536, 66561, 102400, 131073]
CTXS = [b"", b"a", b"BLAKE3 2019-12-27 16:29:52 test vectors context", b"c" * 64, b"d" * 65, b"e" * 1024, b"f" * 1025, b"g" * 2049]


def scenarios(seed, function=""):
    rnd = random.Random(seed * 7919 + 13)
    sc = []
    # update/finalize histories, default output
    for n in LENS:
        for si, sp in enumerate(splits_for(n, rnd)):
            mode = (si + n) % 4
            sc.append(dict(mode=mode, key=KEY, ctx=CTXS[(si + n) % len(CTXS)].replace(b"\0", b"x"), seed=(n * 3 + si) & 0xFF,
                           in_len=n, place=(si + n) & 3, splits=sp, out_len=32 if si % 3 else 64 + si, seek=0,
                           out_place=si & 3))
    # every mode, every context length, single update
    for mode in (1, 2, 3):
        for ctx in CTXS:
            for n in (0, 1, 64, 1024, 1025, 4097):
                sc.append(dict(mode=mode, key=KEY, ctx=ctx, seed=17, in_len=n, place=0, splits=[n], out_len=32, seek=0, out_place=0))
    # out_len / seek
    for n in (0, 1, 64, 65, 1024, 1025, 2048, 5121):
        for out_len in (0, 1, 31, 32, 33, 63, 64, 65, 127, 128, 129, 1000, 64 * 17 + 3, 64 * 33):
            for seek in (0, 1, 63, 64, 65, 1023, 1024, (1 << 32) - 65, (1 << 32) - 1, 1 << 32, (1 << 38) - 64 * 5 - 7,
                         (1 << 64) - 1 - out_len, (1 << 64) - 64 - out_len if out_len < (1 << 63) else 0):
                if (n + out_len + seek) % 3 == 0 or seek in (0, (1 << 64) - 1 - out_len):
                    sc.append(dict(mode=(n + out_len) % 4, key=KEY, ctx=CTXS[2], seed=(n + out_len) & 0xFF, in_len=n, place=0,
                                   splits=[n] if n < 2 else [1, n - 1], out_len=out_len, seek=seek,
                                   out_place=(out_len + seek) & 3))
    if function and ("finalize" in function or "output" in function or "xof" in function):
        sc.sort(key=lambda s: 0 if (s["seek"] or s["out_len"] != 32) else 1)
    return sc


_EXPECT = {}


def expected(s):
    k = (s["mode"], s["ctx"] if s["mode"] >= 2 else b"", s["seed"], s["in_len"], s["out_len"], s["seek"])
    if k not in _EXPECT:
        data = pat(s["seed"], s["in_len"])
        mode = ("hash", "keyed", "derive", "derive")[s["mode"]]
        _EXPECT[k] = b3spec.blake3(data, mode=mode, key=s["key"] if s["mode"] == 1 else None,
                                   context=s["ctx"] if s["mode"] >= 2 else None, out_len=s["out_len"], seek=s["seek"])
    return _EXPECT[k]


def line(s, mask):
    return "S %d %s %s %d %d %d %d %s %d %d %d %d\n" % (
        s["mode"], s["key"].hex(), s["ctx"].hex() or "-", s["seed"], s["in_len"], s["place"], len(s["splits"]),
        " ".join(str(x) for x in s["splits"]), s["out_len"], s["seek"], s["out_place"], mask)


def run_batch(exe, scs, mask, timeout=120, tbb_order=None):
    """-> (index of failing scenario or None, failure dict or None, number checked)"""
    inp = "".join(line(s, mask) for s in scs)
    env = dict(os.environ, ASAN_OPTIONS="detect_leaks=0:abort_on_error=0:allocator_may_return_null=1",
               UBSAN_OPTIONS="print_stacktrace=1")
    if tbb_order is not None:
        env["VERIF_TBB_ORDER"] = str(tbb_order)
    env["TSAN_OPTIONS"] = "halt_on_error=1:exitcode=66:report_signal_unsafe=0"
    try:
        p = subprocess.run([exe], input=inp.encode(), stdout=subprocess.PIPE, stderr=subprocess.PIPE, timeout=timeout, env=env)
        rc, out, err = p.returncode, p.stdout.decode("utf-8", "replace"), p.stderr.decode("utf-8", "replace")
    except subprocess.TimeoutExpired as e:
        rc, out, err = 124, (e.stdout or b"").decode("utf-8", "replace"), "timeout after %ds" % timeout
    cur = -1
    answers = {}
    for ln in out.split("\n"):
        if ln.startswith("B "):
            cur = int(ln[2:])
        elif ln.startswith("R ") and cur >= 0:
            answers[cur] = ln.split()
    for i, s in enumerate(scs):
        a = answers.get(i)
        if a is None:
            if rc == 124:
                return None, None, i      # OUR time limit: never a finding
            if rc != 0 and i == cur:
                kind = "race" if "ThreadSanitizer" in err else \
                    "memory" if ("Sanitizer" in err or "runtime error" in err or "GUARD:" in err) else "crash"
                return i, {"class": kind, "field": "process ended with exit code %d" % rc, "observed": err[-2500:],
                           "expected": "no sanitizer report, no fault"}, i
            return None, None, i
        got = b"" if a[1] == "-" else bytes.fromhex(a[1])
        exp = expected(s)
        if got != exp:
            return i, {"class": "functional", "field": "output bytes", "observed": got.hex()[:400], "expected": exp.hex()[:400]}, i
        names = ["second finalize gives the same bytes", "finalize leaves the hasher unchanged",
                 "reset + same input gives the same bytes", "nothing outside out[0..out_len) written (canary)"]
        for j, nm in enumerate(names):
            if a[2 + j] != "1":
                return i, {"class": "memory" if j == 3 else "functional", "field": nm, "observed": "false", "expected": "true"}, i
    return None, None, len(scs)


def _scn_json(s, flavour, maskname, mask):
    d = dict(s)
    d["key"] = s["key"].hex()
    d["ctx"] = s["ctx"].hex()
    d.update(kind="c_api", flavour=flavour, feature_level=maskname, mask=mask)
    if "order" in maskname:
        d["tbb_order"] = int(maskname.rsplit("order", 1)[1])
    return d


def _accept(prop, m):
    # C07 is about memory safety / UB only; C06 about any observable difference
    # (C08: the -DBLAKE3_USE_TBB flavours, any difference from the oracle = from the serial result)
    if m["class"] == "race":
        return prop in ("C08", "C18")
    return m["class"] in ("memory", "crash") if prop == "C07" else True


def find(prop, fo, seed, deadline=None, repo=None):
    t0 = time.time()
    deadline = deadline or (t0 + TOTAL_BUDGET_S)
    function = (fo or {}).get("function") or ""
    log = {"function": function, "rule": "C API histories on the real C library (ASan+UBSan, guard pages) vs oracle/b3spec.py",
           "families": ["c_api"], "seed": seed, "oracle": "oracle/b3spec.py", "repo": repo or common.REPO,
           "scenarios_run": 0, "builds": [], "per_flavour": []}
    root = common.scratch_dir("search_c")
    found = None
    try:
        order = (fo or {}).get("variants") or (["tbb_tsan", "tbb_portable", "tbb_asm", "portable"] if prop == "C08"
                                               else ["portable", "asm", "intrinsics"])
        exes, blog = build(root, repo)
        log["builds"] = blog
        scs = scenarios(seed, function)
        jobs = []
        for fl in order:
            if exes.get(fl):
                if fl == "tbb_tsan":
                    jobs.append((fl, "none/order2", 0))
                    continue
                if fl.startswith("tbb"):
                    for o in (0, 1, 2):
                        for mname, mask in ([("none", 0)] if fl == "tbb_portable" else [MASKS[0], MASKS[3]]):
                            jobs.append((fl, "%s/order%d" % (mname, o), mask))
                    continue
                for mname, mask in ([("none", 0)] if fl == "portable" else MASKS):
                    jobs.append((fl, mname, mask))

        def one(job):
            fl, mname, mask = job
            exe = exes[fl]
            tbb_order = mname.rsplit("order", 1)[1] if "order" in mname else None
            pos, n_done, hit = 0, 0, None
            while pos < len(scs) and time.time() < deadline - 3:
                batch = scs[pos:pos + 150]
                i, m, done = run_batch(exe, batch, mask, timeout=max(10, int(deadline - time.time())), tbb_order=tbb_order)
                n_done += done
                if m is not None and _accept(prop, m):
                    # confirm in isolation with a generous time limit; a failure that does not repeat is noise
                    _, m2, _ = run_batch(exe, [batch[i]], mask, timeout=600, tbb_order=tbb_order)
                    if m2 is not None and _accept(prop, m2):
                        hit = (batch[i], m2)
                        break
                    if m["class"] == "race":
                        # races are timing dependent: three more attempts before the report is dropped
                        for _k in range(3):
                            _, m2, _ = run_batch(exe, [batch[i]], mask, timeout=600, tbb_order=tbb_order)
                            if m2 is not None and _accept(prop, m2):
                                hit = (batch[i], m2)
                                break
                        if hit:
                            break
                    log.setdefault("unconfirmed", []).append(str(m.get("field"))[:120])
                    pos += i + 1
                    continue
                # a failure of the other class is skipped over (reported by the other property)
                pos += (i + 1) if m is not None else len(batch)
            return job, n_done, hit, pos >= len(scs)

        from concurrent.futures import ThreadPoolExecutor
        with ThreadPoolExecutor(max_workers=8) as ex:
            results = list(ex.map(one, jobs))
        for (fl, mname, mask), n_done, hit, complete in results:
            log["per_flavour"].append({"flavour": fl, "feature_level": mname, "checked": n_done, "failed": bool(hit),
                                       "complete": complete})
            log["scenarios_run"] += n_done
            if hit and not found:
                s, m = hit
                found = {"scenario": _scn_json(s, fl, mname, mask), "features": [fl, mname], "family": "c_api",
                         "field": m["field"], "observed": m["observed"], "expected": m["expected"], "class": m["class"],
                         "panic": None, "panic_loc": None, "detail": None}
    finally:
        common.rm_rf(root)
    log["seconds"] = round(time.time() - t0, 1)
    return {"found": found, "log": log}


def rerun(fi, repo=None):
    sc = dict(fi["scenario"])
    sc["key"] = bytes.fromhex(sc["key"])
    sc["ctx"] = bytes.fromhex(sc["ctx"])
    root = common.scratch_dir("search_c")
    try:
        exes, blog = build(root, repo, only=[sc["flavour"]])
        exe = exes.get(sc["flavour"])
        if not exe:
            return {"reproduced": False, "error": "build failed: " + str(blog)[-1500:]}
        i, m, _ = run_batch(exe, [sc], sc["mask"], tbb_order=sc.get("tbb_order"))
        if m is None:
            return {"reproduced": False, "observed": "agrees with the oracle, no sanitizer report", "scenario": fi["scenario"]}
        return {"reproduced": True, "field": m["field"], "observed": m["observed"], "expected": m["expected"],
                "scenario": fi["scenario"], "repo": repo or common.REPO}
    finally:
        common.rm_rf(root)


if __name__ == "__main__":
    import argparse
    import json
    ap = argparse.ArgumentParser()
    ap.add_argument("--prop", default="C06")
    ap.add_argument("--find", default="blake3_hasher_update")
    ap.add_argument("--budget", type=int, default=TOTAL_BUDGET_S)
    a = ap.parse_args()
    r = find(a.prop, {"function": a.find}, 0, deadline=time.time() + a.budget)
    print(json.dumps(r, indent=1)[:6000])
    sys.exit(1 if r["found"] else 0)
