"""Mechanical extraction of the real Rust sources of /repo into one Verus file per unit.

  parse_file()      cut a source file into items under a cfg configuration (rule R12)
  Overlay           the out-of-place contracts (/verif/contracts/*.vc), keyed by function path,
                    loop ordinal and call ordinal
  assemble()        prelude + spec + extracted items with contracts spliced in, and a line map
                    assembled-line -> (origin file, line)

The rewrite rules are the ones listed in DESIGN.md section 3.1; anything outside them raises
ExtractError (the check then exits 2: undecided, never an alarm).
"""
import os
import re

from rstok import CLOSE, OPEN, LexError, Tok, match_close, split_args, strip_ws, tokenize


class ExtractError(Exception):
    pass


# Anchors of proof hints (@loop / @at / @subst) that no longer exist in the source. The function is still
# emitted with its @spec contract; the hints that lost their anchor are dropped and recorded here, and the
# back end treats failed obligations of such a function as undecided (never as an alarm by themselves).
LOST = []


# ----------------------------------------------------------------------------- tokens

def stoks(src, line=0, origin=None):
    """tokenize synthetic text; every token gets the given origin/line"""
    ts = tokenize(src)
    for t in ts:
        t.line = line
        t.src = origin
    return ts


def T(s, like):
    ts = stoks(s, like.line, getattr(like, "src", None))
    return ts


def sidx(toks, i):
    """next significant index >= i (or len)"""
    n = len(toks)
    while i < n and toks[i].k in ("ws", "comment", "mark"):
        i += 1
    return i


def pidx(toks, i):
    """previous significant index <= i (or -1)"""
    while i >= 0 and toks[i].k in ("ws", "comment", "mark"):
        i -= 1
    return i


def is_p(t, s):
    return t.k == "p" and t.s == s


def txt(toks):
    return "".join(t.s for t in toks)


def find_seq(toks, pat, start=0, end=None):
    """find significant-token sequence `pat` (list of strings); returns (first_idx, last_idx_inclusive) or None"""
    end = len(toks) if end is None else end
    i = start
    while i < end:
        i = sidx(toks, i)
        if i >= end:
            return None
        j, ok, last = i, True, i
        for p in pat:
            j = sidx(toks, j)
            if j >= end or toks[j].s != p:
                ok = False
                break
            last = j
            j += 1
        if ok:
            return (i, last)
        i += 1
    return None


def pat_of(s):
    return [t.s for t in strip_ws(tokenize(s))]


# ----------------------------------------------------------------------------- cfg

class Cfg:
    def __init__(self, name, flags, kv):
        self.name, self.flags, self.kv = name, set(flags), {k: set(v) for k, v in kv.items()}

    def eval_tokens(self, toks):
        """toks: significant tokens of a cfg predicate"""
        val, rest = self._pred(toks)
        if rest:
            raise ExtractError("cfg predicate not understood: " + txt(toks))
        return val

    def _pred(self, ts):
        if not ts:
            raise ExtractError("empty cfg predicate")
        h = ts[0].s
        if h in ("any", "all", "not") and len(ts) > 1 and ts[1].s == "(":
            c = match_close(ts, 1)
            args = [strip_ws(a) for a in split_args(ts[2:c])]
            vals = [self.eval_tokens(a) for a in args if a]
            v = any(vals) if h == "any" else all(vals) if h == "all" else (not vals[0])
            return v, ts[c + 1:]
        if len(ts) >= 3 and ts[1].s == "=":
            key, lit = h, ts[2].s.strip('"')
            return (lit in self.kv.get(key, ())), ts[3:]
        return (h in self.flags), ts[1:]


FEATURES_ON = ["std", "rayon", "mmap", "traits-preview", "zeroize", "default"]

CONFIGS = {
    # A: the build the pinned suite uses: x86-64 with the AVX-512 assembly
    "A": Cfg("A", ["unix", "debug_assertions", "blake3_sse2_ffi", "blake3_sse41_ffi", "blake3_avx2_ffi",
                   "blake3_avx512_ffi"],
             {"feature": FEATURES_ON, "target_arch": ["x86_64"], "target_os": ["linux"],
              "target_endian": ["little"], "target_pointer_width": ["64"]}),
    # B: x86-64 without AVX-512 (`pure`: Rust intrinsics, MAX_SIMD_DEGREE 8)
    "B": Cfg("B", ["unix", "debug_assertions", "blake3_sse2_rust", "blake3_sse41_rust", "blake3_avx2_rust"],
             {"feature": FEATURES_ON + ["pure"], "target_arch": ["x86_64"], "target_os": ["linux"],
              "target_endian": ["little"], "target_pointer_width": ["64"]}),
    # C: no SIMD at all (MAX_SIMD_DEGREE 1, _OR_2 = 2)
    "C": Cfg("C", ["unix", "debug_assertions"],
             {"feature": FEATURES_ON, "target_arch": ["riscv64"], "target_os": ["linux"],
              "target_endian": ["little"], "target_pointer_width": ["64"]}),
    # D: NEON (MAX_SIMD_DEGREE 4)
    "D": Cfg("D", ["unix", "debug_assertions", "blake3_neon"],
             {"feature": FEATURES_ON + ["neon"], "target_arch": ["aarch64"], "target_os": ["linux"],
              "target_endian": ["little"], "target_pointer_width": ["64"]}),
}


def _attr_end(toks, i):
    """toks[i] is '#'; return index just past the closing ']'"""
    j = sidx(toks, i + 1)
    if is_p(toks[j], "!"):
        j = sidx(toks, j + 1)
    if not is_p(toks[j], "["):
        raise ExtractError("bad attribute at line %d" % toks[i].line)
    return match_close(toks, j) + 1


def _attr_cfg(toks, i, e):
    """if attribute toks[i:e] is #[cfg(...)] return its predicate tokens (significant) else None"""
    inner = strip_ws(toks[i:e])
    # '#', '[', 'cfg', '(', ..., ')', ']'
    if len(inner) >= 6 and inner[2].s == "cfg" and inner[3].s == "(":
        return inner[4:-2]
    return None


def _attributed_extent(toks, i, end):
    """The extent of the thing an inner attribute applies to, starting at significant index i:
    a block, a statement (to ';'), a match arm / field / variant (to ',') or up to the enclosing '}'."""
    i = sidx(toks, i)
    if is_p(toks[i], "{"):
        return match_close(toks, i) + 1
    depth, j, seen_arrow = 0, i, False
    while j < end:
        t = toks[j]
        if t.k == "p":
            if t.s in OPEN:
                if depth == 0 and t.s == "{" and seen_arrow:
                    c = match_close(toks, j)
                    k = sidx(toks, c + 1)
                    return k + 1 if k < end and is_p(toks[k], ",") else c + 1
                depth += 1
            elif t.s in CLOSE:
                if depth == 0:
                    return j
                depth -= 1
            elif depth == 0 and t.s == ";":
                return j + 1
            elif depth == 0 and t.s == ",":
                return j + 1
            elif depth == 0 and t.s == ">" and j > 0 and is_p(toks[j - 1], "="):
                seen_arrow = True
                k = sidx(toks, j + 1)
                if toks[k].s == "unsafe":
                    k = sidx(toks, k + 1)
                if not is_p(toks[k], "{"):
                    seen_arrow = False  # expression arm: ends at ',' or '}'
                else:
                    j = k
                    continue
        j += 1
    return end


def strip_inner_attrs(toks, cfg):
    """R12 inside bodies / struct / enum bodies: evaluate #[cfg], drop every other attribute, cfg!()"""
    out, i, n = [], 0, len(toks)
    while i < n:
        t = toks[i]
        if is_p(t, "#") and (is_p(toks[sidx(toks, i + 1)], "[")):
            keep = True
            j = i
            while j < n and is_p(toks[j], "#") and is_p(toks[sidx(toks, j + 1)], "["):
                e = _attr_end(toks, j)
                pred = _attr_cfg(toks, j, e)
                if pred is not None and not cfg.eval_tokens(pred):
                    keep = False
                j = sidx(toks, e)
            if keep:
                i = j
            else:
                i = _attributed_extent(toks, j, n)
            continue
        if t.k == "ident" and t.s == "cfg" and is_p(toks[sidx(toks, i + 1)], "!"):
            o = sidx(toks, sidx(toks, i + 1) + 1)
            c = match_close(toks, o)
            v = cfg.eval_tokens(strip_ws(toks[o + 1:c]))
            out.extend(T("true" if v else "false", t))
            i = c + 1
            continue
        out.append(t)
        i += 1
    return out


# ----------------------------------------------------------------------------- items

class Item:
    def __init__(self, kind, name, toks, file):
        self.kind, self.name, self.toks, self.file = kind, name, toks, file
        self.children = []
        self.path = None
        self.derives = []
        self.impl_trait = None
        self.impl_self = None
        self.header = None    # tokens before the body '{' (for impl/trait/mod/fn)
        self.body = None      # tokens strictly inside the braces

    @property
    def line(self):
        for t in self.toks:
            if t.k not in ("ws", "comment"):
                return t.line
        return 0

    def __repr__(self):
        return "<%s %s>" % (self.kind, self.path or self.name)


ITEM_KW = {"fn", "struct", "enum", "union", "impl", "trait", "mod", "use", "type", "const", "static",
           "extern", "macro_rules"}


def _scan_to(toks, i, stops):
    """from i scan at delimiter depth 0 to the first token in stops; returns its index.
    When looking for a body `{` (item headers contain no expressions), a `{` inside `<...>`
    is a const-generic argument, not a body."""
    depth, angle = 0, 0
    track = "{" in stops
    n = len(toks)
    while i < n:
        t = toks[i]
        if t.k == "p":
            if track and depth == 0:
                if t.s == "<":
                    angle += 1
                elif t.s == ">" and toks[i - 1].s not in ("-", "=") and angle > 0:
                    angle -= 1
            if depth == 0 and t.s in stops and not (t.s == "{" and angle > 0):
                return i
            if t.s in OPEN:
                depth += 1
            elif t.s in CLOSE:
                depth -= 1
        i += 1
    raise ExtractError("item end not found")


def sanitize(s):
    return re.sub(r"[^A-Za-z0-9]+", "_", s).strip("_")


def parse_items(toks, cfg, file, parent_kind=None):
    """cut a token list (file, mod body, impl body, trait body) into items; cfg-evaluate attributes"""
    items, i, n = [], 0, len(toks)
    while True:
        i = sidx(toks, i)
        if i >= n:
            break
        start = i
        alive, derives = True, []
        # outer attributes
        while is_p(toks[i], "#"):
            e = _attr_end(toks, i)
            inner = strip_ws(toks[i:e])
            if is_p(inner[1], "!"):
                pass  # crate-level attribute: dropped
            else:
                pred = _attr_cfg(toks, i, e)
                if pred is not None:
                    if not cfg.eval_tokens(pred):
                        alive = False
                elif inner[2].s == "derive":
                    derives += [t.s for t in inner[4:-2] if t.k == "ident"]
            i = sidx(toks, e)
        astart = i
        # visibility
        if toks[i].s == "pub":
            j = sidx(toks, i + 1)
            if is_p(toks[j], "("):
                j = sidx(toks, match_close(toks, j) + 1)
            i = j
        vstart = i
        # qualifiers
        while toks[i].s in ("const", "unsafe", "async", "default", "extern") and toks[sidx(toks, i + 1)].s in (
                "fn", "unsafe", "extern", "async", "impl", "trait") or (
                toks[i].s == "extern" and toks[sidx(toks, i + 1)].k == "str"):
            i = sidx(toks, i + 1)
            if toks[i].k == "str":
                i = sidx(toks, i + 1)
        kw = toks[i].s
        it = None
        if kw == "fn":
            name = toks[sidx(toks, i + 1)].s
            e = _scan_to(toks, i, ("{", ";"))
            if is_p(toks[e], "{"):
                c = match_close(toks, e)
                it = Item("fn", name, toks[vstart:c + 1], file)
                it.header, it.body = toks[vstart:e], toks[e + 1:c]
                end = c + 1
            else:
                it = Item("fndecl", name, toks[vstart:e + 1], file)
                it.header = toks[vstart:e]
                end = e + 1
        elif kw in ("struct", "enum", "union"):
            name = toks[sidx(toks, i + 1)].s
            e = _scan_to(toks, i, ("{", ";"))
            if is_p(toks[e], "{"):
                e = match_close(toks, e)
            it = Item(kw, name, toks[vstart:e + 1], file)
            end = e + 1
        elif kw in ("impl", "trait", "mod"):
            e = _scan_to(toks, i, ("{", ";"))
            if is_p(toks[e], ";"):
                it = Item("moddecl", toks[sidx(toks, i + 1)].s, toks[vstart:e + 1], file)
                end = e + 1
            else:
                c = match_close(toks, e)
                hdr = toks[i:e]
                if kw == "impl":
                    h = strip_ws(hdr)[1:]
                    # skip generics
                    k = 0
                    if h and h[0].s == "<":
                        d = 0
                        while True:
                            if h[k].s == "<":
                                d += 1
                            elif h[k].s == ">" and not (k and h[k - 1].s == "-"):
                                d -= 1
                                if d == 0:
                                    break
                            k += 1
                        k += 1
                    rest = h[k:]
                    # cut a where clause
                    for w, t in enumerate(rest):
                        if t.s == "where":
                            rest = rest[:w]
                            break
                    fpos = [w for w, t in enumerate(rest) if t.s == "for"]
                    if fpos:
                        tr, ty = rest[:fpos[0]], rest[fpos[0] + 1:]
                    else:
                        tr, ty = None, rest
                    name = "".join(t.s for t in ty)
                    it = Item("impl", name, toks[vstart:c + 1], file)
                    it.impl_self = name
                    it.impl_trait = "".join(t.s for t in tr) if tr else None
                else:
                    name = toks[sidx(toks, i + 1)].s
                    it = Item(kw, name, toks[vstart:c + 1], file)
                it.header, it.body = toks[vstart:e], toks[e + 1:c]
                if alive:
                    it.children = parse_items(it.body, cfg, file, kw)
                end = c + 1
        elif kw in ("use", "type", "const", "static", "extern"):
            e = _scan_to(toks, i, (";",))
            j = sidx(toks, i + 1)
            if kw == "const" and toks[j].s == "_":
                name = "_"
            else:
                if toks[j].s == "mut":
                    j = sidx(toks, j + 1)
                name = toks[j].s
            it = Item(kw, name, toks[vstart:e + 1], file)
            end = e + 1
        elif kw == "macro_rules":
            j = sidx(toks, sidx(toks, i + 1) + 1)
            name = toks[j].s
            o = sidx(toks, j + 1)
            c = match_close(toks, o)
            end = c + 1
            k = sidx(toks, end)
            if k < n and is_p(toks[k], ";"):
                end = k + 1
            it = Item("macro_rules", name, toks[vstart:end], file)
        elif toks[i].k == "ident":
            # macro invocation  path::name! { ... }  /  name!(...);
            j = i
            path = [toks[j].s]
            j = sidx(toks, j + 1)
            while is_p(toks[j], ":"):
                j = sidx(toks, sidx(toks, j + 1) + 1)
                path.append(toks[j].s)
                j = sidx(toks, j + 1)
            if not is_p(toks[j], "!"):
                raise ExtractError("%s:%d: item not understood near %r" % (file, toks[i].line, toks[i].s))
            o = sidx(toks, j + 1)
            c = match_close(toks, o)
            end = c + 1
            k = sidx(toks, end)
            if k < n and is_p(toks[k], ";"):
                end = k + 1
            if path[-1] == "cfg_if":
                if alive:
                    items.extend(_cfg_if(toks[o + 1:c], cfg, file, parent_kind))
                i = end
                continue
            it = Item("macro", "::".join(path), toks[vstart:end], file)
        else:
            raise ExtractError("%s:%d: item not understood near %r" % (file, toks[i].line, toks[i].s))
        it.derives = derives
        if alive:
            items.append(it)
        i = end
    return items


def _cfg_if(toks, cfg, file, parent_kind):
    """cfg_if! { if #[cfg(p)] { items } else if #[cfg(q)] { items } else { items } }"""
    i, n = 0, len(toks)
    while True:
        i = sidx(toks, i)
        if i >= n:
            return []
        if toks[i].s == "else":
            i = sidx(toks, i + 1)
        take = True
        if toks[i].s == "if":
            i = sidx(toks, i + 1)
            e = _attr_end(toks, i)
            pred = _attr_cfg(toks, i, e)
            take = cfg.eval_tokens(pred)
            i = sidx(toks, e)
        if not is_p(toks[i], "{"):
            raise ExtractError("cfg_if! shape not understood at line %d" % toks[i].line)
        c = match_close(toks, i)
        if take:
            return parse_items(toks[i + 1:c], cfg, file, parent_kind)
        i = c + 1


def parse_file(path, cfg, relname=None):
    from common import read
    src = read(path)
    toks = tokenize(src)
    rel = relname or path
    for t in toks:
        t.src = rel
    return parse_items(toks, cfg, rel)


def assign_paths(items, prefix, out):
    """item paths: crate::mod::Type::method; trait impl methods of external traits: Type::Trait__method"""
    for it in items:
        if it.kind == "impl":
            base = prefix + "::" + sanitize_type(it.impl_self)
            tr = it.impl_trait
            it.path = base + ("{impl %s}" % tr if tr else "{impl}")
            for ch in it.children:
                if tr:
                    ch.trait_name = tr
                    ch.path = base + "::" + sanitize(tr.split("::")[-1] if "<" not in tr else
                                                      tr.split("<")[0].split("::")[-1] + "_" + tr.split("<", 1)[1]) \
                        + "__" + ch.name
                else:
                    ch.path = base + "::" + ch.name
                ch.parent = it
                out[ch.path] = ch
        elif it.kind in ("trait",):
            it.path = prefix + "::" + it.name
            out[it.path] = it
            for ch in it.children:
                ch.path = it.path + "::" + ch.name
                ch.parent = it
                out[ch.path] = ch
        elif it.kind == "mod":
            it.path = prefix + "::" + it.name
            assign_paths(it.children, it.path, out)
        else:
            it.path = prefix + "::" + it.name
            if it.path in out and it.kind == "use":
                continue
            out[it.path] = it
    return out


def sanitize_type(s):
    # Hash, [u8;OUT_LEN] -> u8_OUT_LEN, Mode<'a> -> Mode
    s = re.sub(r"<.*>", "", s)
    return sanitize(s) if not re.match(r"^[A-Za-z_][A-Za-z0-9_]*$", s) else s


# ----------------------------------------------------------------------------- overlay

class FnContract:
    def __init__(self, path, mode, where):
        self.path, self.mode, self.where = path, mode, where
        self.ret = None
        self.spec = None          # (text, file, line)
        self.loops = {}           # ordinal -> (text, file, line)
        self.ats = []             # (anchor string, text, file, line)
        self.substs = []          # (pattern, replacement, file, line)
        self.attrs = []           # extra attributes, e.g. #[verifier::rlimit(50)]
        self.props = []
        self.sig = None           # replacement signature for trusted items, optional


class Overlay:
    """Parsed *.vc files. Directives start in column 0 with '@'."""

    def __init__(self):
        self.fns = {}         # path -> FnContract
        self.items = []       # (path, file, line) plain items to include verbatim
        self.raw = {}         # module path -> list of (text, file, line)
        self.uses = {}        # module path -> list of text
        self.order = []       # module order
        self.files = []
        self.traits = set()   # local traits whose impls are kept as trait impls
        self.global_substs = []
        self.cfgname = None
        self.derive_guards = []
        self.field_guards = []

    def load(self, path, assumed=False):
        """assumed=True: every function contract of this overlay is emitted as an assumed contract
        (external_body); its body is verified by another unit that loads the same overlay normally"""
        from common import read
        self.files.append(path)
        self._assumed = assumed
        lines = read(path).split("\n")
        rel = os.path.relpath(path, os.path.dirname(os.path.dirname(os.path.abspath(__file__))))
        mod, cur, i = "crate", None, 0

        def block(i):
            """collect lines until the next directive; returns (text, first_line_no, next_i)"""
            start = i
            buf = []
            while i < len(lines) and not lines[i].startswith("@"):
                buf.append(lines[i])
                i += 1
            return "\n".join(buf).rstrip() + "\n", start + 1, i

        while i < len(lines):
            ln = lines[i]
            if not ln.startswith("@"):
                i += 1
                continue
            parts = ln.split(None, 1)
            d, arg = parts[0], (parts[1].strip() if len(parts) > 1 else "")
            i += 1
            if d == "@module":
                mod = arg
                if mod not in self.order:
                    self.order.append(mod)
            elif d == "@use":
                self.uses.setdefault(mod, []).append(arg)
            elif d == "@raw":
                text, l0, i = block(i)
                # `@raw cfg=A,B` : only for those configurations
                if arg.startswith("cfg=") and self.cfgname not in arg[4:].split(","):
                    continue
                self.raw.setdefault(mod, []).append((text, rel, l0))
                if mod not in self.order:
                    self.order.append(mod)
            elif d == "@end" or d == "@endfn":
                cur = None
            elif d == "@item":
                for p in arg.split():
                    self.items.append((p, rel, i))
            elif d == "@derive":
                # `@derive crate::Hasher Clone`: the type-system assumption "derive(Clone) copies field-wise"
                # is only valid while the derive is there
                a = arg.split()
                self.derive_guards.append((a[0], a[1:], rel, i))
            elif d == "@fields":
                # `@fields crate::OutputReader -> crate::OutputReader::Zeroize__zeroize : inner position_within_block`
                # a contract that enumerates the fields of a struct (whole-state postconditions, `zeroed()`) is only
                # about the whole state while the struct has exactly these fields
                head, _, names = arg.partition(" : ")
                ty, _, blame = head.partition("->")
                self.field_guards.append((ty.strip(), blame.strip() or ty.strip(), names.split(), rel, i))
            elif d == "@localtrait":
                self.traits.add(arg)
            elif d == "@gsubst":
                a, b = _parse_subst(arg, rel, i)
                self.global_substs.append((a, b, rel, i))
            elif d == "@fn":
                a = arg.split()
                cur = FnContract(a[0], a[1] if len(a) > 1 else "verify", (rel, i))
                if self._assumed and cur.mode == "verify":
                    cur.mode = "assumed"
                cur.props = [x for x in a[2:]]
                if cur.path in self.fns:
                    raise ExtractError("%s:%d: duplicate contract for %s" % (rel, i, cur.path))
                self.fns[cur.path] = cur
            elif cur is None:
                raise ExtractError("%s:%d: directive %s outside @fn" % (rel, i, d))
            elif d == "@ret":
                cur.ret = arg
            elif d == "@attr":
                cur.attrs.append(arg)
            elif d == "@sig":
                text, l0, i = block(i)
                cur.sig = (text, rel, l0)
            elif d == "@spec":
                text, l0, i = block(i)
                cur.spec = (text, rel, l0)
            elif d == "@loop":
                text, l0, i = block(i)
                cur.loops[int(arg)] = (text, rel, l0)
            elif d == "@at":
                text, l0, i = block(i)
                cur.ats.append((arg, text, rel, l0))
            elif d == "@subst":
                a, b = _parse_subst(arg, rel, i)
                cur.substs.append((a, b, rel, i))
            else:
                raise ExtractError("%s:%d: unknown directive %s" % (rel, i, d))


def _parse_subst(arg, rel, line):
    m = re.match(r"^`(.*?)`\s*=>\s*`(.*)`\s*$", arg)
    if not m:
        raise ExtractError("%s:%d: @subst wants `pattern` => `replacement`" % (rel, line))
    return pat_of(m.group(1)), m.group(2)


# ----------------------------------------------------------------------------- body rewriting

class Mark(Tok):
    """zero-width anchor token"""
    __slots__ = ("anchor",)

    def __init__(self, anchor, like):
        Tok.__init__(self, "mark", "", like.pos, like.line)
        self.src = getattr(like, "src", None)
        self.anchor = anchor


LOOP_KW = ("while", "for", "loop")


def _loop_positions(toks):
    """indices of loop keywords in textual order (labels `'a: loop` included)"""
    res = []
    for i, t in enumerate(toks):
        if t.k == "ident" and t.s in LOOP_KW:
            p = pidx(toks, i - 1)
            # `for` in `impl X for Y` / HRTB `for<'a>` cannot occur inside fn bodies we handle
            if t.s == "for" and is_p(toks[sidx(toks, i + 1)], "<"):
                continue
            res.append(i)
    return res


def _loop_body_open(toks, i):
    """index of the '{' opening the body of the loop whose keyword is at i"""
    depth, j = 0, i + 1
    while j < len(toks):
        t = toks[j]
        if t.k == "p":
            if t.s == "{" and depth == 0:
                return j
            if t.s in OPEN:
                depth += 1
            elif t.s in CLOSE:
                depth -= 1
        j += 1
    raise ExtractError("loop body not found")


def _stmt_start(toks, i, lo):
    """start index of the statement containing token i (scan back to ';', '{' or a block-closing '}')"""
    depth, j = 0, i - 1
    while j >= lo:
        t = toks[j]
        if t.k == "p":
            if t.s in (")", "]"):
                depth += 1
            elif t.s in ("(", "["):
                if depth == 0:
                    # inside a call argument list / parenthesised expr: keep going outwards
                    j -= 1
                    continue
                depth -= 1
            elif t.s == "}":
                if depth == 0:
                    # a preceding block statement ends here -- unless it is followed by `else` / a method chain
                    nx = sidx(toks, j + 1)
                    if not (nx < len(toks) and toks[nx].s in ("else", ".", "?")):
                        return j + 1
                depth += 1
            elif t.s == "{":
                if depth == 0:
                    return j + 1
                depth -= 1
            elif t.s == ";" and depth == 0:
                return j + 1
        j -= 1
    return lo


def _stmt_end(toks, i, hi):
    """index just past the ';' ending the statement containing token i (or the block end)"""
    depth, j = 0, i
    while j < hi:
        t = toks[j]
        if t.k == "p":
            if t.s in OPEN:
                depth += 1
            elif t.s in CLOSE:
                if depth == 0:
                    if t.s == "}":
                        return j
                    # inside a call argument list / parenthesised expression: keep going outwards
                    j += 1
                    continue
                depth -= 1
            elif t.s == ";" and depth == 0:
                return j + 1
        j += 1
    return hi


def place_marks(body, fc):
    """insert Mark tokens for every anchor the contract uses. body: tokens inside the fn braces.
    Anchors: fn-entry | fn-end | before-return | loop K inv | loop K body-start | loop K body-end |
             after-loop K | before-call N of <callee tokens> | after-call N of <callee tokens>"""
    wanted = [("loop %d inv" % k) for k in fc.loops] + [a for (a, _, _, _) in fc.ats]
    ins = []  # (index, order, Mark)
    loops = _loop_positions(body)
    if not body:
        return body
    first = body[0]
    for w in wanted:
        m = re.match(r"^loop (\d+) (inv|body-start|body-end)$", w) or re.match(r"^(after-loop|before-loop) (\d+)$", w)
        if m:
            if m.group(1) in ("after-loop", "before-loop"):
                k, what = int(m.group(2)), m.group(1).split("-")[0]
            else:
                k, what = int(m.group(1)), m.group(2)
            if k < 1 or k > len(loops):
                LOST.append((fc.path, "%s has no loop %d (contract %s:%d)" % (fc.path, k, *fc.where)))
                continue
            kw = loops[k - 1]
            o = _loop_body_open(body, kw)
            c = match_close(body, o)
            pos = {"inv": o, "body-start": o + 1, "body-end": c, "after": c + 1, "before": kw}[what]
            ins.append((pos, Mark(w, body[min(pos, len(body) - 1)])))
            continue
        m = re.match(r"^(before|after)-(call|tokens) (\d+) of (.+)$", w)
        if m:
            m = re.match(r"^(before|after)-(?:call|tokens) (\d+) of (.+)$", w), m.group(2)
            pat = pat_of(m[0].group(3)) + (["("] if m[1] == "call" else [])
            m = m[0]
            nth, start, hit = int(m.group(2)), 0, None
            for _ in range(nth):
                hit = find_seq(body, pat, start)
                if hit is None:
                    break
                start = hit[0] + 1
            if hit is None:
                LOST.append((fc.path, "%s has no call %d of `%s` (contract %s:%d)"
                             % (fc.path, nth, m.group(3), *fc.where)))
                continue
            if m.group(1) == "before":
                pos = sidx(body, _stmt_start(body, hit[0], 0))
            else:
                pos = _stmt_end(body, hit[0], len(body))
            ins.append((pos, Mark(w, body[min(pos, len(body) - 1)])))
            continue
        if w == "fn-entry":
            ins.append((0, Mark(w, first)))
        elif w == "fn-end":
            ins.append((len(body), Mark(w, body[-1])))
        elif w == "before-return":
            last = pidx(body, len(body) - 1)
            if last >= 0 and body[last].k == "p" and body[last].s in CLOSE:
                # the tail expression ends with a delimited group (struct literal, call, block): skip it
                depth, q = 0, last
                while q >= 0:
                    if body[q].k == "p" and body[q].s in CLOSE:
                        depth += 1
                    elif body[q].k == "p" and body[q].s in OPEN:
                        depth -= 1
                        if depth == 0:
                            break
                    q -= 1
                last = q - 1
            pos = sidx(body, _stmt_start(body, last + 1, 0)) if last >= 0 else 0
            ins.append((pos, Mark(w, body[min(pos, len(body) - 1)])))
        else:
            raise ExtractError("unknown anchor `%s` (contract %s:%d)" % (w, *fc.where))
    out = list(body)
    for pos, mk in sorted(ins, key=lambda x: -x[0]):
        out.insert(pos, mk)
    return out


def _macro_calls(toks, names):
    """yield (start, bang_open, close, name) for `name ! (` invocations"""
    i = 0
    while i < len(toks):
        t = toks[i]
        if t.k == "ident" and t.s in names:
            b = sidx(toks, i + 1)
            if b < len(toks) and is_p(toks[b], "!"):
                o = sidx(toks, b + 1)
                if o < len(toks) and toks[o].s in OPEN:
                    c = match_close(toks, o)
                    yield i, o, c, t.s
                    i = o + 1
                    continue
        i += 1


def rewrite_macros(toks):
    """R1 (arrayref) and R2 (assert family)"""
    names = {"array_ref", "array_mut_ref", "debug_assert", "assert", "debug_assert_eq", "assert_eq",
             "debug_assert_ne", "assert_ne"}
    changed = True
    while changed:
        changed = False
        for s, o, c, name in _macro_calls(toks, names):
            args = split_args(toks[o + 1:c])
            like = toks[s]
            marks = [t for t in toks[s:c + 1] if t.k == "mark"]
            if name in ("array_ref", "array_mut_ref"):
                if len(args) != 3:
                    raise ExtractError("%s! with %d args at line %d" % (name, len(args), like.line))
                a, off, ln = args
                mut = "mut " if name == "array_mut_ref" else ""
                new = (T("vf_%s::<_, {" % name, like) + ln + T("}>(&%s" % mut, like) + T("(", like) + a
                       + T(")[..], ", like) + off + T(")", like))
            else:
                if name.endswith("_eq") or name.endswith("_ne"):
                    op = "==" if name.endswith("_eq") else "!="
                    cond = T("(", like) + args[0] + T(") %s (" % op, like) + args[1] + T(")", like)
                else:
                    cond = args[0]
                nx = sidx(toks, c + 1)
                # `debug_assert*!` does not evaluate its arguments in builds without debug assertions: an argument
                # that calls something which may mutate (`debug_assert!(file.rewind().is_ok())`) is executed in
                # one build profile and skipped in the other. The contracts are about both: such a statement is
                # guarded by an unknown boolean (prelude: vf_debug_assertions_enabled()), so that everything after
                # it has to verify with and without the side effect. (Pure arguments keep the plain form.)
                argtxt = "".join(t.s for t in cond if t.k not in ("ws", "comment", "mark"))
                impure = name.startswith("debug_") and re.search(
                    r"\.(rewind|seek|read|read_exact|write|write_all|flush|update|update_\w+|push|pop|clear|reset|fill|"
                    r"set_position|zeroize|insert|remove|truncate|extend\w*|take|next|finalize_\w*reset\w*|set_\w+|"
                    r"try_push|drain|swap|copy_from_slice|fill_\w+|merge_\w+|push_\w+|advance\w*|consume)\(", argtxt)
                if impure:
                    new = T("if crate::vf_debug_assertions_enabled() { let vf_dbg: bool = ", like) + cond + T("; assert(vf_dbg); }", like)
                    if nx < len(toks) and is_p(toks[nx], ";"):
                        # `if c { .. };` is fine in statement position
                        pass
                elif nx < len(toks) and is_p(toks[nx], ";"):
                    # statement position: two plain statements (a bare block right after a loop body
                    # trips Verus' parser)
                    new = T("let vf_dbg: bool = ", like) + cond + T("; assert(vf_dbg)", like)
                else:
                    new = T("{ let vf_dbg: bool = ", like) + cond + T("; assert(vf_dbg); }", like)
            toks[s:c + 1] = [t for t in new if t.k != "mark"] + marks
            changed = True
            break
    return toks


def rewrite_anyhow(toks):
    """R17 (opt-in, unit option `anyhow`): `bail!(..)` -> `return Err(vf_err())`,
    `ensure!(c, ..)` -> `if !(c) { return Err(vf_err()); }` (message arguments dropped; an optional
    `anyhow::` path prefix is consumed). `anyhow::Result<T>` is renamed by the unit's @gsubst."""
    changed = True
    while changed:
        changed = False
        for s, o, c, name in _macro_calls(toks, {"bail", "ensure"}):
            like = toks[s]
            a = s
            p1 = pidx(toks, s - 1)
            p2 = pidx(toks, p1 - 1) if p1 > 0 else -1
            p3 = pidx(toks, p2 - 1) if p2 > 0 else -1
            if p3 >= 0 and is_p(toks[p1], ":") and is_p(toks[p2], ":") and toks[p3].s == "anyhow":
                a = p3
            marks = [t for t in toks[a:c + 1] if t.k == "mark"]
            if name == "bail":
                new = T("return Err(vf_err())", like)
            else:
                args = split_args(toks[o + 1:c])
                if not args or not strip_ws(args[0]):
                    raise ExtractError("ensure! without a condition at line %d" % like.line)
                cond = [t for t in args[0] if t.k != "mark"]
                new = T("if !(", like) + cond + T(") { return Err(vf_err()); }", like)
            toks[a:c + 1] = new + marks
            changed = True
            break
    return toks


def _format_pieces(lit, line):
    """split the SOURCE text of a plain string literal used as a format string at its `{}` placeholders.
    returns a list of ("lit", source text of a string literal) / ("arg", None). Only `{}` is inside the rule;
    `{{` / `}}` are the escaped braces; escape sequences are copied verbatim (`\\u{..}` keeps its braces)."""
    if not (lit.startswith('"') and lit.endswith('"') and len(lit) >= 2):
        raise ExtractError("print!: format string is not a plain string literal at line %d" % line)
    s, out, cur, i = lit[1:-1], [], "", 0
    while i < len(s):
        c = s[i]
        if c == "\\":
            if s.startswith("\\u{", i):
                j = s.index("}", i) + 1
            else:
                j = i + 2
            cur += s[i:j]
            i = j
        elif s.startswith("{{", i) or s.startswith("}}", i):
            cur += c
            i += 2
        elif s.startswith("{}", i):
            if cur:
                out.append(("lit", '"' + cur + '"'))
            out.append(("arg", None))
            cur = ""
            i += 2
        elif c in "{}":
            raise ExtractError("print!: format spec other than `{}` at line %d" % line)
        else:
            cur += c
            i += 1
    if cur:
        out.append(("lit", '"' + cur + '"'))
    return out


def rewrite_print(toks, fns):
    """R21 (opt-in, unit option `print_model` = names of the free functions that write to stdout): stdout is a ghost
    log `vf_out: &mut VfStdout` (prelude) threaded through exactly those functions.
      print!("a {} b", x)   -> vf_stdout_write(vf_out, "a "); vf_stdout_write_disp(vf_out, &(x)); vf_stdout_write(vf_out, " b")
      println!(..)          -> the same followed by vf_stdout_write(vf_out, "\\n");   println!() -> only that
      f(args) for f in fns  -> f(vf_out, args)            (the matching parameter is added to f's signature by rewrite_fn)
    Pieces are written in format-string order, arguments are taken by reference as the macro does. Statement position
    gives plain statements, expression position a block."""
    # R21b: eprint!/eprintln! write to stderr, which is not modelled: the ARGUMENTS are still evaluated (by reference,
    # as the macro does) so that their own obligations are generated; the text is dropped
    changed = True
    while changed:
        changed = False
        for s, o, c, name in _macro_calls(toks, {"eprint", "eprintln"}):
            like = toks[s]
            marks = [t for t in toks[s:c + 1] if t.k == "mark"]
            args = [[t for t in a if t.k != "mark"] for a in split_args(toks[o + 1:c])]
            if args:
                fmt = strip_ws(args[0])
                if len(fmt) != 1 or fmt[0].k != "str":
                    raise ExtractError("%s!: first argument is not a string literal at line %d" % (name, like.line))
            new = []
            for n_, a in enumerate(args[1:]):
                new += (T("; ", like) if n_ else []) + T("vf_stderr_note(&(", like) + a + T("))", like)
            nx = sidx(toks, c + 1)
            stmt = nx < len(toks) and is_p(toks[nx], ";")
            if not stmt:
                new = T("{ ", like) + new + T("; }", like)
            elif not new:
                new = T("()", like)
            toks[s:c + 1] = new + marks
            changed = True
            break
    changed = True
    while changed:
        changed = False
        for s, o, c, name in _macro_calls(toks, {"print", "println"}):
            like = toks[s]
            marks = [t for t in toks[s:c + 1] if t.k == "mark"]
            args = [[t for t in a if t.k != "mark"] for a in split_args(toks[o + 1:c])]
            calls = []
            if args:
                fmt = strip_ws(args[0])
                if len(fmt) != 1 or fmt[0].k != "str":
                    raise ExtractError("%s!: first argument is not a string literal at line %d" % (name, like.line))
                rest, k = args[1:], 0
                for kind, lit in _format_pieces(fmt[0].s, like.line):
                    if kind == "lit":
                        calls.append(T("vf_stdout_write(vf_out, %s)" % lit, like))
                    else:
                        if k >= len(rest):
                            raise ExtractError("%s!: more `{}` than arguments at line %d" % (name, like.line))
                        calls.append(T("vf_stdout_write_disp(vf_out, &(", like) + rest[k] + T("))", like))
                        k += 1
                if k != len(rest):
                    raise ExtractError("%s!: %d argument(s) but %d `{}` at line %d" % (name, len(rest), k, like.line))
            if name == "println":
                calls.append(T('vf_stdout_write(vf_out, "\\n")', like))
            nx = sidx(toks, c + 1)
            stmt = nx < len(toks) and is_p(toks[nx], ";")
            new = []
            for n_, cl in enumerate(calls):
                new += (T("; ", like) if n_ else []) + cl
            if not stmt:
                new = T("{ ", like) + new + T("; }", like)
            elif not calls:
                new = T("()", like)
            toks[s:c + 1] = new + marks
            changed = True
            break
    # calls of the functions that carry the log
    i = 0
    while i < len(toks):
        t = toks[i]
        if t.k == "ident" and t.s in fns:
            p = pidx(toks, i - 1)
            o = sidx(toks, i + 1)
            if (o < len(toks) and is_p(toks[o], "(") and not (p >= 0 and (toks[p].s in (".", "fn") or (is_p(toks[p], ":") and p > 0 and is_p(toks[p - 1], ":"))))):
                c = match_close(toks, o)
                empty = not strip_ws([x for x in toks[o + 1:c] if x.k != "mark"])
                toks[o + 1:o + 1] = T("vf_out" if empty else "vf_out, ", t)
        i += 1
    return toks


def add_print_param(hdr, name):
    """R21: `fn name(params)` -> `fn name(vf_out: &mut VfStdout, params)` (free functions only)"""
    for k, t in enumerate(hdr):
        if t.k == "ident" and t.s == "fn":
            j = sidx(hdr, k + 1)
            o = sidx(hdr, j + 1)
            if is_p(hdr[o], "<"):
                raise ExtractError("print_model: generic function %s is outside rule R21" % name)
            if not is_p(hdr[o], "("):
                break
            c = match_close(hdr, o)
            inner = strip_ws(hdr[o + 1:c])
            if any(x.k == "ident" and x.s == "self" for x in inner[:3]):
                raise ExtractError("print_model: method %s is outside rule R21" % name)
            hdr[o + 1:o + 1] = T("vf_out: &mut VfStdout, " if inner else "vf_out: &mut VfStdout", hdr[o])
            return hdr
    raise ExtractError("print_model: parameter list of %s not found" % name)


def apply_subst(toks, pat, repl, like_src=None, count=None):
    """replace every occurrence of significant-token sequence `pat` by the tokens of repl.
    returns number of replacements"""
    nrep, start = 0, 0
    while True:
        hit = find_seq(toks, pat, start)
        if hit is None:
            return nrep
        a, b = hit
        new = T(repl, toks[a])
        marks = [t for t in toks[a:b + 1] if t.k == "mark"]
        toks[a:b + 1] = new + marks
        start = a + len(new)
        nrep += 1
        if count and nrep >= count:
            return nrep


def rewrite_minmax(toks):
    """R3: cmp::min(a, b) -> inline `if a <= b {a} else {b}` (std's definition on integers)"""
    for name, op in (("min", "<="), ("max", ">")):
        while True:
            hit = None
            for pat in (["core", ":", ":", "cmp", ":", ":", name, "("], ["std", ":", ":", "cmp", ":", ":", name, "("],
                        ["cmp", ":", ":", name, "("]):
                hit = find_seq(toks, pat)
                if hit:
                    break
            if not hit:
                break
            a, o = hit
            c = match_close(toks, o)
            args = split_args(toks[o + 1:c])
            like = toks[a]
            # min: if b < a { b } else { a }   ==  std::cmp::min ; max: if b < a {a} else {b}... keep std's tie rule
            if name == "min":
                new = (T("{ let vf_a = ", like) + args[0] + T("; let vf_b = ", like) + args[1]
                       + T("; if vf_b < vf_a { vf_b } else { vf_a } }", like))
            else:
                new = (T("{ let vf_a = ", like) + args[0] + T("; let vf_b = ", like) + args[1]
                       + T("; if vf_b < vf_a { vf_a } else { vf_b } }", like))
            toks[a:c + 1] = new
    return toks


def rewrite_join(toks, order):
    """R5: J::join(|| a, || b) -> (a, b)  or, order == 'rl', { let vf_r = b; let vf_l = a; (vf_l, vf_r) }"""
    while True:
        hit = find_seq(toks, ["J", ":", ":", "join", "("])
        if not hit:
            return toks
        a, o = hit
        c = match_close(toks, o)
        args = split_args(toks[o + 1:c])
        if len(args) != 2:
            raise ExtractError("J::join with %d args" % len(args))
        exprs = []
        for arg in args:
            s = strip_ws(arg)
            if not (is_p(s[0], "|") and is_p(s[1], "|")):
                raise ExtractError("J::join argument is not a `|| expr` closure (line %d)" % s[0].line)
            k = arg.index(s[1])
            exprs.append(arg[k + 1:])
        like = toks[a]
        if order == "lr":
            new = T("(", like) + exprs[0] + T(", ", like) + exprs[1] + T(")", like)
        else:
            new = (T("{ let vf_r = ", like) + exprs[1] + T("; let vf_l = ", like) + exprs[0]
                   + T("; (vf_l, vf_r) }", like))
        toks[a:c + 1] = new


def rewrite_for_loops(toks, arrays=()):
    """R11 / R19: `for` over non-range iterators -> loop/while forms Verus accepts.
    Keeps any `loop K inv` / body-start / body-end marks in place."""
    i = 0
    while i < len(toks):
        t = toks[i]
        if not (t.k == "ident" and t.s == "for"):
            i += 1
            continue
        o = _loop_body_open(toks, i)
        hdr = toks[i + 1:o]
        inpos = None
        depth = 0
        for k, h in enumerate(hdr):
            if h.k == "p" and h.s in OPEN:
                depth += 1
            elif h.k == "p" and h.s in CLOSE:
                depth -= 1
            elif h.k == "ident" and h.s == "in" and depth == 0:
                inpos = k
                break
        if inpos is None:
            raise ExtractError("for loop without `in` at line %d" % t.line)
        pat, expr = hdr[:inpos], hdr[inpos + 1:]
        marks = [m for m in expr if m.k == "mark"]
        es = strip_ws([e for e in expr if e.k != "mark"])
        ps = strip_ws(pat)
        # range?  a..b at depth 0
        depth, is_range = 0, False
        for k, e in enumerate(es):
            if e.k == "p" and e.s in OPEN:
                depth += 1
            elif e.k == "p" and e.s in CLOSE:
                depth -= 1
            elif depth == 0 and is_p(e, ".") and k + 1 < len(es) and is_p(es[k + 1], "."):
                is_range = True
        if is_range:
            i = o + 1
            continue
        c = match_close(toks, o)
        body = toks[o + 1:c]
        # marks at the very start of the body (`loop K body-start`) go before the generated `let`s
        lead = []
        while body and body[0].k in ("ws", "comment", "mark"):
            if body[0].k == "mark":
                lead.append(body[0])
            body = body[1:]
        like = t
        etxt = [e.s for e in es]
        if etxt[:2] == ["&", "mut"] and len(es) == 3 and es[2].s in arrays and len(ps) == 1:
            # R19d (opt-in, unit option `array_iter_mut`: names of local arrays): for P in &mut ARR
            # == index loop over ARR yielding `&mut ARR[i]` in index order (IntoIterator for &mut [T; N])
            x, v = es[2].s, ps[0].s
            new = (T("{ let mut vf_i: usize = 0; while vf_i < (%s).len() " % x, like) + marks + T("{ ", like)
                   + lead + T("let %s = &mut (%s)[vf_i]; " % (v, x), like) + body + T(" vf_i += 1; } }", like))
        elif etxt[:2] == ["&", "mut"] and len(es) == 3 and es[2].k == "ident":
            # R11: for P in &mut X  ==  loop { match X.next() { Some(P) => body, None => break } }
            x = es[2].s
            new = (T("loop ", like) + marks + T("{ match %s.next() { Some(" % x, like) + pat + T(") => {", like)
                   + lead + body + T("} None => { break; } } }", like))
        elif etxt[-4:] == [".", "iter", "(", ")"] and "zip" not in etxt and ps[0].s == "&" and len(ps) == 2:
            # R19c: for &b in X.iter()
            xs = txt(es[:-4])
            v = ps[1].s
            new = (T("{ let mut vf_i: usize = 0; while vf_i < (%s).len() " % xs, like) + marks
                   + T("{ ", like) + lead + T("let %s = (%s)[vf_i]; " % (v, xs), like) + body + T(" vf_i += 1; } }", like))
        elif (len(ps) == 1 and len(es) > 5 and es[-1].s == ")" and "zip" not in etxt and etxt.count("chunks_exact_mut") == 1
              and etxt[etxt.index("chunks_exact_mut") - 1] == "." and etxt[etxt.index("chunks_exact_mut") + 1] == "("
              and match_close(es, etxt.index("chunks_exact_mut") + 1) == len(es) - 1):
            # R19b: for b in Y.chunks_exact_mut(K)   (K any expression: the call's parenthesis closes the header)
            ys, kk, v = txt(es[:-6]), es[-3].s if len(es[-3:-1]) == 2 else None, ps[0].s
            kk = txt(es[etxt.index("chunks_exact_mut") + 2:-1])
            ys = txt(es[:etxt.index("chunks_exact_mut") - 1])
            new = (T("{ let vf_n: usize = (%s).len() / (%s); let mut vf_i: usize = 0; while vf_i < vf_n " % (ys, kk), like)
                   + marks + T("{ ", like) + lead + T("let %s = &mut (%s)[vf_i * (%s)..(vf_i + 1) * (%s)]; " % (v, ys, kk, kk), like)
                   + body + T(" vf_i += 1; } }", like))
        elif "zip" in etxt and "chunks_exact_mut" in etxt and ps[0].s == "(":
            # R19a: for (&a, b) in X.iter().zip(Y.chunks_exact_mut(K))
            zi = etxt.index("zip")
            if etxt[zi - 4:zi] != [".", "iter", "(", ")"][0:4] and etxt[zi - 5:zi - 1] != [".", "iter", "(", ")"]:
                raise ExtractError("zip loop shape not covered by R19 (line %d)" % t.line)
            xs = txt(es[:zi - 5])
            inner = es[zi + 2:-1]
            itxt = [e.s for e in inner]
            ci = itxt.index("chunks_exact_mut")
            ys, kk = txt(inner[:ci - 1]), txt(inner[ci + 2:-1])
            pp = [p.s for p in ps]
            if not (pp[0] == "(" and pp[1] == "&" and pp[3] == "," and pp[-1] == ")" and len(pp) == 6):
                raise ExtractError("zip loop pattern not covered by R19 (line %d)" % t.line)
            va, vb = pp[2], pp[4]
            new = (T("{ let vf_n: usize = { let vf_a = (%s).len(); let vf_b = (%s).len() / (%s); "
                     "if vf_b < vf_a { vf_b } else { vf_a } }; let mut vf_i: usize = 0; while vf_i < vf_n "
                     % (xs, ys, kk), like)
                   + marks + T("{ ", like) + lead
                   + T("let %s = (%s)[vf_i]; let %s = &mut (%s)[vf_i * (%s)..(vf_i + 1) * (%s)]; "
                       % (va, xs, vb, ys, kk, kk), like)
                   + body + T(" vf_i += 1; } }", like))
        elif ("zip" in etxt and "chunks_exact" in etxt[:etxt.index("zip")] and [p.s for p in ps][0::2] == ["(", ",", ")"]
              and len(ps) == 5 and etxt[-1] == ")" and etxt[etxt.index("zip") - 2] == ")"):
            # R19e: for (a, b) in X.chunks_exact(K).zip(W)   (W: a `&mut [T]` place; a: &[T] of length K, b: &mut T)
            zi, ci = etxt.index("zip"), etxt.index("chunks_exact")
            xs, kk, ws = txt(es[:ci - 1]), txt(es[ci + 2:zi - 2]), txt(es[zi + 2:-1])
            va, vb = ps[1].s, ps[3].s
            new = (T("{ let vf_n: usize = { let vf_a = (%s).len() / (%s); let vf_b = (%s).len(); "
                     "if vf_b < vf_a { vf_b } else { vf_a } }; let mut vf_i: usize = 0; while vf_i < vf_n "
                     % (xs, kk, ws), like)
                   + marks + T("{ ", like) + lead
                   + T("let %s = &(%s)[vf_i * (%s)..(vf_i + 1) * (%s)]; let %s = &mut (%s)[vf_i]; "
                       % (va, xs, kk, kk, vb, ws), like)
                   + body + T(" vf_i += 1; } }", like))
        elif ("zip" in etxt and "chunks_mut" in etxt[etxt.index("zip"):] and [p.s for p in ps][0::2] == ["(", ",", ")"]
              and len(ps) == 5 and etxt[etxt.index("zip") - 5:etxt.index("zip")] == [".", "iter", "(", ")", "."]):
            # R19g: for (a, b) in X.iter().zip(Y.chunks_mut(K))   (a: &T; b: &mut [T], the last piece may be short)
            zi = etxt.index("zip")
            inner = es[zi + 2:-1]
            itxt = [e.s for e in inner]
            ci = itxt.index("chunks_mut")
            xs, ys, kk = txt(es[:zi - 5]), txt(inner[:ci - 1]), txt(inner[ci + 2:-1])
            va, vb = ps[1].s, ps[3].s
            new = (T("{ let vf_len: usize = (%s).len(); { let vf_dbg: bool = (%s) != 0; assert(vf_dbg); } "
                     "let vf_n: usize = { let vf_a = (%s).len(); "
                     "let vf_b = vf_len / (%s) + (if vf_len %% (%s) != 0 { 1 } else { 0 }); "
                     "if vf_b < vf_a { vf_b } else { vf_a } }; let mut vf_i: usize = 0; while vf_i < vf_n "
                     % (ys, kk, xs, kk, kk), like)
                   + marks + T("{ ", like) + lead
                   + T("let %s = &(%s)[vf_i]; let vf_end: usize = if vf_len - vf_i * (%s) < (%s) { vf_len } else "
                       "{ (vf_i + 1) * (%s) }; let %s = &mut (%s)[vf_i * (%s)..vf_end]; "
                       % (va, xs, kk, kk, kk, vb, ys, kk), like)
                   + body + T(" vf_i += 1; } }", like))
        elif len(ps) == 1 and "zip" not in etxt and "chunks_mut" in etxt and etxt[-1] == ")" \
                and etxt[etxt.index("chunks_mut") - 1] == ".":
            # R19f: for b in Y.chunks_mut(K)   (b: &mut [T], consecutive pieces of K items, the last may be short)
            ci = etxt.index("chunks_mut")
            ys, kk, v = txt(es[:ci - 1]), txt(es[ci + 2:-1]), ps[0].s
            new = (T("{ let vf_tot: usize = (%s).len(); { let vf_dbg: bool = (%s) != 0; assert(vf_dbg); } "
                     "let mut vf_o: usize = 0; while vf_o < vf_tot " % (ys, kk), like)
                   + marks + T("{ ", like) + lead
                   + T("let vf_e: usize = if vf_tot - vf_o < (%s) { vf_tot } else { vf_o + (%s) }; "
                       "let %s = &mut (%s)[vf_o..vf_e]; " % (kk, kk, v, ys), like)
                   + body + T(" vf_o = vf_e; } }", like))
        elif (len(es) >= 2 and etxt[0] == "&" and etxt[1] != "mut" and len(ps) == 1 and ps[0].k == "ident"
              and all(e.k == "ident" or e.s == "." for e in es[1:]) and es[-1].k == "ident"):
            # R19h: for P in &X   (X a place: ident or field path holding a Vec / slice / array; P: &T in index order);
            # the index is advanced BEFORE the body so that a `continue` in the body keeps the for-loop's meaning
            xs, v = txt(es[1:]), ps[0].s
            new = (T("{ let mut vf_i: usize = 0; while vf_i < (%s).len() " % xs, like) + marks + T("{ ", like)
                   + lead + T("let %s = &(%s)[vf_i]; vf_i += 1; " % (v, xs), like) + body + T(" } }", like))
        else:
            raise ExtractError("for-loop over `%s` is outside rules R11/R19 (line %d)" % (txt(es), t.line))
        toks[i:c + 1] = new
        i += 1
    return toks


GLOBAL_SUBSTS = [
    # R4
    (pat_of("u32::from_le_bytes("), "vf_u32_from_le_bytes("),
    (pat_of("u32::from_ne_bytes("), "vf_u32_from_ne_bytes("),
    (pat_of("u32::from_be_bytes("), "vf_u32_from_be_bytes("),
    (pat_of(".to_le_bytes()"), ".vf_to_le_bytes()"),
    (pat_of(".trailing_zeros()"), ".vf_trailing_zeros()"),
    # R9
    (pat_of("core::mem::take("), "vf_take_mut_slice("),
    # R15
    (pat_of("std::io::Error::new("), "vf_io_error_new("),
    (pat_of("io::Error::new("), "vf_io_error_new("),
    (pat_of("u64::max_value()"), "u64::MAX"),
]


def strip_unsafe_blocks(toks):
    """R16: `unsafe { e }` -> `{ e }`"""
    out = []
    for i, t in enumerate(toks):
        if t.k == "ident" and t.s == "unsafe" and is_p(toks[sidx(toks, i + 1)], "{"):
            continue
        out.append(t)
    return out


_BYTE_ESC = {"n": 10, "r": 13, "t": 9, "\\": 92, "0": 0, "'": 39, '"': 34}


def rewrite_bytestrings(toks):
    """R20: byte-string literal b"xyz" -> &[120u8, 121u8, 122u8] (same type &'static [u8; N], same bytes;
    Verus knows the length of a byte-string literal but not its contents)"""
    out = []
    for t in toks:
        if t.k == "str" and t.s.startswith('b"'):
            s, vals, k = t.s[2:-1], [], 0
            while k < len(s):
                ch = s[k]
                if ch == "\\":
                    e = s[k + 1] if k + 1 < len(s) else ""
                    if e == "x" and re.match(r"^[0-9a-fA-F]{2}$", s[k + 2:k + 4]):
                        vals.append(int(s[k + 2:k + 4], 16))
                        k += 4
                    elif e in _BYTE_ESC:
                        vals.append(_BYTE_ESC[e])
                        k += 2
                    else:
                        raise ExtractError("byte-string escape outside rule R20 at line %d" % t.line)
                elif ord(ch) < 128:
                    vals.append(ord(ch))
                    k += 1
                else:
                    raise ExtractError("non-ASCII byte-string literal at line %d" % t.line)
            out.extend(T(("&[" + ", ".join("%du8" % v for v in vals) + "]") if vals else "&[0u8; 0]", t))
        else:
            out.append(t)
    return out


def rewrite_fn(item, fc, cfg, opts, overlay):
    """returns the token list of the rewritten function (signature + contract + body)"""
    hdr = strip_inner_attrs(list(item.header), cfg)
    body = strip_inner_attrs(list(item.body), cfg)
    # nested fn items inside the body are handled as text (contracts for them are not supported)
    body = place_marks(body, fc) if fc else body
    body = strip_unsafe_blocks(body)
    body = rewrite_macros(body)
    if opts.get("anyhow"):
        body = rewrite_anyhow(body)
    if opts.get("print_model"):
        # R21: stdout as a ghost log threaded through the listed free functions
        body = rewrite_print(body, set(opts["print_model"]))
        if item.name in opts["print_model"] and getattr(item, "parent", None) is None:
            hdr = add_print_param(hdr, item.name)
    for pat, repl, _, _ in (fc.substs if fc else []):
        n = apply_subst(body, pat, repl) + apply_subst(hdr, pat, repl)
        if n == 0:
            LOST.append((fc.path, "@subst pattern `%s` not found in %s (contract %s:%d)"
                         % (" ".join(pat), fc.path, *fc.where)))
    for pat, repl, _, _ in overlay.global_substs:
        apply_subst(body, pat, repl)
        apply_subst(hdr, pat, repl)
    for pat, repl in GLOBAL_SUBSTS:
        apply_subst(body, pat, repl)
    body = rewrite_bytestrings(body)
    body = rewrite_minmax(body)
    body = rewrite_join(body, opts.get("join_order", "lr"))
    body = rewrite_for_loops(body, opts.get("array_iter_mut", ()))
    # splice overlay text at marks
    if fc:
        out = []
        for t in body:
            if t.k == "mark":
                m = re.match(r"^loop (\d+) inv$", t.anchor)
                if m:
                    blocks = [fc.loops[int(m.group(1))]]
                else:
                    # several @at blocks may share an anchor: spliced in file order
                    blocks = [(text, f, l) for (a, text, f, l) in fc.ats if a == t.anchor]
                for text, f, l in blocks:
                    out.extend(overlay_tokens(text, f, l))
            else:
                out.append(t)
        body = out
    # signature
    hdr = [t for t in hdr]
    # drop visibility/qualifiers handled by caller; name the return value
    sigtoks = name_return(hdr, fc.ret if fc else None)
    spec = overlay_tokens(fc.spec[0], fc.spec[1], fc.spec[2]) if fc and fc.spec else []
    like = item.toks[0]
    return sigtoks, spec, T("{/*vf-body*/", like) + body + T("}", item.toks[-1])


def overlay_tokens(text, f, l0):
    ts = tokenize(text)
    for t in ts:
        t.src = "verif:" + f
        t.line = l0 + t.line - 1
    return ts


def name_return(hdr, ret):
    """`-> T` becomes `-> (ret: T)`; the where clause (if any) stays after it"""
    if not ret:
        return hdr
    # find parameter list: first '(' after `fn name` (skipping a generic list)
    i = 0
    while not (hdr[i].k == "ident" and hdr[i].s == "fn"):
        i += 1
    i = sidx(hdr, sidx(hdr, i + 1) + 1)
    if is_p(hdr[i], "<"):
        d = 0
        while True:
            if is_p(hdr[i], "<"):
                d += 1
            elif is_p(hdr[i], ">") and not is_p(hdr[i - 1], "-"):
                d -= 1
                if d == 0:
                    break
            i += 1
        i = sidx(hdr, i + 1)
    if not is_p(hdr[i], "("):
        raise ExtractError("fn signature not understood (line %d)" % hdr[0].line)
    c = match_close(hdr, i)
    j = sidx(hdr, c + 1)
    if j + 1 < len(hdr) and is_p(hdr[j], "-") and is_p(hdr[j + 1], ">"):
        k = j + 2
        e = len(hdr)
        depth = 0
        for q in range(k, len(hdr)):
            if hdr[q].k == "p" and hdr[q].s in OPEN:
                depth += 1
            elif hdr[q].k == "p" and hdr[q].s in CLOSE:
                depth -= 1
            elif hdr[q].k == "ident" and hdr[q].s == "where" and depth == 0:
                e = q
                break
        rt = hdr[k:e]
        # trim trailing whitespace of the type
        while rt and rt[-1].k in ("ws", "comment"):
            rt = rt[:-1]
        like = hdr[j]
        return hdr[:k] + T(" (%s: " % ret, like) + rt + T(") ", like) + hdr[e:]
    return hdr


# ----------------------------------------------------------------------------- assembly

def publicise_struct(toks):
    """R8: make every field public"""
    ts = strip_inner_none(toks)
    out = []
    # find body
    i = 0
    n = len(ts)
    depth = 0
    body_open = None
    for k, t in enumerate(ts):
        if t.k == "p" and t.s in ("{", "(") and depth == 0 and body_open is None:
            # skip generics `<..>`: they contain no braces/parens in this code base
            body_open = k
            break
    if body_open is None:
        return ts
    c = match_close(ts, body_open)
    kind = ts[body_open].s
    out = ts[:body_open + 1]
    expect_field = True
    depth = angle = 0
    k = body_open + 1
    while k < c:
        t = ts[k]
        if expect_field and t.k not in ("ws", "comment"):
            if t.s == "pub":
                # drop existing visibility
                j = sidx(ts, k + 1)
                if is_p(ts[j], "("):
                    j = match_close(ts, j) + 1
                k = j
                continue
            out.extend(T("pub ", t))
            expect_field = False
        if t.k == "p":
            if t.s in OPEN:
                depth += 1
            elif t.s in CLOSE:
                depth -= 1
            elif t.s == "," and depth == 0 and angle == 0:
                expect_field = True
            elif t.s == "<":
                angle += 1       # generic arguments of a field type: `ArrayVec<T, { N }>` has a depth-0 comma
            elif t.s == ">" and angle > 0 and not is_p(ts[k - 1], "-"):
                angle -= 1
        out.append(t)
        k += 1
    out.extend(ts[c:])
    return out


def strip_inner_none(toks):
    return list(toks)


class Assembled:
    def __init__(self):
        self.pieces = []     # (text, src, line)
        self.fn_ranges = []  # filled by finish(): (first_line, last_line, path, repo file, repo line, mode)
        self._open = []
        self.notes = []

    def emit_toks(self, toks):
        for t in toks:
            if t.k == "mark":
                continue
            self.pieces.append((t.s, getattr(t, "src", None), t.line))

    def emit(self, s, src=None, line=0):
        self.pieces.append((s, src, line))

    def begin_fn(self, path, file, line, mode):
        self._open.append((len(self.pieces), path, file, line, mode))

    def end_fn(self):
        a, path, file, line, mode = self._open.pop()
        self.fn_ranges.append([a, len(self.pieces), path, file, line, mode])

    def finish(self):
        """returns (text, linemap) ; linemap[i] = (src, line) for assembled line i+1"""
        text_parts, linemap = [], []
        cur_line_origin = None
        piece_first_line = []
        lineno = 1
        for s, src, line in self.pieces:
            piece_first_line.append(lineno)
            if cur_line_origin is None and s.strip():
                cur_line_origin = (src, line)
            nl = s.count("\n")
            if nl:
                # finish current line, then lines fully inside this piece
                linemap.append(cur_line_origin or (src, line))
                for k in range(1, nl):
                    linemap.append((src, line + k if src else 0))
                cur_line_origin = None
                last = s.rsplit("\n", 1)[1]
                if last.strip():
                    cur_line_origin = (src, line + nl if src else 0)
            text_parts.append(s)
            lineno += nl
        linemap.append(cur_line_origin or (None, 0))
        piece_first_line.append(lineno)
        rngs = []
        for a, b, path, file, line, mode in self.fn_ranges:
            rngs.append((piece_first_line[a], piece_first_line[b], path, file, line, mode))
        self.fn_ranges = rngs
        return "".join(text_parts), linemap


def load_sources(repo, files, cfg):
    """files: list of (repo-relative path, module path). returns dict path -> Item"""
    table = {}
    for rel, mod in files:
        items = parse_file(os.path.join(repo, rel), cfg, rel)
        assign_paths(items, mod, table)
    return table


KEEP_DERIVES = ("Clone", "Copy")


_INV = None


def _trait_method_inventory():
    """{source file (repo-relative): [paths of trait-impl methods]} of the pinned tree (contracts/trait_method_inventory.json,
    written by tools/gen_inventory.py)"""
    global _INV
    if _INV is None:
        import json
        p = os.path.join(os.path.dirname(os.path.dirname(os.path.abspath(__file__))), "contracts", "trait_method_inventory.json")
        try:
            _INV = {k: set(v) for k, v in json.load(open(p)).items()}
        except (OSError, ValueError):
            _INV = {}
    return _INV


def struct_field_names(it):
    """field names of a struct item with named fields; None for tuple / unit structs"""
    body = it.body
    if body is None:
        # structs are kept as token runs: the field list is what stands between the first `{` and its `}`
        ts = [t for t in it.toks if t.k not in ("ws", "comment")]
        o = next((k for k, t in enumerate(ts) if t.s == "{"), None)
        semi = next((k for k, t in enumerate(ts) if t.s in (";", "(")), None)
        if o is None or (semi is not None and semi < o):
            return None
        d, c = 0, None
        for k in range(o, len(ts)):
            if ts[k].s == "{":
                d += 1
            elif ts[k].s == "}":
                d -= 1
                if d == 0:
                    c = k
                    break
        if c is None:
            return None
        body = ts[o + 1:c]
    toks = [t for t in body if t.k not in ("ws", "comment")]
    names, depth, i = [], 0, 0
    expect = True
    while i < len(toks):
        t = toks[i]
        if t.s in ("(", "[", "{", "<"):
            depth += 1
        elif t.s in (")", "]", "}", ">"):
            depth -= 1
        elif depth == 0 and t.s == ",":
            expect = True
        elif depth == 0 and expect and t.s == "#":
            # attribute: skip `# [ ... ]`
            j = i + 1
            d2 = 0
            while j < len(toks):
                if toks[j].s == "[":
                    d2 += 1
                elif toks[j].s == "]":
                    d2 -= 1
                    if d2 == 0:
                        break
                j += 1
            i = j
        elif depth == 0 and expect and t.k == "ident" and t.s not in ("pub", "crate", "in", "super", "self"):
            if i + 1 < len(toks) and toks[i + 1].s == ":":
                names.append(t.s)
                expect = False
        i += 1
    return names


def assemble(repo, unit, cfg, opts=None):
    """unit: dict with keys files [(rel, modpath)], overlays [paths], prelude [paths], spec [paths]."""
    from common import read
    opts = dict(unit.get("opts") or {}, **(opts or {}))   # unit-level rule options, overridable per run
    del LOST[:]
    ov = Overlay()
    ov.cfgname = cfg.name
    for p in unit.get("assumed_overlays", []):
        ov.load(p, assumed=True)
    for p in unit["overlays"]:
        ov.load(p)
    table = load_sources(repo, unit["files"], cfg)
    asm = Assembled()
    asm.emit("// ASSEMBLED BY /verif/lib/extract.py FROM %s (config %s) -- do not edit\n" % (repo, cfg.name))
    asm.emit("#![allow(unused_imports, unused_variables, unused_mut, dead_code, unused_parens, "
             "unused_braces, non_snake_case, unused_assignments, unreachable_code, non_camel_case_types, "
             "unused_labels, non_upper_case_globals)]\n#![verifier::allow(autoderive_clone_without_spec)]\n")
    asm.emit("use vstd::prelude::*;\n")
    for p in unit.get("prelude_outside", []):
        asm.emit(read(p), "verif:" + os.path.relpath(p, os.path.dirname(os.path.dirname(os.path.abspath(__file__)))), 1)
    asm.emit("verus! {\n")
    verif_root = os.path.dirname(os.path.dirname(os.path.abspath(__file__)))
    for p in unit.get("prelude", []):
        asm.emit(read(p), "verif:" + os.path.relpath(p, verif_root), 1)
        asm.emit("\n")
    # the specification and its lemmas live in their own module so that a unit can leave their
    # proofs to the lemma unit that verifies exactly this module (`verify_spec`)
    if unit.get("spec"):
        asm.emit("pub use crate::vf_spec::*;\npub mod vf_spec {\nuse vstd::prelude::*;\nuse crate::*;\n")
        for p in unit.get("spec", []):
            asm.emit(read(p), "verif:" + os.path.relpath(p, verif_root), 1)
            asm.emit("\n")
        asm.emit("} // mod vf_spec\n")
    # group requested items by module, keep source order
    wanted = {}
    for path, f, l in ov.items:
        wanted[path] = None
    for path, fc in ov.fns.items():
        wanted[path] = fc
    # constants / type aliases that the current source uses but the overlay did not list (auto-included by the
    # back end after a first "cannot find value" rejection; code the contracts were not written for may use them)
    for path in opts.get("extra_items", []):
        if path in table and table[path].kind in ("const", "static", "type") and path not in wanted:
            wanted[path] = None
    missing = [p for p in wanted if p not in table]
    # a contracted FUNCTION that no longer exists (renamed, merged into another one): the rest of the unit is still
    # assembled - its callers will not resolve it and become suspects - and the function itself is recorded as lost
    gone = [p for p in missing if wanted[p] is not None]
    for p in gone:
        LOST.append((p, "assumption lost: contracted function %s no longer exists in the source (renamed or replaced)" % p))
        del wanted[p]
        ov.fns.pop(p, None)
    missing = [p for p in missing if p not in gone]
    if missing:
        raise ExtractError("lost anchor: item(s) not found in source under config %s: %s"
                           % (cfg.name, ", ".join(missing)))
    for path, names, f, l in ov.derive_guards:
        it = table.get(path)
        if it is None:
            continue
        for nm in names:
            if nm not in it.derives:
                LOST.append(("%s::%s" % (path, nm.lower()),
                             "assumption lost: #[derive(%s)] is no longer on %s (contract %s:%d)" % (nm, path, f, l)))
    for ty, blame, names, f, l in ov.field_guards:
        it = table.get(ty)
        if it is None or it.kind != "struct":
            continue
        have = struct_field_names(it)
        if have is not None and sorted(have) != sorted(names):
            LOST.append((blame, "assumption lost: the fields of %s are now {%s}, the contract enumerates {%s} (%s:%d)"
                         % (ty, ", ".join(have), ", ".join(names), f, l)))
    # trait impls: a method that the pinned source did not have (an override of a provided method of the trait, whose
    # default behaviour the contracts assumed) has no contract
    inv = _trait_method_inventory()
    for path, it in table.items():
        parent = getattr(it, "parent", None)
        if it.kind == "fn" and parent is not None and parent.kind == "impl" and parent.impl_trait:
            rel_file = getattr(it, "file", None)
            known = inv.get(rel_file)
            if known is not None and path not in known and path not in wanted:
                LOST.append((path, "assumption lost: new trait method %s in %s has no contract (the trait's provided "
                                   "behaviour was assumed for the pinned source)" % (path, rel_file)))
    modules = {}
    for path, it in table.items():
        if path in wanted:
            # module = path up to the type/function
            parent = getattr(it, "parent", None)
            if parent is not None and parent.kind == "impl":
                # (the `{impl Trait}` suffix may itself contain `::`, e.g. `{impl fmt::Display}`)
                mod = parent.path.split("{impl", 1)[0].rsplit("::", 1)[0]
            elif parent is not None and parent.kind == "trait":
                mod = parent.path.rsplit("::", 1)[0]
            else:
                mod = path.rsplit("::", 1)[0]
            modules.setdefault(mod, []).append(it)
    order = list(ov.order)
    for m in modules:
        if m not in order:
            order.append(m)
    if "crate" not in order:
        order.insert(0, "crate")
    _o = list(order)
    order.sort(key=lambda m: (m.count("::"), _o.index(m)))
    unlisted = sorted(p for p, it in table.items() if p not in wanted and it.kind in ("fn",))
    asm.unlisted = unlisted

    def emit_module(mod):
        its = modules.get(mod, [])
        if mod != "crate":
            asm.emit("use vstd::prelude::*;\n")
        if unit.get("broadcast", True):
            asm.emit("broadcast use {crate::vf_lemmas::vf_lemma_subrange_full, crate::vf_lemmas::vf_bv_facts};\n")
        for u in ov.uses.get(mod, []):
            asm.emit(u + "\n")
        for text, f, l in ov.raw.get(mod, []):
            asm.emit_toks(overlay_tokens(text, f, l))
            asm.emit("\n")
        # plain items first, then impl groups in source order
        groups = []   # (key, header, [items])
        for it in its:
            parent = getattr(it, "parent", None)
            if parent is not None and parent.kind == "impl":
                local = parent.impl_trait and parent.impl_trait.split("<")[0].split("::")[-1] in ov.traits
                key = ("impl", parent.impl_self, parent.impl_trait if local else None, id(parent) if local else 0)
                for g in groups:
                    if g[0] == key:
                        g[2].append(it)
                        break
                else:
                    groups.append((key, parent, [it]))
            elif parent is not None and parent.kind == "trait":
                key = ("trait", parent.path)
                for g in groups:
                    if g[0] == key:
                        g[2].append(it)
                        break
                else:
                    groups.append((key, parent, [it]))
            elif it.kind == "trait":
                # the trait itself is emitted with its listed children
                key = ("trait", it.path)
                if not any(g[0] == key for g in groups):
                    groups.append((key, it, []))
            else:
                groups.append((("item", it.path), None, [it]))
        for key, parent, members in groups:
            if key[0] == "item":
                emit_item(members[0], in_trait=False)
            elif key[0] == "impl":
                gen = ""
                h = txt(strip_inner_attrs(list(parent.header), cfg))
                m = re.match(r"\s*impl\s*(<[^>]*>)", h)
                gen = m.group(1) if m else ""
                if key[2]:
                    asm.emit("impl%s %s for %s {\n" % (gen, key[2], parent.impl_self))
                    for it in members:
                        emit_item(it, in_trait=True)
                elif parent.impl_trait and not re.match(r"^[A-Za-z_][A-Za-z0-9_:]*(<.*>)?$", parent.impl_self):
                    # R13b: external trait implemented for a foreign (array / slice / reference) type: Rust allows
                    # no inherent impl there -> free fns `<type>__Trait__method` with `Self` spelled out
                    if gen:
                        raise ExtractError("generic trait impl for `%s` is outside rule R13b" % parent.impl_self)
                    for it in members:
                        emit_item(it, in_trait=False, free_self=parent.impl_self)
                    continue
                else:
                    asm.emit("impl%s %s {\n" % (gen, parent.impl_self))
                    for it in members:
                        emit_item(it, in_trait=False)
                asm.emit("}\n")
            else:
                h = txt(strip_inner_attrs(list(parent.header), cfg)).strip()
                h = re.sub(r"^(pub(\([^)]*\))?\s+)?", "pub ", h)
                if opts.get("sized_traits", True) and ":" not in h.split("trait", 1)[1]:
                    h += ": Sized"
                asm.emit(h + " {\n")
                for it in members:
                    emit_item(it, in_trait=True)
                asm.emit("}\n")

    def emit_item(it, in_trait, free_self=None):
        fc = ov.fns.get(it.path)
        vis = "" if in_trait else "pub "
        if it.kind in ("fn", "fndecl"):
            mode = fc.mode if fc else "verify"
            asm.begin_fn(it.path, it.file, it.line, mode)
            for a in (fc.attrs if fc else []):
                asm.emit(a + "\n")
            if it.kind == "fndecl":
                hdr = strip_inner_attrs(list(it.header), cfg)
                sigtoks = name_return(hdr, fc.ret if fc else None)
                asm.emit_toks(strip_vis(sigtoks))
                if fc and fc.spec:
                    asm.emit("\n")
                    asm.emit_toks(overlay_tokens(*fc.spec))
                asm.emit(";\n")
                asm.end_fn()
                return
            try:
                if mode == "verify" and fc and it.path in (opts.get("demote") or ()):
                    # second run of the back end: Verus rejected the unit inside this function (its new shape does not fit
                    # the overlay's hints, e.g. a renamed local): only its contract is emitted, the rest of the unit is
                    # still verified, the function itself is a suspect for the directed search
                    raise ExtractError("Verus rejected this function under the overlay (%s)" % opts["demote"][it.path][:160])
                sigtoks, spec, body = rewrite_fn(it, fc, cfg, opts, ov)
            except (ExtractError, LexError, IndexError) as e:
                if mode != "verify" or not fc:
                    raise
                # the function's new shape is outside the rule set: emit only its contract (as an assumed one, so
                # that callers still verify) and record it; the back end makes it a suspect obligation
                LOST.append((it.path, "not extractable: %s" % e))
                hdr = strip_inner_attrs(list(it.header), cfg)
                if it.name in (opts.get("print_model") or ()) and getattr(it, "parent", None) is None:
                    hdr = add_print_param(hdr, it.name)
                for pat, repl, _, _ in fc.substs:
                    apply_subst(hdr, pat, repl)
                for pat, repl, _, _ in ov.global_substs:
                    apply_subst(hdr, pat, repl)
                sigtoks = name_return(hdr, fc.ret)
                spec = overlay_tokens(fc.spec[0], fc.spec[1], fc.spec[2]) if fc.spec else []
                body = []
                mode = "unextractable"
                asm._open[-1] = asm._open[-1][:4] + (mode,)
            if mode in ("trusted", "assumed", "unextractable"):
                asm.emit("#[verifier::external_body]\n")
            sigtoks = strip_vis(sigtoks)
            tname = getattr(it, "trait_name", None)
            if tname and not in_trait:
                # R13: trait method emitted as inherent fn Trait__method
                newname = it.path.rsplit("::", 1)[1]
                for k, t in enumerate(sigtoks):
                    if t.k == "ident" and t.s == "fn":
                        j = sidx(sigtoks, k + 1)
                        sigtoks[j:j + 1] = T((sanitize_type(free_self) + "__" if free_self else "") + newname,
                                             sigtoks[j])
                        break
                if free_self:
                    if any(t.k == "ident" and t.s == "self" for t in sigtoks):
                        raise ExtractError("method with a receiver in a trait impl for `%s` is outside rule R13b"
                                           % free_self)
                    sigtoks = [x for t in sigtoks for x in (T(free_self, t) if t.k == "ident" and t.s == "Self" else [t])]
                    body = [x for t in body for x in (T(free_self, t) if t.k == "ident" and t.s == "Self" else [t])]
            asm.emit(vis)
            asm.emit_toks(sigtoks)
            if spec:
                asm.emit("\n")
                asm.emit_toks(spec)
            if mode in ("trusted", "assumed", "unextractable"):
                asm.emit("{ unimplemented!() }\n")
            else:
                asm.emit_toks(body)
                asm.emit("\n")
            asm.end_fn()
        elif it.kind in ("struct", "enum", "union"):
            ds = [d for d in it.derives if d in KEEP_DERIVES]
            if ds:
                asm.emit("#[derive(%s)]\n" % ", ".join(ds))
            ts = strip_inner_attrs(list(it.toks), cfg)
            ts = strip_vis(ts)
            if it.kind == "enum" and re.search(r"\{\s*\}\s*$", txt(ts)):
                asm.emit("pub struct %s;\n" % it.name)       # R6
                return
            if it.kind == "struct":
                ts = publicise_struct(ts)
            asm.emit("pub ")
            asm.emit_toks(ts)
            asm.emit("\n")
        elif it.kind in ("const", "static", "type"):
            ts = strip_vis(strip_inner_attrs(list(it.toks), cfg))
            s = txt(ts)
            if it.kind == "const":
                # R7
                ts2 = []
                k = 0
                seen_colon = False
                for k, t in enumerate(ts):
                    ts2.append(t)
                    if not seen_colon and is_p(t, ":"):
                        seen_colon = True
                        j = sidx(ts, k + 1)
                        if is_p(ts[j], "&") and ts[sidx(ts, j + 1)].k != "lifetime":
                            ts2.extend(ts[k + 1:j + 1])
                            ts2.extend(T("'static ", t))
                            ts2.extend(ts[j + 1:])
                            break
                ts = ts2
            asm.emit(vis)
            asm.emit_toks(ts)
            asm.emit("\n")
        else:
            raise ExtractError("cannot emit item %s of kind %s" % (it.path, it.kind))

    def strip_vis(ts):
        ts = list(ts)
        i = sidx(ts, 0)
        if i < len(ts) and ts[i].s == "pub":
            j = sidx(ts, i + 1)
            if is_p(ts[j], "("):
                j = match_close(ts, j) + 1
            del ts[i:sidx(ts, j)]
        return ts

    # root module first, then nested modules
    emit_module("crate")
    mods = [m for m in order if m != "crate"]

    def emit_nested(prefix):
        kids = sorted({m for m in mods if m.startswith(prefix + "::") and m.count("::") == prefix.count("::") + 1},
                      key=mods.index)
        for m in kids:
            asm.emit("pub mod %s {\n" % m.rsplit("::", 1)[1])
            emit_module(m)
            emit_nested(m)
            asm.emit("}\n")

    emit_nested("crate")
    for p in unit.get("epilogue", []):
        asm.emit(read(p), "verif:" + os.path.relpath(p, verif_root), 1)
        asm.emit("\n")
    asm.emit("} // verus!\nfn main() {}\n")
    asm.modules = ["crate"] + mods
    asm.lost = list(LOST)
    text, linemap = asm.finish()
    return text, linemap, asm, ov, table


if __name__ == "__main__":
    import sys
    sys.path.insert(0, os.path.dirname(os.path.abspath(__file__)))
    import units
    name = sys.argv[1]
    cfgname = sys.argv[2] if len(sys.argv) > 2 else "A"
    from common import REPO
    text, linemap, asm, ov, table = assemble(REPO, units.UNITS[name], CONFIGS[cfgname])
    sys.stdout.write(text)
