// verif/lib/c_driver/tbb_stub: stand-in for <oneapi/tbb/parallel_invoke.h> (oneTBB is not installed on this image),
// used ONLY by the directed search (lib/search_c.py) to compile the REAL c/blake3_tbb.cpp. parallel_invoke(f, g) runs
// its two functors left-then-right (0), right-then-left (1) or concurrently on a second thread (2), selected by the
// global verif_tbb_order that lib/c_driver/driver.c sets from the environment variable VERIF_TBB_ORDER.
#pragma once
#include <thread>
#define TBB_USE_EXCEPTIONS 0
extern "C" int verif_tbb_order;
namespace oneapi {
namespace tbb {
template <class F, class G> void parallel_invoke(const F &f, const G &g) {
  if (verif_tbb_order == 1) {
    g();
    f();
  } else if (verif_tbb_order == 2) {
    std::thread t([&]() { g(); });
    f();
    t.join();
  } else {
    f();
    g();
  }
}
} // namespace tbb
} // namespace oneapi
