/* verif/lib/c_driver/driver.c -- scenario driver for the directed search on the REAL C library
 * (lib/search_c.py).  It is compiled together with /repo/c/blake3.c, blake3_dispatch.c and
 * blake3_portable.c (all three #included, so that the static g_cpu_features can be forced), with
 * AddressSanitizer + UBSan, and is fed one scenario per line on stdin.  Every buffer handed to the
 * library is placed flush against an inaccessible page (mmap + mprotect), at its end or -- shifted
 * by 1..3 bytes to break alignment -- right after one at its start, so that over-reads and
 * over-writes of kernels that the sanitizers do not instrument (assembly) fault as well.
 *
 * scenario line (decimal unless noted):
 *   S <mode> <keyhex|-> <ctxhex|-> <in_seed> <in_len> <place> <nsplit> <s1> .. <sk> <out_len> <seek> <out_place> <mask>
 *     mode 0 hash, 1 keyed, 2 derive_key (C string), 3 derive_key_raw
 *     place / out_place: 0 = end of the buffer flush against the guard page, 1..3 = start of the
 *                        buffer that many bytes after a guard page (misaligned)
 *     mask: -1 keep the detected CPU features, otherwise g_cpu_features = mask & detected
 * answer line:
 *   R <outhex|-> <same_after_second_finalize 0|1> <hasher_unchanged 0|1> <reset_replay_same 0|1> <canary_ok 0|1>
 * A sanitizer report or a guard-page fault ends the process (exit != 0); the python side knows
 * which scenario was running from the "B <index>" line printed (and flushed) before each one. */
#include <signal.h>
#include <stdio.h>
#include <stdlib.h>
#include <string.h>
#include <sys/mman.h>
#include <unistd.h>
#include "blake3_dispatch.c"
#include "blake3_portable.c"
#include "blake3.c"

/* -DBLAKE3_USE_TBB flavours: the real c/blake3_tbb.cpp is linked against lib/c_driver/tbb_stub, whose
 * parallel_invoke runs the two halves in the order given here (0 left-right, 1 right-left, 2 concurrently) */
int verif_tbb_order = 0;
#if defined(BLAKE3_USE_TBB)
#define VERIF_UPDATE blake3_hasher_update_tbb
#else
#define VERIF_UPDATE blake3_hasher_update
#endif

#define PAGE 4096u
typedef struct { unsigned char *base; size_t maplen; unsigned char *p; size_t n; unsigned char *slack; size_t slack_n; } gbuf;

static gbuf galloc(size_t n, int place) {
  gbuf g;
  size_t body = ((n + 8 + PAGE - 1) / PAGE) * PAGE;
  if (body == 0) body = PAGE;
  g.maplen = body + 2 * PAGE;
  g.base = mmap(NULL, g.maplen, PROT_READ | PROT_WRITE, MAP_PRIVATE | MAP_ANONYMOUS, -1, 0);
  if (g.base == MAP_FAILED) { fprintf(stderr, "DRIVER: mmap failed\n"); exit(9); }
  memset(g.base, 0xA5, g.maplen);
  mprotect(g.base, PAGE, PROT_NONE);
  mprotect(g.base + PAGE + body, PAGE, PROT_NONE);
  g.n = n;
  if (place == 0) {            /* end flush */
    g.p = g.base + PAGE + body - n;
    g.slack = g.base + PAGE; g.slack_n = body - n;
  } else {                     /* start + place */
    g.p = g.base + PAGE + (size_t)place;
    g.slack = g.p + n; g.slack_n = body - n - (size_t)place;
  }
  return g;
}
static int gcanary_ok(const gbuf *g) {
  for (size_t i = 0; i < g->slack_n; i++) if (g->slack[i] != 0xA5) return 0;
  if (g->p > g->base + PAGE) for (unsigned char *q = g->base + PAGE; q < g->p && q < g->slack; q++) if (*q != 0xA5) return 0;
  return 1;
}
static void gfree(gbuf *g) { munmap(g->base, g->maplen); }

static void on_fault(int sig, siginfo_t *si, void *ctx) {
  (void)ctx;
  char buf[128];
  int k = snprintf(buf, sizeof buf, "GUARD: signal %d at address %p (access outside a buffer)\n", sig, si->si_addr);
  if (k > 0) { ssize_t w = write(2, buf, (size_t)k); (void)w; }
  _exit(3);
}

static int hexval(int c) { return c <= '9' ? c - '0' : (c | 32) - 'a' + 10; }
static size_t unhex(const char *s, unsigned char *out, size_t cap) {
  if (s[0] == '-' ) return 0;
  size_t n = strlen(s) / 2;
  if (n > cap) n = cap;
  for (size_t i = 0; i < n; i++) out[i] = (unsigned char)(hexval(s[2 * i]) * 16 + hexval(s[2 * i + 1]));
  return n;
}
static unsigned char pat(unsigned seed, size_t i) { return (unsigned char)(seed + i * 131u + (i >> 8) * 7u); }

static void init_mode(blake3_hasher *h, int mode, const unsigned char *key, const unsigned char *ctx, size_t ctx_len) {
  if (mode == 0) blake3_hasher_init(h);
  else if (mode == 1) { gbuf k = galloc(32, 0); memcpy(k.p, key, 32); blake3_hasher_init_keyed(h, k.p); gfree(&k); }
  else if (mode == 2) { gbuf c = galloc(ctx_len + 1, 0); memcpy(c.p, ctx, ctx_len); c.p[ctx_len] = 0; blake3_hasher_init_derive_key(h, (const char *)c.p); gfree(&c); }
  else { gbuf c = galloc(ctx_len, 0); memcpy(c.p, ctx, ctx_len); blake3_hasher_init_derive_key_raw(h, c.p, ctx_len); gfree(&c); }
}

static void feed(blake3_hasher *h, unsigned seed, size_t off, size_t n, int place) {
  gbuf in = galloc(n, place);
  for (size_t i = 0; i < n; i++) in.p[i] = pat(seed, off + i);
  VERIF_UPDATE(h, in.p, n);
  gfree(&in);
}

int main(void) {
  struct sigaction sa;
  memset(&sa, 0, sizeof sa);
  sa.sa_sigaction = on_fault;
  sa.sa_flags = SA_SIGINFO;
  sigaction(SIGSEGV, &sa, NULL);
  sigaction(SIGBUS, &sa, NULL);
  if (getenv("VERIF_TBB_ORDER")) verif_tbb_order = atoi(getenv("VERIF_TBB_ORDER"));
  int detected = (int)get_cpu_features();
  printf("F %d\n", detected);
  fflush(stdout);
  static char line[1 << 20];
  static unsigned char ctx[1 << 17];
  long idx = 0;
  while (fgets(line, sizeof line, stdin)) {
    char *tok = strtok(line, " \n");
    if (!tok || tok[0] != 'S') continue;
    printf("B %ld\n", idx++);
    fflush(stdout);
    int mode = atoi(strtok(NULL, " \n"));
    unsigned char key[32];
    memset(key, 0, 32);
    unhex(strtok(NULL, " \n"), key, 32);
    size_t ctx_len = unhex(strtok(NULL, " \n"), ctx, sizeof ctx - 1);
    unsigned seed = (unsigned)strtoul(strtok(NULL, " \n"), NULL, 10);
    size_t in_len = (size_t)strtoull(strtok(NULL, " \n"), NULL, 10);
    int place = atoi(strtok(NULL, " \n"));
    int nsplit = atoi(strtok(NULL, " \n"));
    size_t splits[4096];
    for (int i = 0; i < nsplit && i < 4096; i++) splits[i] = (size_t)strtoull(strtok(NULL, " \n"), NULL, 10);
    size_t out_len = (size_t)strtoull(strtok(NULL, " \n"), NULL, 10);
    uint64_t seek = (uint64_t)strtoull(strtok(NULL, " \n"), NULL, 10);
    int out_place = atoi(strtok(NULL, " \n"));
    long mask = strtol(strtok(NULL, " \n"), NULL, 10);
    g_cpu_features = (enum cpu_feature)(mask < 0 ? detected : ((int)mask & detected));

    gbuf hb = galloc(sizeof(blake3_hasher), 0);
    blake3_hasher *h = (blake3_hasher *)(void *)hb.p;
    if (((size_t)hb.p & 7u) != 0) { gfree(&hb); hb = galloc(sizeof(blake3_hasher) + 8 - (sizeof(blake3_hasher) & 7u), 0); h = (blake3_hasher *)(void *)hb.p; }
    init_mode(h, mode, key, ctx, ctx_len);
    size_t off = 0;
    for (int i = 0; i < nsplit; i++) { feed(h, seed, off, splits[i], (place + i) & 3); off += splits[i]; }
    (void)in_len;
    blake3_hasher snap;
    memcpy(&snap, h, sizeof snap);
    gbuf o1 = galloc(out_len, out_place), o2 = galloc(out_len, 0), o3 = galloc(out_len, 0);
    if (seek == 0 && (seed & 1)) blake3_hasher_finalize(h, o1.p, out_len);
    else blake3_hasher_finalize_seek(h, seek, o1.p, out_len);
    int unchanged = memcmp(&snap, h, sizeof snap) == 0;
    int canary = gcanary_ok(&o1);
    blake3_hasher_finalize_seek(h, seek, o2.p, out_len);
    int same2 = memcmp(o1.p, o2.p, out_len) == 0;
    /* reset returns the hasher to the freshly initialised state of the same mode and key */
    blake3_hasher_reset(h);
    feed(h, seed, 0, off, 0);
    blake3_hasher_finalize_seek(h, seek, o3.p, out_len);
    int same3 = memcmp(o1.p, o3.p, out_len) == 0;
    printf("R ");
    if (out_len == 0) printf("-");
    for (size_t i = 0; i < out_len; i++) printf("%02x", o1.p[i]);
    printf(" %d %d %d %d\n", same2, unchanged, same3, canary);
    fflush(stdout);
    gfree(&o1); gfree(&o2); gfree(&o3); gfree(&hb);
  }
  return 0;
}
