"""Directed search for the b3sum checkfile format (property C13) -- replay only, never decides.

Called from search_impl.find() when prop == "C13" (suspect / failed obligations of the `b3sum` Verus unit:
crate::parse_check_line, crate::hex_half_byte, crate::split_tagged_check_line, crate::hash_one_input, ...).

What runs is the REAL b3sum of the working tree (common.REPO): a scratch copy of <REPO>/b3sum made buildable
offline (wild::args_os() -> std::env::args_os(), clap features ["derive"], no [dev-dependencies], no Cargo.lock,
blake3 path dependency -> <REPO>) with a small driver APPENDED to the copied src/main.rs. The driver calls the
real `parse_check_line` / `filepath_to_string` (it re-implements nothing) and is entered through the
environment variable VF_REPLAY_DRIVER; without it the binary is the ordinary b3sum, which is run on temp files
for the round trips (path -> printed line, plain and --tag -> parse).

Oracle: oracle/checkfile.py (written from what_does_check_do.md); file hashes from oracle/b3spec.py.

    find(prop, fo, seed, deadline) -> {"found": None | {...}, "log": {...}}
    rerun(failing_input)           -> {"reproduced": bool, ...}
"""
import os
import random
import re
import shutil
import subprocess
import sys
import time

import common

sys.path.insert(0, os.path.join(common.VERIF, "oracle"))
import checkfile  # noqa: E402

BUILD_TIMEOUT_S = 900      # generous: a loaded machine must not turn a slow build into "nothing found"
ENV_VAR = "VF_REPLAY_DRIVER"

DRIVER_RS = r'''

// ---- appended by /verif/lib/search_b3sum.py (replay driver; calls the real functions of this file) ----
#[doc(hidden)]
fn vf_replay_hex(b: &[u8]) -> String {
    if b.is_empty() { "-".to_string() } else { hex::encode(b) }
}

#[doc(hidden)]
fn vf_replay_driver() {
    use std::io::BufRead;
    use std::os::unix::ffi::{OsStrExt, OsStringExt};
    static LAST_PANIC: std::sync::Mutex<String> = std::sync::Mutex::new(String::new());
    std::panic::set_hook(Box::new(|info| {
        if let Ok(mut g) = LAST_PANIC.lock() {
            *g = info.to_string();
        }
    }));
    let stdin = std::io::stdin();
    for l in stdin.lock().lines() {
        let l = l.expect("driver input");
        let (cmd, arg) = match l.split_once(' ') {
            Some(x) => x,
            None => (l.as_str(), ""),
        };
        let bytes = if arg == "-" { Vec::new() } else { hex::decode(arg).expect("driver input hex") };
        match cmd {
            // one line of a checkfile -> parse_check_line
            "L" => {
                let text = match String::from_utf8(bytes) {
                    Ok(t) => t,
                    Err(_) => {
                        println!("INVALID_UTF8");
                        continue;
                    }
                };
                let r = std::panic::catch_unwind(|| {
                    parse_check_line(&text).map(|p| {
                        (p.file_path.as_os_str().as_bytes().to_vec(), p.is_escaped, p.expected_hash.to_hex().to_string(), p.file_string.clone())
                    })
                });
                match r {
                    Ok(Ok((path, esc, hash, fs))) => {
                        println!("OK {} {} {} {}", vf_replay_hex(&path), esc, hash, vf_replay_hex(fs.as_bytes()))
                    }
                    Ok(Err(e)) => println!("ERR {}", vf_replay_hex(e.to_string().as_bytes())),
                    Err(_) => {
                        let msg = LAST_PANIC.lock().map(|g| g.clone()).unwrap_or_default();
                        println!("PANIC {}", vf_replay_hex(msg.as_bytes()))
                    }
                }
            }
            // a path (raw OS bytes) -> filepath_to_string
            "P" => {
                let path = std::path::PathBuf::from(std::ffi::OsString::from_vec(bytes));
                let r = std::panic::catch_unwind(|| {
                    let f = filepath_to_string(&path);
                    (f.filepath_string, f.is_escaped)
                });
                match r {
                    Ok((s, esc)) => println!("FS {} {}", vf_replay_hex(s.as_bytes()), esc),
                    Err(_) => {
                        let msg = LAST_PANIC.lock().map(|g| g.clone()).unwrap_or_default();
                        println!("PANIC {}", vf_replay_hex(msg.as_bytes()))
                    }
                }
            }
            _ => println!("BADCMD"),
        }
    }
}
'''

HOOK = '    if std::env::var_os("%s").is_some() {\n        vf_replay_driver();\n        return Ok(());\n    }\n' % ENV_VAR


# ----------------------------------------------------------------------------------------------
# build
# ----------------------------------------------------------------------------------------------
def build(root):
    """scratch copy of <REPO>/b3sum + driver, built offline (dev profile: overflow checks and debug assertions on).
    returns (binary path | None, log dict)"""
    repo = os.path.abspath(common.REPO)
    src = os.path.join(repo, "b3sum")
    d = os.path.join(root, "b3sum")
    os.makedirs(os.path.join(d, "src"), exist_ok=True)
    for f in os.listdir(os.path.join(src, "src")):
        p = os.path.join(src, "src", f)
        if os.path.isfile(p):
            shutil.copy(p, os.path.join(d, "src", f))
    t = common.read(os.path.join(src, "Cargo.toml"))
    t = re.sub(r"\n\[dev-dependencies\][^\[]*", "\n", t)
    t = re.sub(r"^wild\s*=.*\n", "", t, flags=re.M)
    t = re.sub(r"^clap\s*=.*$", 'clap = { version = "4.0.8", features = ["derive"] }', t, flags=re.M)
    t = re.sub(r"^blake3\s*=.*$", 'blake3 = { version = "1.8", path = "%s", features = ["mmap", "rayon"] }' % repo, t,
               flags=re.M)
    if "[workspace]" not in t:
        t += "\n[workspace]\n"
    common.write(os.path.join(d, "Cargo.toml"), t)
    m = common.read(os.path.join(d, "src", "main.rs"))
    m = m.replace("wild::args_os()", "std::env::args_os()")
    mm = re.search(r"fn\s+main\s*\(\s*\)\s*->\s*anyhow::Result<\(\)>\s*\{\n", m)
    log = {"what": "scratch copy of b3sum + replay driver", "repo": repo}
    if not mm:
        log["error"] = "fn main() -> anyhow::Result<()> not found in b3sum/src/main.rs: driver hook not inserted"
        return None, log
    m = m[:mm.end()] + HOOK + m[mm.end():] + DRIVER_RS
    common.write(os.path.join(d, "src", "main.rs"), m)
    env = {"CARGO_TARGET_DIR": os.path.join(root, "target"), "RUSTFLAGS": "-Awarnings"}
    rc, out, err, secs = common.run(["cargo", "build", "--offline", "--quiet"], timeout=BUILD_TIMEOUT_S, mem_gb=24, cwd=d,
                                    env=env)
    binp = os.path.join(root, "target", "debug", "b3sum")
    ok = rc == 0 and os.path.exists(binp)
    log.update({"ok": ok, "seconds": round(secs, 1)})
    if not ok:
        log["error"] = "rc=%s\n%s" % (rc, (err or out)[-2500:])
    return (binp if ok else None), log


# ----------------------------------------------------------------------------------------------
# running
# ----------------------------------------------------------------------------------------------
def _hx(b):
    return b.hex() if b else "-"


def _unhx(s):
    return b"" if s == "-" else bytes.fromhex(s)


def run_driver(binp, reqs, timeout=60):
    """reqs: list of ("L", bytes of the line) / ("P", path bytes). returns list of parsed answers (dicts)"""
    inp = "".join("%s %s\n" % (c, _hx(b)) for c, b in reqs)
    rc, out, err, _ = common.run([binp], timeout=timeout, mem_gb=4, input=inp, env={ENV_VAR: "1"})
    res = []
    for ln in out.split("\n"):
        if not ln:
            continue
        f = ln.split(" ")
        if f[0] == "OK" and len(f) == 5:
            res.append({"r": "ok", "path_bytes": _unhx(f[1]), "is_escaped": f[2] == "true", "hash_hex": f[3],
                        "file_string": _unhx(f[4]).decode("utf-8", "replace")})
        elif f[0] == "ERR":
            res.append({"r": "err", "msg": _unhx(f[1]).decode("utf-8", "replace") if len(f) > 1 else ""})
        elif f[0] == "PANIC":
            res.append({"r": "panic", "msg": _unhx(f[1]).decode("utf-8", "replace") if len(f) > 1 else ""})
        elif f[0] == "FS" and len(f) == 3:
            res.append({"r": "fs", "string": _unhx(f[1]).decode("utf-8", "replace"), "is_escaped": f[2] == "true"})
        elif f[0] == "INVALID_UTF8":
            res.append({"r": "invalid_utf8"})
        else:
            res.append({"r": "garbled", "text": ln[:200]})
    if len(res) != len(reqs):
        # the driver died (abort, stack overflow, kill): everything after the last answer is unanswered
        res += [{"r": "died", "rc": rc, "stderr": (err or "")[-400:]}] * (len(reqs) - len(res))
    return res


def judge_line(line, ans):
    """compare the real parse_check_line's answer for `line` (str) with the oracle. None = agree"""
    want = checkfile.parse_line(line)
    if ans["r"] == "panic":
        return {"field": "parse_check_line panicked (the property allows Ok or Err only)", "observed": "PANIC: " + ans["msg"],
                "expected": "Err" if want is None else "Ok %r" % (want,), "panic": ans["msg"]}
    if ans["r"] == "died" and ans.get("rc") == -9:
        return None     # OUR wall-clock limit killed the driver (loaded machine): no verdict, never a finding
    if ans["r"] in ("died", "garbled"):
        return {"field": "driver stopped while parsing this line", "observed": str(ans), "expected":
                "Err" if want is None else "Ok"}
    if ans["r"] == "err":
        if want is None:
            return None
        return {"field": "a well-formed line is rejected", "observed": "Err(%s)" % ans["msg"], "expected": "Ok %r" % (want,)}
    if ans["r"] != "ok":
        return {"field": "unexpected driver answer", "observed": str(ans), "expected": str(want)}
    got = {"path": ans["path_bytes"].decode("utf-8", "replace"), "hash_hex": ans["hash_hex"],
           "is_escaped": ans["is_escaped"], "file_string": ans["file_string"]}
    if want is None:
        return {"field": "a malformed line is accepted", "observed": "Ok %r" % (got,), "expected": "Err"}
    for k in ("path", "hash_hex", "is_escaped", "file_string"):
        if got[k] != want[k]:
            return {"field": "parsed %s differs" % k, "observed": got[k], "expected": want[k]}
    return None


# ----------------------------------------------------------------------------------------------
# scenario generators
# ----------------------------------------------------------------------------------------------
H1 = "af1349b9f5f9a1a6a0404dea36dcc9499bcb25c9adc112b7cc9a93cae41f3262"
H2 = "0123456789abcdef" * 4
# chars whose code point mod 256 is an ASCII hex digit ('0' = 0x30, 'a' = 0x61, 'f' = 0x66)
TRUNC_DIGITS = ["İ", "Ĺ", "š", "Ŧ", "あ", "慡", "\U00010030", "\U0001F630", "\U00010061"]
MULTI = ["é", "€", "😀", "İ"]

PATHS = ["a", "c/d", "foo bar", "two  spaces", " lead", "trail ", "  ", "t) = u", ") = ", "BLAKE3 (q) = r", "BLAKE3 (",
         "x\nx", "b\\c", "d\re", "\\", "\\\\", "\\n", "n\\", "\n", "\r", "\r\n", "a\\nb", "tab\there", "é", "€uro", "😀",
         "é  €) = 😀", "İ" * 3, "-", "--tag", "-x", H1, H1 + "  z", "BLAKE3 (a) = " + H1, "a" * 200, "é" * 100,
         "q\\\nr\\\rs", "  x", "x  ", "(", ")", "=", ") =", " = ", "'", "\"", "*", "?", "~", "$HOME", "%s", "\x01", "\x7f",
         "​", " ", "é"]


# every character that needs escaping next to / before / after every kind of multi-byte character
for _sp in ("\\", "\n", "\r"):
    for _mb in ("ß", "é", "€", "😀", "İ", "\u00a0", "\u2028"):
        PATHS += [_sp + _mb, _mb + _sp, _mb + _sp + _mb, "a" + _sp + "b" + _mb, _sp + "dir" + _mb + _sp + _mb]


# a double space (or `) = `) at every byte offset around the width of a hash field: the printed --tag line
# `BLAKE3 (<path>) = <hex>` then has 64 bytes before its first double space exactly when the offset is 56
for _k in list(range(50, 68)) + [118, 119, 120, 121, 122]:
    PATHS += ["d" * _k + "  x", "d" * _k + ") = y"]
PATHS += ["日本" + "e" * 50 + "  tail", "é" * 28 + "  z", "a/b/".replace("/", "_") + "f" * 52 + "  x", "\\" + "g" * 54 + "  x",
          "h" * 55 + "\n  x"]


def hash_field_cases():
    out = [H1, H2, H1[:63], H1 + "0", H1[:62], H1 + "00", "", "0", H1.upper(), H1[:63] + "A", H1[:63] + "g", H1[:63] + " ",
           " " + H1[:63], H1[:32] + " " + H1[33:], H1[:63] + "G", "0x" + H1[:62], H1[:63] + "\t", H1[:63] + "/", H1[:63] + ":",
           H1[:63] + "`", H1[:63] + "@"]
    # 64 chars, all of them non-ASCII "digits" after truncation to u8
    for c in TRUNC_DIGITS:
        out.append(c * 64)
        out.append(H1[:63] + c)
        out.append(c + H1[1:])
        out.append(H1[:31] + c + H1[32:])
    # byte length exactly 64 but fewer than 64 chars (multi-byte chars at the start / middle / end)
    for c in MULTI:
        n = len(c.encode())
        body = H1[:64 - n]
        out += [body + c, c + body, body[:20] + c + body[20:]]
        # 64 chars, more than 64 bytes
        out += [H1[:63] + c, c + H1[:63]]
    out += ["é" * 32, "€" * 21 + "0", "😀" * 16]
    # 64 bytes with a sign, radix prefix or separator where a lenient integer parser would swallow it
    for i in (0, 1, 2, 30, 62, 63):
        for bad in ("+", "-", "_", " ", "x"):
            out.append(H1[:i] + bad + H1[i + 1:])
    out += ["+f" * 32, "0x" + H1[2:], "+" + H1[1:], H1[:62] + "+f"]
    return out


def line_cases(seed):
    """list of (label, line). Every combination is judged against the oracle, well-formed or not."""
    out = []

    def add(label, line):
        out.append((label, line))

    # 1. empty / degenerate
    for l in ("", "\n", "\r\n", "\r", "\\", "\\\n", " ", "  ", "\\  ", H1, H1 + "\n", H1 + " ", H1 + "  ", H1 + "  \n",
              "  a", "\\  a", "BLAKE3 (", "BLAKE3 () = ", "BLAKE3 () = " + H1, "BLAKE3 (a) = ", "BLAKE3 (a)= " + H1,
              "BLAKE3(a) = " + H1, "blake3 (a) = " + H1, "BLAKE3 (a) =  " + H1, "\\\\" + H1 + "  a"):
        add("degenerate", l)
    # 2. hash-field boundaries in both forms, escaped or not
    for h in hash_field_cases():
        add("hashfield plain", h + "  foo")
        add("hashfield tag", "BLAKE3 (foo) = " + h)
        add("hashfield plain esc", "\\" + h + "  f\\\\oo")
        add("hashfield tag esc", "\\BLAKE3 (f\\noo) = " + h)
        add("hashfield tag, '  ' in path", "BLAKE3 (f  oo) = " + h)
    # 3. multi-byte chars straddling `len - 64` of a tagged line's tail
    for c in MULTI:
        n = len(c.encode())
        for shift in range(0, 5):
            add("straddle", "BLAKE3 (" + "x" * shift + c * (70 // n + 4))
            add("straddle", "BLAKE3 (" + "x" * shift + c * (70 // n + 4) + ") = " + H1[:60])
            add("straddle", "BLAKE3 (p) = " + "y" * shift + c + H1[:63])
            add("straddle", "BLAKE3 (p" + c + ") = " + H1[:64 - shift])
            add("straddle", "\\BLAKE3 (p" + c * 3 + ") = " + H1[shift:] + c)
        add("multibyte path", "BLAKE3 (" + c * 5 + ") = " + H1)
        add("multibyte path", H1 + "  " + c * 5)
    # 4. separators inside paths
    for p in ("a  b", "  a", "a  ", "a) = b", ") = ", "a) = ", ") = a", "BLAKE3 (a) = b", "BLAKE3 (", "a) = " + H2, H2 + "  a",
              "BLAKE3 (x) = " + H2, "a  b) = c  d"):
        add("separators plain", H1 + "  " + p)
        add("separators tag", "BLAKE3 (" + p + ") = " + H1)
    # 4b. paths that are not in a normal form: the parsed path is the text of the line, byte for byte
    for p in ("dir//file", "dir/./file", "link/", "//net/share", "./a", "a/.", "a/../b", "a//", "/", "//", "a/b/", ".", "..",
              "a\\n//b"):
        add("non-normal path plain", H1 + "  " + p)
        add("non-normal path tag", "BLAKE3 (" + p + ") = " + H1)
    add("non-normal path esc", "\\" + H1 + "  a\\n//b")
    # 5. escapes
    for f in ("a\\\\b", "a\\nb", "a\\rb", "\\\\", "\\n", "\\r", "a\\", "\\", "a\\tb", "a\\0b", "a\\ b", "a\\Nb", "a\\" + "é",
              "\\\\\\", "\\\\\\\\", "\\\\n", "\\n\\r\\\\", "plain", "é\\n€", "a\\\\", "a\\\\\\nb", "\\x41"):
        for esc in ("\\", ""):
            add("escape plain", esc + H1 + "  " + f)
            add("escape tag", esc + "BLAKE3 (" + f + ") = " + H1)
    # 6. forbidden characters / empty path
    for p in ("a\0b", "\0", "a�b", "�", "", "\\0"):
        for esc in ("\\", ""):
            add("forbidden plain", esc + H1 + "  " + p)
            add("forbidden tag", esc + "BLAKE3 (" + p + ") = " + H1)
    # 7. line endings
    for eol in ("", "\n", "\r\n", "\r", "\n\n", "\r\r\n", "\n\r", " \n", "\n "):
        add("eol plain", H1 + "  foo" + eol)
        add("eol tag", "BLAKE3 (foo) = " + H1 + eol)
        add("eol esc", "\\" + H1 + "  f\\no" + eol)
        add("eol path ends with CR-like escape", "\\BLAKE3 (foo\\r) = " + H1 + eol)
    # 8. what the format prints for the path list (oracle's formatter), all endings
    for p in PATHS:
        for tag in (False, True):
            ln = checkfile.format_line(p, H2, tag)
            add("formatted", ln)
            add("formatted crlf", ln[:-1] + "\r\n")
            add("formatted, marker dropped", ln[1:] if ln.startswith("\\") else "\\" + ln)
    # 9. random concatenations of format tokens
    rng = random.Random("C13/%s" % seed)
    toks = ["BLAKE3 (", ") = ", "  ", " ", "\\", "\\n", "\\\\", "\\r", "é", "€", "😀", "İ", "a", "foo", "A", "\0", "�",
            "\n", "\r", H1, H1[:63], H1[:62], H1[:32], H1 + "0", "0", "f", "(", ")", "="]
    for _ in range(600):
        k = rng.randint(1, 7)
        add("random", "".join(rng.choice(toks) for _ in range(k)))
    for _ in range(200):
        # a valid line with one random edit
        p = rng.choice(PATHS)
        ln = checkfile.format_line(p, rng.choice((H1, H2)), rng.random() < 0.5)
        i = rng.randrange(len(ln))
        e = rng.choice(("del", "ins", "rep"))
        t = rng.choice(toks)
        ln = ln[:i] + ("" if e == "del" else t) + (ln[i:] if e == "ins" else ln[i + 1:])
        add("random edit", ln)
    return out


def path_cases():
    """list of path BYTES that can exist as one file name in a directory (no '/', no NUL, <= 255 bytes)"""
    out = []
    for p in PATHS:
        b = p.encode()
        # "-" is b3sum's name for standard input, not a file
        if "/" in p or "\0" in p or not b or len(b) > 255 or p in (".", "..", "-") or b in out:
            continue
        out.append(b)
    out += [b"bad\xffutf8", b"\xff", b"a\xc3", b"\xe2\x82", b"x\xed\xa0\x80y", b"lit\xef\xbf\xbdrepl"]
    return out


# ----------------------------------------------------------------------------------------------
# search
# ----------------------------------------------------------------------------------------------
def _line_scenario(label, line, m):
    return {"kind": "b3sum_line", "what": label, "line": line, "line_utf8_hex": line.encode("utf-8", "surrogatepass").hex()}


def search_lines(binp, seed, log):
    cases = line_cases(seed)
    ans = run_driver(binp, [("L", l.encode("utf-8")) for _, l in cases], timeout=90)
    log["lines_checked"] = len(cases)
    for (label, line), a in zip(cases, ans):
        m = judge_line(line, a)
        if m:
            # confirm in isolation with a generous limit: a failure that does not repeat is noise, not a finding
            a2 = run_driver(binp, [("L", line.encode("utf-8"))], timeout=300)[0]
            m = judge_line(line, a2)
            if m:
                return _line_scenario(label, line, m), m
            log.setdefault("notes", []).append("unconfirmed line failure dropped: %s" % label)
    return None, None


def _b3sum(binp, cwd, args, timeout=120):
    """run the ordinary b3sum; returns (rc, stdout BYTES, stderr text)"""
    env = dict(os.environ)
    env.pop(ENV_VAR, None)
    try:
        p = subprocess.run([binp] + args, cwd=cwd, env=env, stdout=subprocess.PIPE, stderr=subprocess.PIPE, timeout=timeout)
        return p.returncode, p.stdout, p.stderr.decode("utf-8", "replace")
    except subprocess.TimeoutExpired:
        return -9, b"", "timeout"


def judge_roundtrip(binp, cwd, pb, content, tag):
    """one path (bytes), one form: printed line vs the oracle's formatter, then both parsers on the printed line.
    returns a mismatch dict or None"""
    import b3spec
    hx = b3spec.blake3(content).hex()
    ps = checkfile.lossy(pb)
    want = checkfile.format_line(ps, hx, tag)
    rc, out, err = _b3sum(binp, cwd, (["--tag"] if tag else []) + ["--", os.fsdecode(pb)])
    form = "--tag" if tag else "plain"
    if rc == -9:
        return None     # timeout of our own making: no verdict
    if rc != 0:
        return {"field": "b3sum failed to hash an existing file (%s form)" % form, "observed": "rc=%s %s" % (rc, err[-300:]),
                "expected": want}
    try:
        printed = out.decode("utf-8")
    except UnicodeDecodeError:
        return {"field": "printed line is not UTF-8 (%s form)" % form, "observed": out.hex(), "expected": want}
    if printed != want:
        return {"field": "printed line differs from the format (%s form)" % form, "observed": printed, "expected": want,
                "printed_line": printed}
    a = run_driver(binp, [("L", printed.encode())])[0]
    m = judge_line(printed, a)
    if m:
        m["printed_line"] = printed
        return m
    if checkfile.checkable(ps) and pb.decode("utf-8", "replace") == ps and "�" not in ps:
        if a["r"] != "ok" or a["path_bytes"] != pb or a["hash_hex"] != hx:
            return {"field": "printed line does not parse back to the same path and hash (%s form)" % form,
                    "observed": str(a), "expected": {"path": ps, "hash_hex": hx}, "printed_line": printed}
    elif a["r"] != "err":
        return {"field": "line for an uncheckable path is not rejected (%s form)" % form, "observed": str(a),
                "expected": "Err", "printed_line": printed}
    return None


def search_roundtrips(binp, root, log):
    """real b3sum on temp files: all paths in one invocation per form first (fast), then one by one to name
    the failing path"""
    import b3spec
    d = os.path.join(root, "files")
    os.makedirs(d, exist_ok=True)
    paths = []
    for i, pb in enumerate(path_cases()):
        try:
            with open(os.path.join(os.fsencode(d), pb), "wb") as f:
                f.write(b"content %d" % i)
            paths.append((pb, b"content %d" % i))
        except OSError:
            continue
    log["paths_checked"] = len(paths)
    # filepath_to_string directly
    ans = run_driver(binp, [("P", pb) for pb, _ in paths])
    for (pb, content), a in zip(paths, ans):
        ps = checkfile.lossy(pb)
        field, esc = checkfile.file_field(ps)
        if a["r"] != "fs" or a["string"] != field or a["is_escaped"] != esc:
            sc = {"kind": "b3sum_path", "path_bytes_hex": pb.hex(), "path": ps, "content_hex": content.hex(), "form": "fs"}
            return sc, {"field": "filepath_to_string differs from the documented escaping", "observed": str(a),
                        "expected": {"string": field, "is_escaped": esc}}
    for tag in (False, True):
        want = "".join(checkfile.format_line(checkfile.lossy(pb), b3spec.blake3(c).hex(), tag) for pb, c in paths)
        rc, out, err = _b3sum(binp, d, (["--tag"] if tag else []) + ["--"] + [os.fsdecode(pb) for pb, _ in paths], timeout=60)
        if rc == 0 and out == want.encode("utf-8"):
            # the batch output is the concatenation of the expected lines: parse each of them with the real parser
            lines = [checkfile.format_line(checkfile.lossy(pb), b3spec.blake3(c).hex(), tag) for pb, c in paths]
            ans = run_driver(binp, [("L", l.encode()) for l in lines])
            bad = False
            for (pb, c), l, a in zip(paths, lines, ans):
                ok = checkfile.checkable(checkfile.lossy(pb)) and pb.decode("utf-8", "replace") == checkfile.lossy(pb)
                if judge_line(l, a) or (ok and (a["r"] != "ok" or a["path_bytes"] != pb)) or (not ok and a["r"] != "err"):
                    bad = True
                    break
            if not bad:
                continue
        for pb, content in paths:
            m = judge_roundtrip(binp, d, pb, content, tag)
            if m:
                m = judge_roundtrip(binp, d, pb, content, tag)     # confirm once more
            if m:
                sc = {"kind": "b3sum_path", "path_bytes_hex": pb.hex(), "path": checkfile.lossy(pb),
                      "content_hex": content.hex(), "form": "tag" if tag else "plain",
                      "printed_line": m.get("printed_line")}
                return sc, m
        log.setdefault("notes", []).append("batch output of the %s form differed but no single path reproduced it"
                                           % ("--tag" if tag else "plain"))
    return None, None


def search_seek(binp, root, log):
    """--seek / --length (hex and --raw): the printed output is S[seek..seek+length] of the file's hash stream"""
    import b3spec
    d = os.path.join(root, "seekfiles")
    os.makedirs(d, exist_ok=True)
    n = 0
    for content in (b"", b"abc", bytes(i % 251 for i in range(1500))):
        name = "s%d" % len(content)
        with open(os.path.join(d, name), "wb") as f:
            f.write(content)
        for seek, length in ((0, 32), (0, 1), (0, 64), (0, 65), (0, 131), (1, 32), (1, 63), (1, 64), (1, 99), (33, 32), (40, 32),
                             (50, 32), (63, 1), (63, 2), (64, 64), (65, 130), (100, 64), (303, 102), (1000, 300),
                             ((1 << 32) * 64 - 7, 20), ((1 << 64) - 1 - 40, 40)):
            want = b3spec.blake3(content, out_len=length, seek=seek)
            for raw in (False, True):
                args = ["--seek", str(seek), "--length", str(length)] + (["--raw"] if raw else []) + ["--", name]
                rc, out, err = _b3sum(binp, d, args)
                if rc == -9:
                    continue
                n += 1
                exp = want if raw else (want.hex() + "  " + name + "\n").encode()
                if rc != 0 or out != exp:
                    rc2, out2, err2 = _b3sum(binp, d, args)       # confirm once more
                    if rc2 == -9 or (rc2 == 0 and out2 == exp):
                        continue
                    sc = {"kind": "b3sum_seek", "content_hex": content.hex(), "seek": seek, "length": length, "raw": raw}
                    log["seek_checked"] = n
                    return sc, {"field": "b3sum %s output" % " ".join(args[:-2]),
                                "observed": (out.hex() if raw else out.decode("utf-8", "replace"))[:400] if rc == 0 else "rc=%s %s" % (rc, err[-200:]),
                                "expected": (exp.hex() if raw else exp.decode())[:400]}
    log["seek_checked"] = n
    return None, None


# ----------------------------------------------------------------------------------------------
# C12: --check as a process (exit status, status lines) and the mode options, against the oracles
# ----------------------------------------------------------------------------------------------
def _check_expect(entries, quiet):
    """entries: [(line text, verdict)] with verdict in ok / failed / failed_err / malformed -> (stdout regex list, status)"""
    outs, bad = [], 0
    for name, verdict in entries:
        if verdict == "ok":
            if not quiet:
                outs.append(re.escape(name) + ": OK")
        elif verdict == "failed":
            outs.append(re.escape(name) + ": FAILED")
            bad += 1
        elif verdict == "failed_err":
            outs.append(re.escape(name) + r": FAILED \(.*\)")
            bad += 1
        else:
            bad += 1
    return outs, (1 if bad else 0)


def check_scenarios():
    """lists of checkfiles; each checkfile = list of (kind, file index); kinds: good / mismatch / missing / malformed"""
    G, M, X, B = "good", "mismatch", "missing", "malformed"
    return [
        [[(G, 0)]], [[(M, 0)]], [[(X, 0)]], [[(B, 0)]],
        [[(G, 0), (G, 1), (G, 2)]],
        [[(M, 0), (G, 1), (G, 2)]], [[(G, 0), (M, 1), (G, 2)]], [[(G, 0), (G, 1), (M, 2)]],
        [[(X, 0), (G, 1)]], [[(B, 0), (G, 1)]], [[(G, 0), (B, 1), (G, 2)]], [[(G, 0), (X, 1), (G, 2)]],
        [[(G, 0)], [(G, 1)]], [[(M, 0)], [(G, 1)]], [[(G, 0)], [(M, 1)]], [[(X, 0)], [(G, 1)], [(G, 2)]],
        [[(G, 0)], [(B, 1)], [(G, 2)]], [[(M, 0), (G, 1)], [(G, 2), (G, 0)]], [[(G, 0), (G, 1)], [(G, 2), (X, 0)]],
        [[]], [[], [(G, 0)]], [[(M, 0)], []],
    ]


def judge_check(binp, d, scen, quiet, tag, no_mmap):
    """build the checkfiles of one scenario, run `b3sum --check`, compare status and status lines"""
    import b3spec
    contents = [b"", b"file one\n", bytes(i % 253 for i in range(70000))]
    names = ["c0.bin", "c1 with  two spaces", "c2.bin"]
    for n, c in zip(names, contents):
        with open(os.path.join(d, n), "wb") as f:
            f.write(c)
    cfs, entries = [], []
    for k, cf in enumerate(scen):
        lines = []
        for kind, i in cf:
            hx = b3spec.blake3(contents[i]).hex()
            name = names[i]
            if kind == "mismatch":
                hx = hx[:-1] + ("0" if hx[-1] != "0" else "1")
            if kind == "missing":
                name = "absent-" + names[i]
            if kind == "malformed":
                lines.append(hx[:40] + "  " + name + "\n")
                entries.append((name, "malformed"))
                continue
            lines.append(checkfile.format_line(name, hx, tag))
            entries.append((name, {"good": "ok", "mismatch": "failed", "missing": "failed_err"}[kind]))
        cfn = "check%d.txt" % k
        with open(os.path.join(d, cfn), "w") as f:
            f.write("".join(lines))
        cfs.append(cfn)
    args = ["--check"] + (["--quiet"] if quiet else []) + (["--no-mmap"] if no_mmap else []) + cfs
    rc, out, err = _b3sum(binp, d, args)
    if rc == -9:
        return None
    want_lines, want_rc = _check_expect(entries, quiet)
    got = out.decode("utf-8", "replace").splitlines()
    ok = (rc == want_rc) and len(got) == len(want_lines) and all(re.fullmatch(w, g) for w, g in zip(want_lines, got))
    if ok:
        return None
    return {"field": "b3sum %s: exit status / status lines" % " ".join(args[:3]),
            "observed": "rc=%d stdout=%r" % (rc, got[:8]), "expected": "rc=%d stdout~%r" % (want_rc, want_lines[:8])}


def search_check(binp, root, log):
    d = os.path.join(root, "checkfiles")
    os.makedirs(d, exist_ok=True)
    n = 0
    for scen in check_scenarios():
        for quiet, tag, no_mmap in ((False, False, False), (True, False, False), (False, True, True)):
            m = judge_check(binp, d, scen, quiet, tag, no_mmap)
            n += 1
            if m:
                m = judge_check(binp, d, scen, quiet, tag, no_mmap)    # confirm once more
            if m:
                log["check_runs"] = n
                return {"kind": "b3sum_check", "scenario": scen, "quiet": quiet, "tag": tag, "no_mmap": no_mmap}, m
    log["check_runs"] = n
    return None, None


def judge_mode(binp, d, content, mode, seek, length, flags):
    import b3spec
    key = bytes(range(7, 39))
    ctx = "verif 2026-09-23 b3sum mode test"
    with open(os.path.join(d, "m.bin"), "wb") as f:
        f.write(content)
    args, stdin = [], None
    if mode == "keyed":
        args, stdin = ["--keyed"], key
    elif mode == "derive":
        args = ["--derive-key", ctx]
    args += ["--seek", str(seek), "--length", str(length)] + list(flags) + ["--", "m.bin"]
    env = dict(os.environ)
    env.pop(ENV_VAR, None)
    try:
        p = subprocess.run([binp] + args, cwd=d, env=env, input=stdin if stdin is not None else b"", stdout=subprocess.PIPE,
                           stderr=subprocess.PIPE, timeout=120)
    except subprocess.TimeoutExpired:
        return None
    want = b3spec.blake3(content, mode={"hash": "hash", "keyed": "keyed", "derive": "derive"}[mode],
                         key=key if mode == "keyed" else None, context=ctx if mode == "derive" else None,
                         out_len=length, seek=seek)
    if "--raw" in flags:
        exp = want
    elif "--no-names" in flags:
        exp = (want.hex() + "\n").encode()
    elif "--tag" in flags:
        exp = ("BLAKE3 (m.bin) = " + want.hex() + "\n").encode()
    else:
        exp = (want.hex() + "  m.bin\n").encode()
    if p.returncode == 0 and p.stdout == exp:
        return None
    return {"field": "b3sum %s output" % " ".join(args[:-2]),
            "observed": ("rc=%d " % p.returncode) + (p.stdout.hex() if "--raw" in flags else p.stdout.decode("utf-8", "replace"))[:300],
            "expected": (exp.hex() if "--raw" in flags else exp.decode())[:300]}


def mode_cases():
    contents = (b"", b"abc", bytes(i % 251 for i in range(1025)), bytes(i % 241 for i in range(20000)),
                bytes(i % 239 for i in range(300000)))
    flagsets = ((), ("--no-mmap",), ("--num-threads", "1"), ("--num-threads", "3"), ("--raw",), ("--no-names",), ("--tag",),
                ("--no-mmap", "--raw"), ("--tag", "--no-mmap", "--num-threads", "2"))
    for ci, content in enumerate(contents):
        for mode in ("hash", "keyed", "derive"):
            for fi, flags in enumerate(flagsets):
                for seek, length in ((0, 32), (0, 100), (40, 32), (1, 64), (64, 65), (1000, 131)):
                    if (ci + fi + seek) % 3 == 0 or (seek, length) == (0, 32):
                        yield content, mode, seek, length, flags


def search_modes(binp, root, log):
    d = os.path.join(root, "modefiles")
    os.makedirs(d, exist_ok=True)
    n = 0
    for content, mode, seek, length, flags in mode_cases():
        m = judge_mode(binp, d, content, mode, seek, length, flags)
        n += 1
        if m:
            m = judge_mode(binp, d, content, mode, seek, length, flags)
        if m:
            log["mode_runs"] = n
            return {"kind": "b3sum_mode", "content_hex": content.hex() if len(content) < 2000 else None,
                    "content_len": len(content), "content_mod": {1025: 251, 20000: 241, 300000: 239}.get(len(content)),
                    "mode": mode, "seek": seek, "length": length, "flags": list(flags)}, m
    log["mode_runs"] = n
    return None, None


def _order(function, prop=None):
    """which half first: obligations of the printing side start with the round trips"""
    if prop == "C12":
        if re.search(r"write_hex_output|write_raw_output|hash_one_input|hash_path", function or ""):
            return ("seek", "modes", "check")
        return ("check", "modes", "seek")
    if re.search(r"write_hex_output|write_raw_output", function or ""):
        return ("seek", "roundtrips", "lines")
    if re.search(r"hash_one_input|filepath_to_string|Args::", function or ""):
        return ("roundtrips", "seek", "lines")
    return ("lines", "roundtrips", "seek")


def find(prop, fo, seed, deadline=None):
    t0 = time.time()
    function = (fo or {}).get("function") or ""
    log = {"function": function, "rule": "C13: real b3sum (scratch build + appended driver) vs oracle/checkfile.py",
           "families": ["b3sum_checkfile"], "seed": seed, "oracle": "oracle/checkfile.py", "repo": common.REPO,
           "scenarios_run": 0, "builds": []}
    root = common.scratch_dir("replay_b3sum")
    found = None
    try:
        tb = time.time()
        binp, blog = build(root)
        log["builds"].append(blog)
        if not binp:
            return {"found": None, "log": log}
        if deadline:
            deadline += time.time() - tb      # the build does not count against the search budget
        for half in _order(function, prop):
            if deadline and time.time() > deadline - 5:
                log["note"] = "time budget exhausted before " + half
                break
            sc, m = (search_lines(binp, seed, log) if half == "lines" else search_seek(binp, root, log) if half == "seek"
                     else search_check(binp, root, log) if half == "check" else search_modes(binp, root, log) if half == "modes"
                     else search_roundtrips(binp, root, log))
            if sc:
                found = {"scenario": sc, "features": [], "family": "b3sum_checkfile/" + half, "field": m.get("field"),
                         "observed": m.get("observed"), "expected": m.get("expected"), "panic": m.get("panic"),
                         "panic_loc": None, "detail": None}
                break
        log["scenarios_run"] = (log.get("lines_checked", 0) + 2 * log.get("paths_checked", 0) + log.get("check_runs", 0)
                                + log.get("mode_runs", 0) + log.get("seek_checked", 0))
    finally:
        common.rm_rf(root)
    log["seconds"] = round(time.time() - t0, 1)
    return {"found": found, "log": log}


def rerun(failing_input):
    sc = failing_input["scenario"]
    root = common.scratch_dir("replay_b3sum")
    try:
        binp, blog = build(root)
        if not binp:
            return {"reproduced": False, "error": "b3sum scratch build failed: " + str(blog.get("error"))[-1500:]}
        if sc["kind"] == "b3sum_seek":
            import b3spec
            d = os.path.join(root, "seekfiles")
            os.makedirs(d, exist_ok=True)
            content = bytes.fromhex(sc["content_hex"])
            with open(os.path.join(d, "s"), "wb") as f:
                f.write(content)
            args = ["--seek", str(sc["seek"]), "--length", str(sc["length"])] + (["--raw"] if sc["raw"] else []) + ["--", "s"]
            rc, out, err = _b3sum(binp, d, args)
            want = b3spec.blake3(content, out_len=sc["length"], seek=sc["seek"])
            exp = want if sc["raw"] else (want.hex() + "  s\n").encode()
            if rc == 0 and out == exp:
                return {"reproduced": False, "observed": "agrees with the oracle", "scenario": sc}
            return {"reproduced": True, "field": "b3sum --seek/--length output", "observed": out.hex()[:300],
                    "expected": exp.hex()[:300], "scenario": sc, "repo": common.REPO}
        if sc["kind"] == "b3sum_check":
            d = os.path.join(root, "checkfiles")
            os.makedirs(d, exist_ok=True)
            m = judge_check(binp, d, sc["scenario"], sc["quiet"], sc["tag"], sc["no_mmap"])
            if m is None:
                return {"reproduced": False, "observed": "agrees with the oracle", "scenario": sc}
            return {"reproduced": True, "field": m["field"], "observed": m["observed"], "expected": m["expected"],
                    "scenario": sc, "repo": common.REPO}
        if sc["kind"] == "b3sum_mode":
            d = os.path.join(root, "modefiles")
            os.makedirs(d, exist_ok=True)
            content = (bytes.fromhex(sc["content_hex"]) if sc.get("content_hex") is not None
                       else bytes(i % sc["content_mod"] for i in range(sc["content_len"])))
            m = judge_mode(binp, d, content, sc["mode"], sc["seek"], sc["length"], sc["flags"])
            if m is None:
                return {"reproduced": False, "observed": "agrees with the oracle", "scenario": sc}
            return {"reproduced": True, "field": m["field"], "observed": m["observed"], "expected": m["expected"],
                    "scenario": sc, "repo": common.REPO}
        if sc["kind"] == "b3sum_line":
            line = bytes.fromhex(sc["line_utf8_hex"]).decode("utf-8", "surrogatepass")
            a = run_driver(binp, [("L", line.encode("utf-8"))])[0]
            m = judge_line(line, a)
        else:
            pb = bytes.fromhex(sc["path_bytes_hex"])
            d = os.path.join(root, "files")
            os.makedirs(d, exist_ok=True)
            content = bytes.fromhex(sc.get("content_hex") or "")
            with open(os.path.join(os.fsencode(d), pb), "wb") as f:
                f.write(content)
            if sc.get("form") == "fs":
                a = run_driver(binp, [("P", pb)])[0]
                field, esc = checkfile.file_field(checkfile.lossy(pb))
                m = None if (a["r"] == "fs" and a["string"] == field and a["is_escaped"] == esc) else \
                    {"field": "filepath_to_string differs from the documented escaping", "observed": str(a),
                     "expected": {"string": field, "is_escaped": esc}}
            else:
                m = judge_roundtrip(binp, d, pb, content, sc.get("form") == "tag")
        if m is None:
            return {"reproduced": False, "observed": "agrees with the oracle", "expected": failing_input.get("expected"),
                    "scenario": sc}
        return {"reproduced": True, "field": m.get("field"), "observed": m.get("observed"), "expected": m.get("expected"),
                "panic": m.get("panic"), "scenario": sc, "repo": common.REPO}
    finally:
        common.rm_rf(root)


def selftest(seed=0):
    """unchanged tree: the family must report nothing"""
    r = find("C13", {"function": "crate::parse_check_line"}, seed)
    r2 = find("C13", {"function": "crate::hash_one_input"}, seed) if not r["found"] else None
    return r, r2


if __name__ == "__main__":
    import json
    fn = sys.argv[1] if len(sys.argv) > 1 else "crate::parse_check_line"
    print(json.dumps(find("C13", {"function": fn}, 0), indent=1, default=str)[:6000])
