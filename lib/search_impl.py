"""Replay search: look for a concrete input on which the REAL crate (built from the working tree,
common.REPO) disagrees with the independent oracle oracle/b3spec.py, panics, hangs or crashes.

It never decides a property.  It is called only after a verifier reported a failed obligation and
only to make that report replayable:

    find(prop, fo, seed) -> {"found": None | {...}, "log": {...}}
    rerun(failing_input)  -> {"reproduced": bool, "observed": .., "expected": ..}

Structure
    part 1  build + run the driver (lib/replay_driver), deterministic inputs, the hasher model
    part 2  per-kind checkers: compare one driver observation with the oracle
    part 3  scenario families (generators)
    part 4  function -> families table, find(), rerun()
"""
import json
import os
import random
import re
import shutil
import sys
import threading
import time

import common

sys.path.insert(0, os.path.join(common.VERIF, "oracle"))
import b3spec  # noqa: E402

DRIVER_SRC = os.path.join(common.VERIF, "lib", "replay_driver")
TOTAL_BUDGET_S = float(os.environ.get("VERIF_SEARCH_BUDGET", "170"))   # whole find(), build included
BUILD_TIMEOUT_S = 900      # generous: a loaded machine must not turn a slow build into "nothing found"
U64 = (1 << 64) - 1

# SIMD levels, selected with the crate's stock features
PORTABLE = ("no_avx2", "no_avx512", "no_sse2", "no_sse41")
LEVELS = {
    "default": (),
    "no_avx512": ("no_avx512",),
    "no_avx2": ("no_avx2", "no_avx512"),
    "no_sse41": ("no_avx2", "no_avx512", "no_sse41"),
    "portable": PORTABLE,
    "pure": ("pure",),
    "prefer_intrinsics": ("prefer_intrinsics",),
    "pi_no_avx512": ("prefer_intrinsics", "no_avx512"),
    "pi_no_avx2": ("prefer_intrinsics", "no_avx2", "no_avx512"),
    "pure_no_avx2": ("pure", "no_avx2"),
    "pure_no_sse41": ("pure", "no_avx2", "no_sse41"),
    # the release profile as users build it: no debug assertions, no overflow checks (pseudo-feature, see Builds._build)
    "nodebug": ("@nodebug",),
}
DRIVER_FEATURE = {"traits-preview": "traits", "zeroize": "zeroize"}      # blake3 feature -> driver feature


# ==============================================================================================
# part 1: build and run
# ==============================================================================================
class Builds:
    """One scratch directory per find()/rerun(); one driver copy + target dir per feature set so
    that variants can be built in parallel.  Removed by close()."""

    def __init__(self):
        self.root = common.scratch_dir("replay")
        self.jobs = {}
        self.log = []
        self.lock = threading.Lock()

    def _build(self, feats, slot):
        key = "_".join(feats) or "default"
        d = os.path.join(self.root, key)
        drv = os.path.join(d, "drv")
        os.makedirs(os.path.join(drv, "src"), exist_ok=True)
        tpl = common.read(os.path.join(DRIVER_SRC, "Cargo.toml"))
        common.write(os.path.join(drv, "Cargo.toml"), tpl.replace("@BLAKE3_PATH@", os.path.abspath(common.REPO)))
        shutil.copy(os.path.join(DRIVER_SRC, "src", "main.rs"), os.path.join(drv, "src", "main.rs"))
        cmd = ["cargo", "build", "--offline", "--release", "--quiet"]
        dfe = [DRIVER_FEATURE.get(f, f) for f in feats if not f.startswith("@")]
        if dfe:
            cmd += ["--features", ",".join(dfe)]
        env = {"CARGO_TARGET_DIR": os.path.join(d, "target"), "RUSTFLAGS": "-Awarnings"}
        if "@nodebug" in feats:
            # the driver's profile keeps debug assertions and overflow checks on; this flavour turns both off for the
            # crate under test and the driver alike (behaviour that exists only in builds without them)
            env["CARGO_PROFILE_RELEASE_DEBUG_ASSERTIONS"] = "false"
            env["CARGO_PROFILE_RELEASE_OVERFLOW_CHECKS"] = "false"
        rc, out, err, secs = common.run(cmd, timeout=BUILD_TIMEOUT_S, mem_gb=24, cwd=drv, env=env)
        binp = os.path.join(d, "target", "release", "replay_driver")
        ok = rc == 0 and os.path.exists(binp)
        slot["bin"] = binp if ok else None
        slot["seconds"] = round(secs, 1)
        slot["error"] = None if ok else ("rc=%s\n%s" % (rc, (err or out)[-2500:]))
        with self.lock:
            self.log.append({"features": list(feats), "ok": ok, "seconds": round(secs, 1),
                             "error": slot["error"] and slot["error"][-600:]})

    def start(self, feats):
        feats = tuple(sorted(feats))
        if feats not in self.jobs:
            slot = {}
            th = threading.Thread(target=self._build, args=(feats, slot), daemon=True)
            th.start()
            self.jobs[feats] = (th, slot)
        return feats

    def get(self, feats):
        feats = self.start(feats)
        th, slot = self.jobs[feats]
        th.join()
        return slot.get("bin"), slot.get("error")

    def close(self):
        for th, _ in self.jobs.values():
            th.join(timeout=BUILD_TIMEOUT_S + 5)
        common.rm_rf(self.root)


def run_driver(binp, lowered, scratch, timeout, env=None):
    """Run the driver over `lowered` (list of driver scenarios).  Returns a list of observations
    aligned with the input; a scenario that killed the process gets {"crash": True, ...}; scenarios
    that could not be run at all get None."""
    results = [None] * len(lowered)
    start = 0
    restarts = 0
    t_end = time.time() + timeout
    while start < len(lowered) and restarts < 4:
        batch = []
        for i in range(start, len(lowered)):
            s = dict(lowered[i])
            s["id"] = i
            batch.append(s)
        left = max(5.0, t_end - time.time())
        rc, out, err, _ = common.run([binp], timeout=left, mem_gb=8, cwd=scratch, input=json.dumps(batch),
                                     env=dict({"REPLAY_SCRATCH": scratch}, **(env or {})))
        n = 0
        for ln in out.splitlines():
            ln = ln.strip()
            if not ln.startswith("{"):
                continue
            try:
                r = json.loads(ln)
            except ValueError:
                break           # truncated last line of a killed process
            results[r["id"]] = r
            n += 1
        nxt = start + n
        if nxt >= len(lowered):
            break
        if n > 0 and results[nxt - 1].get("hang"):
            start = nxt         # the watchdog reported the hang itself
        elif rc == -9:
            break               # OUR wall-clock limit killed the driver (loaded machine): nobody's fault, stop here
        else:
            results[nxt] = {"id": nxt, "ok": False, "crash": True, "rc": rc, "panic": None,
                            "stderr": (err or "")[-800:]}
            start = nxt + 1
        restarts += 1
        if time.time() > t_end:
            break
    return results


# ---------------------------------------------------------------------------------------------
# deterministic inputs (mirrors gen_input in the driver)
# ---------------------------------------------------------------------------------------------
_STREAMS = {}


def _xorshift_stream(seed, n):
    s = ((seed * 0x9E3779B97F4A7C15) & U64) ^ 0xD1B54A32D192ED03
    if s == 0:
        s = 1
    out = bytearray()
    while len(out) < n:
        s ^= (s << 13) & U64
        s ^= s >> 7
        s ^= (s << 17) & U64
        out += s.to_bytes(8, "little")
    return bytes(out)


def gen_input(spec):
    if spec is None:
        return b""
    if "hex" in spec:
        return bytes.fromhex(spec["hex"])
    n = spec.get("len", 0)
    pat = spec.get("pattern", "inc251")
    seed = spec.get("seed", 0)
    key = (pat, seed)
    cur = _STREAMS.get(key, b"")
    if len(cur) < n:
        m = max(n, 72 * 1024)
        if pat == "inc251":
            cur = bytes(i % 251 for i in range(m))
        elif pat == "zero":
            cur = bytes(m)
        elif pat == "xorshift":
            cur = _xorshift_stream(seed, m)
        else:
            raise ValueError(pat)
        _STREAMS[key] = cur
    return cur[:n]


_MODE_CACHE = {}


def mode_kw(sc):
    """(key_words, flags) of the scenario's mode."""
    m = sc.get("mode", "hash")
    k = (m, sc.get("key_hex"), sc.get("context"))
    r = _MODE_CACHE.get(k)
    if r is None:
        key = bytes.fromhex(sc["key_hex"]) if sc.get("key_hex") else None
        r = b3spec.mode_params(m, key=key, context=sc.get("context"))
        _MODE_CACHE[k] = r
    return r


_ROOT_CACHE = {}


def spec_out(sc, data, out_len=32, seek=0):
    """ROOT output of the whole message `data` in the scenario's mode."""
    kw, fl = mode_kw(sc)
    k = (data, kw, fl)
    node = _ROOT_CACHE.get(k)
    if node is None:
        node = b3spec.root_node(data, kw, fl)
        if len(_ROOT_CACHE) > 4000:
            _ROOT_CACHE.clear()
        _ROOT_CACHE[k] = node
    return b3spec.root_output(node, out_len, seek)


def spec_subtree(sc, data, chunk_offset):
    kw, fl = mode_kw(sc)
    return b3spec.subtree_cv(data, chunk_offset, kw, fl)


def max_subtree_len(offset):
    if offset == 0:
        return None
    c = offset // 1024
    return (c & -c) * 1024


def mism(field, observed, expected, **kw):
    d = {"field": field, "observed": observed, "expected": expected}
    d.update(kw)
    return d


def _short(x, n=200):
    if isinstance(x, str) and len(x) > n:
        return x[:n] + "...(%d chars)" % len(x)
    return x


def panic_text(res):
    if res is None:
        return "not executed"
    if res.get("crash"):
        return "process died (rc=%s) %s" % (res.get("rc"), (res.get("stderr") or "").strip()[-300:])
    if res.get("hang"):
        return "no result within the per-scenario time limit (hang)"
    if res.get("panic") is not None:
        return "panic: %s @ %s" % (res.get("panic"), res.get("panic_loc") or "?")
    return None


def is_machinery(res):
    """A panic raised by the driver itself (bad scenario), not by the crate."""
    p = (res or {}).get("panic")
    return isinstance(p, str) and (p.startswith("driver:") or p.startswith("json:"))


# ==============================================================================================
# part 2: lowering (high-level scenario -> driver scenario) and checkers
# ==============================================================================================
class Machinery(Exception):
    pass


def _mode_fields(sc):
    return {k: sc[k] for k in ("mode", "key_hex", "context") if k in sc}


def tree_recursive(off, ln, leaf_max):
    if ln <= leaf_max:
        return {"off": off, "len": ln}
    ll = b3spec.left_len(ln)
    return {"l": tree_recursive(off, ll, leaf_max), "r": tree_recursive(off + ll, ln - ll, leaf_max)}


def tree_groups(total, group_bytes):
    """fixed power-of-two groups, merged layer by layer (odd one moves up)"""
    layer = []
    off = 0
    while off < total:
        t = min(group_bytes, total - off)
        layer.append({"off": off, "len": t})
        off += t
    while len(layer) > 1:
        nxt = [{"l": layer[2 * i], "r": layer[2 * i + 1]} for i in range(len(layer) // 2)]
        if len(layer) % 2:
            nxt.append(layer[-1])
        layer = nxt
    return layer[0]


def tree_leaves(t):
    if "l" in t:
        return tree_leaves(t["l"]) + tree_leaves(t["r"])
    return [t]


def lower(sc):
    """the scenario as the driver understands it"""
    k = sc["kind"]
    if k == "incremental":
        n = sc["input"]["len"]
        cuts = [s for s in sc.get("splits", []) if 0 <= s <= n]
        pts = [0] + cuts + [n]
        ops = []
        for a, b in zip(pts, pts[1:]):
            op = {"op": "update", "a": a, "b": b}
            if sc.get("via"):
                op["via"] = sc["via"]
            ops.append(op)
            if sc.get("finalize_between"):
                ops.append({"op": "pure_check", "n": 70})
        ops.append({"op": "finalize"})
        x = sc.get("xof")
        if x:
            ops.append({"op": "finalize_xof", "seek": x.get("seek", 0), "n": x["len"]})
        d = {"kind": "ops", "input": sc["input"], "ops": ops}
        d.update(_mode_fields(sc))
        return d
    if k == "reset":
        ops = list(sc["history"]) + [{"op": sc.get("reset_op", "reset")}] + list(sc["then"])
        d = {"kind": "ops", "input": sc["input"], "ops": ops, "fresh_from": len(sc["history"]) + 1}
        d.update(_mode_fields(sc))
        return d
    if k == "hazmat":
        d = {"kind": "hazmat_tree", "input": sc["input"], "base": sc.get("base", 0), "piece": sc.get("piece", 0),
             "top": sc.get("top", "root"), "seek": sc.get("seek", 0), "n": sc.get("n", 0)}
        d.update(_mode_fields(sc))
        dec = sc.get("decomposition", "recursive")
        if dec == "recursive":
            d["decomposition"] = "recursive"
            d["leaf_max"] = sc.get("leaf_max", 1024)
        elif isinstance(dec, str) and dec.startswith("groups("):
            d["tree"] = tree_groups(sc["input"]["len"], int(dec[7:-1]) * 1024)
        else:
            d["tree"] = dec["tree"]
        return d
    if k == "traits":
        d = {"kind": "ops", "input": sc["input"], "ops": sc["ops"]}
        if sc.get("keyinit"):
            d["keyinit"] = True
        d.update(_mode_fields(sc))
        return d
    return sc   # oneshot, ops, xof, hazmat_fn, hex, guts, reader, platform, info: as is


class HasherModel:
    """What the documentation of Hasher / hazmat::HasherExt promises, over the oracle."""

    def __init__(self, sc, data):
        self.sc, self.data = sc, data
        self.off = 0
        self.buf = b""

    def step(self, op):
        """-> ("panic", why) or ("ok", {field: expected})"""
        o = op["op"]
        if o == "update":
            d = self.data[op["a"]:op["b"]]
            mx = max_subtree_len(self.off)
            if mx is not None and len(self.buf) + len(d) > mx:
                return "panic", "update beyond max_subtree_len(offset)"
            self.buf += d
            e = {"count": len(self.buf)}
            if op.get("via") == "write":
                e["written"] = len(d)
            if op.get("via") == "reader":
                e["reader_ok"] = True
            if op.get("via") in ("mmap", "mmap_rayon"):
                e["mmap_ok"] = True
            return "ok", e
        if o == "count":
            return "ok", {"count": len(self.buf)}
        if o in ("finalize", "t_fixed", "t_fixed_reset", "t_mac_finalize"):
            if self.off != 0:
                return "panic", "finalize after set_input_offset(nonzero)"
            e = {"hex": spec_out(self.sc, self.buf).hex()}
            if o == "t_fixed_reset":
                self.buf = b""
            if o.startswith("t_"):
                e["count"] = len(self.buf)
            return "ok", e
        if o in ("finalize_xof", "t_xof", "t_xof_reset", "t_xof_into", "t_xof_reset_into"):
            if self.off != 0:
                return "panic", "finalize_xof after set_input_offset(nonzero)"
            sk = op.get("seek", 0)
            e = {"hex": spec_out(self.sc, self.buf, op["n"], sk).hex()}
            if o == "finalize_xof":
                e["pos"] = sk + op["n"]
            if o in ("t_xof_reset", "t_xof_reset_into"):
                self.buf = b""
            if o.startswith("t_"):
                e["count"] = len(self.buf)
            return "ok", e
        if o == "finalize_non_root":
            if not self.buf:
                return "panic", "finalize_non_root on an empty subtree"
            return "ok", {"hex": spec_subtree(self.sc, self.buf, self.off // 1024).hex()}
        if o == "set_input_offset":
            if self.buf:
                return "panic", "set_input_offset after input"
            if op["v"] % 1024:
                return "panic", "set_input_offset not on a chunk boundary"
            self.off = op["v"]
            return "ok", {}
        if o in ("reset", "t_reset"):
            # "functionally the same as overwriting the Hasher with a new one"
            self.buf = b""
            self.off = 0
            return "ok", ({"count": 0} if o == "t_reset" else {})
        if o == "clone_from_other":
            # `other.clone_from(&h)` into a hasher with another mode, offset and history, then continue on `other`: an
            # equal, independent copy (std: a.clone_from(&b) is a = b.clone()); seeded change C09-15
            return "ok", {"count": len(self.buf)}
        if o == "pure_check":
            if self.off != 0:
                return "panic", "finalize after set_input_offset(nonzero)"
            n = max(op.get("n", 32), 32)
            return "ok", {"hex": spec_out(self.sc, self.buf).hex(), "xof_hex": spec_out(self.sc, self.buf, n).hex(),
                          "stable": True, "count": len(self.buf)}
        if o == "debug_fmt":
            return "ok", {}
        raise Machinery("model: unknown op " + o)


def _check_trace(sc, data, ops, start, trace, at, res, label):
    model = HasherModel(sc, data)
    for j, op in enumerate(ops[start:]):
        i = start + j
        st, e = model.step(op)
        name = "%s[%d] %s" % (label, i, op["op"])
        if st == "panic":
            # documented panic: it must happen here
            if j < len(trace):
                return mism(name, "returned normally: " + _short(json.dumps(trace[j])), "panic (%s)" % e)
            if res.get("panic") is not None and at == i:
                return None
            return mism(name, panic_text(res) or "stopped", "panic (%s) at this operation" % e)
        if j >= len(trace):
            return mism(name, panic_text(res) or "no observation", e or "returns normally")
        obs = trace[j]
        if obs.get("unsupported"):
            return "skip"
        for f, v in e.items():
            if obs.get(f) != v:
                return mism(name + "." + f, _short(obs.get(f)), _short(v))
    return None


def check_ops(sc, low, res):
    data = gen_input(low.get("input"))
    if res.get("unsupported"):
        return "skip"
    r = _check_trace(sc, data, low["ops"], 0, res.get("trace", []), res.get("at"), res, "ops")
    if r is not None:
        return r
    if "fresh_from" in low and (res.get("panic") is None or "fresh_trace" in res or res.get("fresh_at") is not None):
        r = _check_trace(sc, data, low["ops"], low["fresh_from"], res.get("fresh_trace", []), res.get("fresh_at"),
                         res, "fresh")
        if r is not None:
            return r
    return None


def check_xof(sc, low, res):
    data = gen_input(low.get("input"))
    trace = res.get("trace", [])
    pos = 0
    for i, op in enumerate(low["ops"]):
        o = op["op"]
        e = {}
        if o in ("fill", "read", "xofread"):
            n = op["n"]
            e["hex"] = spec_out(sc, data, n, pos).hex()
            if o == "read":
                e["n"] = n
            pos += n
        elif o == "seek_relative":
            t = pos + op["v"]
            if t < 0:
                e["err"] = "InvalidInput"
            else:
                e["err"] = None
                pos = min(t, U64)
            e["pos"] = pos
        elif o == "seek":
            kind, v = op["kind"], op["v"]
            t = v if kind == "start" else pos + v if kind == "current" else None
            if t is None or t < 0:
                e["err"] = "InvalidInput"
                e["ok"] = None
            else:
                t = min(t, U64)
                e["ok"] = t
                e["err"] = None
                pos = t
        elif o == "set":
            pos = op["v"]
        elif o == "stream_position":
            e["ok"] = pos
        elif o == "clone":
            e["same"] = True
        e["pos"] = pos
        name = "ops[%d] %s" % (i, o)
        if i >= len(trace):
            return mism(name, panic_text(res) or "no observation", {k: _short(v) for k, v in e.items()})
        obs = trace[i]
        if obs.get("unsupported"):
            return "skip"
        for f, v in e.items():
            if obs.get(f) != v:
                return mism(name + "." + f, _short(obs.get(f)), _short(v), op=op)
    return None


def check_hazmat_tree(sc, low, res):
    data = gen_input(low.get("input"))
    base = low.get("base", 0)
    if low.get("decomposition") == "recursive":
        tree = tree_recursive(0, len(data), max(low.get("leaf_max", 1024), 1024))
    else:
        tree = low["tree"]
    exp_leaves = tree_leaves(tree)
    got = res.get("leaves", [])
    for i, lf in enumerate(exp_leaves):
        cv = spec_subtree(sc, data[lf["off"]:lf["off"] + lf["len"]], (base + lf["off"]) // 1024).hex()
        e = {"off": lf["off"], "len": lf["len"], "count": lf["len"], "cv": cv}
        if i >= len(got):
            return mism("leaves[%d]" % i, panic_text(res) or "missing", e)
        for f, v in e.items():
            if got[i].get(f) != v:
                return mism("leaves[%d].%s" % (i, f), got[i].get(f), v, leaf=lf)
    if len(got) > len(exp_leaves):
        return mism("leaves", "%d leaves" % len(got), "%d leaves" % len(exp_leaves))
    if "l" not in tree:
        want = spec_subtree(sc, data, base // 1024).hex()
    else:
        top = low.get("top", "root")
        if top == "root":
            want = spec_out(sc, data).hex()
        elif top == "root_xof":
            want = spec_out(sc, data, low.get("n", 0), low.get("seek", 0)).hex()
        else:
            want = spec_subtree(sc, data, base // 1024).hex()
    if res.get("out_hex") != want:
        return mism("out_hex", res.get("out_hex") if res.get("out_hex") is not None else panic_text(res), want)
    return None


def _hash_many_expected(data, n, key_words, counter, inc, flags, fs, fe):
    out = b""
    for i in range(len(data) // n):
        inp = data[i * n:(i + 1) * n]
        t = (counter + i) & U64 if inc else counter
        h = tuple(key_words)
        nb = n // 64
        for b in range(nb):
            f = flags | (fs if b == 0 else 0) | (fe if b == nb - 1 else 0)
            h = tuple(b3spec.compress(h, b3spec._words(inp[b * 64:(b + 1) * 64]), t, 64, f)[:8])
        out += b3spec._cv_bytes(h)
    return out


def _sim_reader(pattern, start, total, bufsize):
    """bytes delivered when update_reader returns (first hard error or EOF)"""
    pos, i = start, 0
    if not pattern:
        return total, False
    while pos < total:
        st = pattern[i % len(pattern)]
        i += 1
        if st == "error":
            return pos, True
        if st == "interrupt":
            continue
        pos += min(st, bufsize, total - pos)
    return pos, False


def expected_simple(sc, res):
    """{field: expected} for the kinds whose expectation is a flat dict"""
    k = sc["kind"]
    if k == "oneshot":
        return {"out_hex": spec_out(sc, gen_input(sc["input"])).hex()}
    if k == "hazmat_fn":
        f = sc["fn"]
        if f == "left_subtree_len":
            return {"ret": b3spec.left_len(sc["v"])}
        if f == "max_subtree_len":
            return {"ret": max_subtree_len(sc["v"])}
        if f == "hash_derive_key_context":
            return {"out_hex": b3spec.context_key(sc["context"]).hex()}
    if k == "mmap_special":
        return {"same": True}
    if k == "zeroize_probe":
        return {"residue": False}
    if k == "debug_pair":
        return {"debug_same": True}
    if k == "hex":
        op = sc["op"]
        if op == "from_hex":
            raw = bytes.fromhex(sc["bytes_hex"]) if "bytes_hex" in sc else sc["s"].encode("utf-8")
            valid = len(raw) == 64 and all(c in b"0123456789abcdefABCDEF" for c in raw)
            e = {"accepted": valid}
            if valid:
                e["out_hex"] = bytes.fromhex(raw.decode()).hex()
            try:
                raw.decode("utf-8")
                e["from_str_same"] = True
            except UnicodeDecodeError:
                pass
            return e
        if op == "roundtrip":
            h = sc["bytes_hex"].lower()
            return {"to_hex": h, "display": h, "display_specs_same": True, "debug": 'Hash("%s")' % h, "as_bytes": h, "as_slice": h,
                    "into_array": h, "back_same": True, "upper_same": True, "from_same": True}
        if op == "serde":
            if res and res.get("skipped") is True:
                return {}
            b = bytes.fromhex(sc["bytes_hex"])
            ok = len(b) == 32
            e = {"json_accepted": ok}
            # (ciborium does not notice trailing items of an over-long array or byte string - a property of that
            # library, not of this crate: only inputs of at most 32 bytes are judged through it)
            if len(b) <= 32:
                e["cbor_accepted"] = ok
                e["bytes_accepted"] = ok
            if ok:
                e.update({"json_out_hex": b.hex(), "cbor_out_hex": b.hex(), "bytes_out_hex": b.hex(),
                          "to_json": "[" + ",".join(str(x) for x in b) + "]"})
            return e
        if op == "from_slice":
            b = bytes.fromhex(sc["bytes_hex"])
            e = {"accepted": len(b) == 32}
            if len(b) == 32:
                e["out_hex"] = b.hex()
            return e
        if op == "eq":
            a, b = bytes.fromhex(sc["a_hex"]), bytes.fromhex(sc["b_hex"])
            e = {"eq_slice": a == b}
            if len(b) == 32:
                e.update({"eq_array": a == b, "eq_hash": a == b, "ne_hash": a != b})
            return e
    if k == "guts":
        op = sc.get("op", "chunk")
        if op == "chunk":
            data = gen_input(sc["input"])
            if sc.get("is_root"):
                out = b3spec.root_output(b3spec.chunk_node(data, sc.get("chunk_counter", 0), b3spec.IV, 0))
            else:
                out = b3spec.chunk_cv(data, sc.get("chunk_counter", 0), b3spec.IV, 0)
            return {"lens": [0] + list(sc.get("splits", [])) + [len(data)], "out_hex": out.hex(), "stable": True}
        if op == "parent_cv":
            l, r = bytes.fromhex(sc["left_hex"]), bytes.fromhex(sc["right_hex"])
            node = b3spec.parent_node(l, r, b3spec.IV, 0)
            return {"out_hex": (b3spec.root_output(node) if sc.get("is_root") else b3spec.node_cv(node)).hex()}
        if op == "consts":
            return {"block_len": 64, "chunk_len": 1024, "out_len": 32, "key_len": 32}
    if k == "platform":
        if res.get("unsupported"):
            return None
        cv = b3spec._cv_words(bytes.fromhex(sc["cv_hex"]))
        f = sc["fn"]
        if f in ("compress_in_place", "compress_xof"):
            out = b3spec.compress(cv, b3spec._words(bytes.fromhex(sc["block_hex"])), sc.get("counter", 0),
                                  sc.get("block_len", 64), sc.get("flags", 0))
            if f == "compress_in_place":
                return {"out_hex": b3spec._cv_bytes(out[:8]).hex()}
            return {"out_hex": b"".join(w.to_bytes(4, "little") for w in out).hex()}
        if f == "xof_many":
            m = b3spec._words(bytes.fromhex(sc["block_hex"]))
            out = b""
            for i in range(sc["blocks"]):
                o = b3spec.compress(cv, m, (sc.get("counter", 0) + i) & U64, sc.get("block_len", 64), sc.get("flags", 0))
                out += b"".join(w.to_bytes(4, "little") for w in o)
            return {"out_hex": out.hex(), "guard_intact": True}
        if f == "hash_many":
            data = gen_input(sc["input"])
            out = _hash_many_expected(data, sc["n"], cv, sc.get("counter", 0), sc.get("increment", False),
                                      sc.get("flags", 0), sc.get("flags_start", 0), sc.get("flags_end", 0))
            return {"out_hex": out.hex(), "guard_intact": True}
        if f == "words":
            b32, b64 = bytes.fromhex(sc["cv_hex"]), bytes.fromhex(sc["block_hex"])
            return {"w32": list(b3spec._cv_words(b32)), "w64": list(b3spec._words(b64)), "b32": b32.hex(), "b64": b64.hex()}
    if k == "info":
        return {}
    raise Machinery("no expectation for kind %s" % k)


def check_reader(sc, low, res):
    data = gen_input(sc["input"])
    rounds = res.get("rounds", [])
    want_rounds = 2 if sc.get("resume") else 1
    pat = sc.get("read_pattern", [])
    start = sc.get("pre_update", 0)
    for i in range(want_rounds):
        if i >= len(rounds):
            return mism("rounds[%d]" % i, panic_text(res) or "missing", "update_reader returns")
        o = rounds[i]
        bufsize = max(o.get("max_buf", 0), 1)
        if i == 0:
            dl, err = _sim_reader(pat, start, len(data), bufsize)
        else:
            dl, err = len(data), False
        e = {"result": "err:Other" if err else "ok", "delivered": dl, "count": dl,
             "hex": spec_out(sc, data[:dl]).hex()}
        for f, v in e.items():
            if o.get(f) != v:
                return mism("rounds[%d].%s" % (i, f), o.get(f), v)
    return None


def check(sc, low, res):
    """None = agrees; "skip" = not applicable in this build; dict = disagreement"""
    if res is None:
        return "skip"
    if is_machinery(res):
        raise Machinery(res.get("panic"))
    k = low["kind"]
    if sc.get("expect_panic"):
        if res.get("panic") is not None:
            return None
        return mism("panic", panic_text(res) or "returned normally", "panic: " + str(sc["expect_panic"]))
    if k == "ops":
        return check_ops(sc, low, res)
    if k == "xof":
        return check_xof(sc, low, res)
    if k == "hazmat_tree":
        return check_hazmat_tree(sc, low, res)
    if k == "reader":
        return check_reader(sc, low, res)
    e = expected_simple(sc, res)
    if e is None:
        return "skip"
    for f, v in e.items():
        if f not in res:
            return mism(f, panic_text(res) or "<missing>", _short(v))
        if res[f] != v:
            return mism(f, _short(res[f]), _short(v))
    pt = panic_text(res)
    if pt:
        return mism("panic", pt, "no panic")
    return None


# ==============================================================================================
# part 3: scenario families
# ==============================================================================================
KEY_TV = b"whats the Elvish word for friend".hex()
CTX_TV = "BLAKE3 2019-12-27 16:29:52 test vectors context"
MODES = [{"mode": "hash"}, {"mode": "keyed", "key_hex": KEY_TV}, {"mode": "derive", "context": CTX_TV}]
K = 1024

BOUNDARY = sorted(set(
    [0, 1, 2, 3, 31, 32, 33, 63, 64, 65, 127, 128, 129, 191, 192, 193, 255, 256, 257, 511, 512, 513, 959, 960, 961,
     1023, 1024, 1025, 1087, 1088, 1089, 1536, 2047, 2048, 2049, 2112, 2113, 3071, 3072, 3073, 4095, 4096, 4097,
     5119, 5120, 5121, 6143, 6144, 6145, 7167, 7168, 7169, 8191, 8192, 8193, 9216, 9217, 10241, 12287, 12288, 12289,
     15360, 15361, 16383, 16384, 16385, 17408, 17409, 18433, 24576, 24577, 31744, 31745, 32767, 32768, 32769, 33793,
     40961, 49152, 49153, 57345, 65535, 65536, 65537, 66560, 66561, 69633]))


def _inp(n, pattern="inc251", seed=0):
    d = {"pattern": pattern, "len": n}
    if pattern == "xorshift":
        d["seed"] = seed
    return d


def _with(d, m):
    d = dict(d)
    d.update(m)
    return d


def _rand_key(rng):
    return bytes(rng.randrange(256) for _ in range(32)).hex()


CONTEXTS = ["", "a", "café \U0001F600 中文", "x" * 64, "y" * 65, "ctx " * 275, "z" * 2049]


def fam_oneshot(rng):
    out = []
    for n in BOUNDARY:
        for m in MODES:
            out.append(_with({"kind": "oneshot", "input": _inp(n)}, m))
    sd = rng.randrange(1 << 30)
    for n in BOUNDARY[::3]:
        out.append({"kind": "oneshot", "mode": "hash", "input": _inp(n, "xorshift", sd)})
    for n in (0, 1, 65, 1025, 5121):
        for kh in ("00" * 32, "ff" * 32, _rand_key(rng)):
            out.append({"kind": "oneshot", "mode": "keyed", "key_hex": kh, "input": _inp(n)})
        for c in CONTEXTS:
            out.append({"kind": "oneshot", "mode": "derive", "context": c, "input": _inp(n)})
    for n in (1, 1024, 4096, 17409):
        out.append({"kind": "oneshot", "mode": "hash", "input": _inp(n, "zero")})
    for _ in range(24):
        n = rng.randrange(70000)
        out.append(_with({"kind": "oneshot", "input": _inp(n, "xorshift", sd)}, MODES[rng.randrange(3)]))
    return out


INC_LENS = [1, 64, 65, 128, 1023, 1024, 1025, 1088, 2048, 2049, 3072, 3073, 4096, 4097, 5121, 7169, 8192, 8193,
            16384, 16385, 17409, 31745, 32769, 65537, 66561]
INC_SPLITS = [1, 63, 64, 65, 127, 128, 1023, 1024, 1025, 2047, 2048, 2049, 3072, 4096, 4097, 8192, 16384, 16385]


def fam_incremental(rng):
    out = []
    mi = 0
    for n in INC_LENS:
        def add(splits, **kw):
            nonlocal mi
            d = _with({"kind": "incremental", "input": _inp(n), "splits": splits}, MODES[mi % 3])
            mi += 1
            d.update(kw)
            out.append(d)
        add([])
        for s in INC_SPLITS:
            if s < n:
                add([s])
        for p in (1, 63, 64, 65, 1023, 1024, 1025, 3000):
            if p < n and (p > 1 or n <= 2100):
                add(list(range(p, n, p)))
        for _ in range(2):
            k = rng.randrange(1, 7)
            add(sorted(rng.randrange(n + 1) for _ in range(k)))
        add(list(range(1024, n, 1024)), finalize_between=True, xof={"seek": 0, "len": 131})
        add(sorted(rng.randrange(n + 1) for _ in range(3)), finalize_between=True, xof={"seek": 63, "len": 131})
        add([n // 2], via="write", xof={"seek": 64, "len": 65})
        add([n // 3], via="reader", xof={"seek": 1000, "len": 100})
        # an empty update in the middle and at the ends
        add([0, n // 2, n // 2, n])
    return out


def fam_xof(rng):
    out = []
    big = [(1 << 32) * 64 - 65, (1 << 32) * 64 - 1, (1 << 32) * 64, (1 << 32) * 64 + 1, (1 << 63) - 1, 1 << 63,
           U64 - 400, U64 - 200, U64 - 64, U64 - 63]
    starts = [0, 1, 62, 63, 64, 65, 127, 128, 129, 1023, 1024] + big
    inputs = [0, 1, 64, 1024, 1025, 2049, 5000]
    mi = 0

    def add(n, ops, **kw):
        nonlocal mi
        d = _with({"kind": "xof", "input": _inp(n), "ops": ops}, MODES[mi % 3])
        mi += 1
        d.update(kw)
        out.append(d)

    for n in inputs:
        add(n, [{"op": "fill", "n": k} for k in (1, 2, 3, 31, 32, 33, 63, 64, 65, 127, 128, 129, 1, 1000, 1024, 4097)])
    for n in (1, 1025):
        add(n, [{"op": "fill", "n": 1} for _ in range(135)])
        add(n, [{"op": "set", "v": 60}] + [{"op": "fill", "n": 1} for _ in range(10)])
    for p in starts:
        ops = [{"op": "set", "v": p}]
        pos = p
        for k in (1, 63, 64, 65, 130):
            if pos + k <= U64:
                ops.append({"op": "fill", "n": k})
                pos += k
        add(3, ops)
        ops = [{"op": "seek", "kind": "start", "v": p}, {"op": "stream_position"}]
        if p + 64 <= U64:
            ops.append({"op": "read", "n": 64})
        add(1025, ops)
    # equal-sized reads in a row (subkey loops): sizes that divide / straddle the 64-byte block, so that reads of
    # every such size start at block boundaries with a non-zero block counter
    for k in (8, 16, 24, 32, 40, 48, 56, 64, 96, 128, 160, 192):
        add(1025, [{"op": "fill", "n": k} for _ in range(max(6, 512 // k))])
        add(7, [{"op": "read", "n": k} for _ in range(max(6, 512 // k))])
    for p in (64, 128, 4096, 64 * ((1 << 32) - 1), 64 * (1 << 32)):
        for k in (1, 8, 16, 31, 32, 33, 48, 64):
            add(5, [{"op": "set", "v": p}, {"op": "fill", "n": k}, {"op": "fill", "n": k}, {"op": "set", "v": p},
                    {"op": "read", "n": k}, {"op": "fill", "n": 64 - (k % 64)}, {"op": "fill", "n": k}])
    for o in (1, 32, 40, 63, 100):
        add(9, [{"op": "set", "v": o}, {"op": "fill", "n": 128 - (o % 64)}, {"op": "fill", "n": 10}, {"op": "set", "v": 64 * 5 + o},
                {"op": "fill", "n": 64 - (o % 64)}, {"op": "fill", "n": 7}, {"op": "set", "v": o}, {"op": "fill", "n": 192 - (o % 64)},
                {"op": "fill", "n": 3}])
    for k in (1, 63, 64, 100):
        add(9, [{"op": "set", "v": U64 - k}, {"op": "fill", "n": k}])
        add(9, [{"op": "set", "v": U64 - k}, {"op": "xofread", "n": k}])
        add(9, [{"op": "set", "v": U64 - k - 5}, {"op": "read", "n": k}, {"op": "xofread", "n": 5}])
    # seeks
    add(10, [{"op": "fill", "n": 100}, {"op": "seek", "kind": "current", "v": -36}, {"op": "fill", "n": 10},
             {"op": "seek", "kind": "current", "v": -74}, {"op": "fill", "n": 70},
             {"op": "seek", "kind": "current", "v": -71}, {"op": "seek", "kind": "current", "v": 0},
             {"op": "seek", "kind": "current", "v": 1 << 40}, {"op": "fill", "n": 65},
             {"op": "seek", "kind": "current", "v": -(1 << 63)}, {"op": "seek", "kind": "end", "v": 0},
             {"op": "seek", "kind": "end", "v": -5}, {"op": "stream_position"}, {"op": "fill", "n": 3}])
    for v in (1, 63, 64, 65, 128, 1000):
        add(100, [{"op": "seek", "kind": "current", "v": v}, {"op": "fill", "n": 66},
                  {"op": "seek", "kind": "current", "v": -v}, {"op": "fill", "n": 66},
                  {"op": "seek", "kind": "current", "v": -66 - 66}, {"op": "fill", "n": 5}])
    add(33, [{"op": "fill", "n": 100}, {"op": "seek_relative", "v": -101}, {"op": "stream_position"}, {"op": "fill", "n": 3},
             {"op": "seek_relative", "v": -103}, {"op": "seek_relative", "v": 25}, {"op": "fill", "n": 70},
             {"op": "seek_relative", "v": -(1 << 63)}, {"op": "seek_relative", "v": (1 << 63) - 1},
             {"op": "seek_relative", "v": (1 << 63) - 1}, {"op": "seek_relative", "v": 1000}, {"op": "stream_position"},
             {"op": "seek_relative", "v": -64}, {"op": "fill", "n": 10}])
    add(64, [{"op": "read", "n": 0}, {"op": "fill", "n": 0}, {"op": "read", "n": 7}, {"op": "clone"},
             {"op": "read", "n": 64}, {"op": "clone"}, {"op": "fill", "n": 1}])
    for n in (1025, 2049, 5000):
        add(n, [{"op": "fill", "n": 32}, {"op": "set", "v": 64}, {"op": "fill", "n": 64}, {"op": "set", "v": 1},
                {"op": "fill", "n": 130}], via="merge_root_xof", left=b3spec.left_len(n))
    for _ in range(12):
        ops = []
        pos = 0
        for _ in range(12):
            c = rng.randrange(4)
            if c == 0:
                pos = rng.choice(starts) if rng.random() < 0.5 else rng.randrange(1 << 20)
                ops.append({"op": "set", "v": pos})
            elif c == 1:
                v = rng.randrange(-200, 200)
                ops.append({"op": "seek", "kind": "current", "v": v})
                if pos + v >= 0:
                    pos = min(pos + v, U64)
            else:
                k = rng.choice([1, 5, 63, 64, 65, 100, 128, 200])
                if pos + k <= U64:
                    ops.append({"op": "fill" if c == 2 else "read", "n": k})
                    pos += k
        add(rng.choice(inputs), ops)
    return out


def _reset_then(k):
    t = [{"op": "count"}]
    if k:
        t.append({"op": "update", "a": 0, "b": k})
    return t + [{"op": "count"}, {"op": "finalize"}, {"op": "finalize_xof", "seek": 0, "n": 100}]


def fam_reset(rng):
    out = []
    hist_plain = [[], [{"op": "update", "a": 0, "b": 1}], [{"op": "update", "a": 0, "b": 1024}],
                  [{"op": "update", "a": 0, "b": 1025}],
                  [{"op": "update", "a": 0, "b": 3000}, {"op": "finalize"}],
                  [{"op": "update", "a": 0, "b": 2048}, {"op": "update", "a": 2048, "b": 5000}],
                  [{"op": "update", "a": 0, "b": 5000}, {"op": "finalize_xof", "seek": 0, "n": 64}],
                  [{"op": "update", "a": 0, "b": 17 * K + 1}]]
    hist_off = [[{"op": "set_input_offset", "v": 1024}],
                [{"op": "set_input_offset", "v": 1024}, {"op": "update", "a": 0, "b": 500}],
                [{"op": "set_input_offset", "v": 2048}, {"op": "update", "a": 0, "b": 2048}, {"op": "finalize_non_root"}],
                [{"op": "set_input_offset", "v": 1 << 63}],
                [{"op": "set_input_offset", "v": 0}, {"op": "update", "a": 0, "b": 100}]]
    mi = 0
    # histories that use set_input_offset come last and are tagged (finding: reset() keeps the
    # offset, so count() underflows); once fixed in the tree they simply agree with the model
    for hists in (hist_plain, hist_off):
        for h in hists:
            for k in (0, 1, 1025, 4097):
                out.append(_with({"kind": "reset", "input": _inp(18 * K), "history": h, "then": _reset_then(k)},
                                 MODES[mi % 3]))
                mi += 1
    return out


def fam_hazmat_tree(rng):
    out = []
    mi = 0

    def add(ln, **kw):
        nonlocal mi
        d = _with({"kind": "hazmat", "input": _inp(ln)}, MODES[mi % 3])
        mi += 1
        d.update(kw)
        out.append(d)

    for n in (1025, 2048, 2049, 3072, 3073, 4097, 5000, 8192, 8193, 16385, 31745, 66561):
        add(n, decomposition="recursive", leaf_max=1024, top="root")
        add(n, decomposition="recursive", leaf_max=4096, top="root_xof", seek=63, n=130)
        add(n, decomposition="recursive", leaf_max=2048, top="root", piece=1000)
        if n <= 3073:
            add(n, decomposition="recursive", leaf_max=1024, top="root", piece=1)
        for k in (1, 2, 4, 8, 16, 32):
            if k * K < n:
                add(n, decomposition="groups(%d)" % k, top="root")
        add(n, decomposition={"tree": tree_recursive(0, n, 1024)}, top="non_root")
    for n in (1, 64, 1024, 1025, 5000, 16385):
        add(n, decomposition={"tree": {"off": 0, "len": n}})
    # subtrees that do not start at chunk 0 (non-root)
    for base, n in ((4096, 4096), (4096, 3000), (2048, 2048), (1024, 1024), (1024, 1), (1 << 63, 8192),
                    (1 << 63, 8191), (((1 << 54) - 8) * K, 8192), (((1 << 54) - 8) * K, 7000),
                    (((1 << 54) - 1) * K, 1024), (((1 << 54) - 1) * K, 1000), ((1 << 32) * K, 16 * K),
                    (((1 << 32) - 16) * K, 16 * K)):
        add(n, decomposition={"tree": {"off": 0, "len": n}}, base=base, top="non_root")
        if n > 1024:
            add(n, decomposition={"tree": tree_recursive(0, n, 1024)}, base=base, top="non_root")
    return out


def fam_hazmat_fn(rng):
    out = []
    for v in (0, 1024, 2048, 3072, 4096, 6 * K, 1 << 20, 3 << 20, 1 << 63, (1 << 63) + 1024, U64 - 1023,
              ((1 << 54) - 8) * K, (1 << 32) * K):
        out.append({"kind": "hazmat_fn", "fn": "max_subtree_len", "v": v})
    for c in CONTEXTS + [CTX_TV]:
        out.append({"kind": "hazmat_fn", "fn": "hash_derive_key_context", "context": c})
    vs = [1025, 1026, 2047, 2048, 2049, 3072, 3073, 4096, 4097, 8192, 8193, 1 << 20, (1 << 20) + 1, (1 << 32) - 1,
          1 << 32, (1 << 32) + 1, 1 << 62, (1 << 62) + 1, (1 << 63) - 1, 1 << 63, (1 << 63) + 1, U64 - 1024, U64 - 1]
    vs += [rng.randrange(1025, 1 << rng.randrange(11, 64)) for _ in range(20)]
    for v in vs:
        out.append({"kind": "hazmat_fn", "fn": "left_subtree_len", "v": v})
    # last: u64::MAX overflowed `input_len + 1` in the pinned tree (fixed in the working tree since;
    # the scenario stays, tagged, so that it is only used for obligations about left_subtree_len)
    out.append({"kind": "hazmat_fn", "fn": "left_subtree_len", "v": U64})
    return out


def fam_hazmat_ops(rng):
    out = []
    ck = b3spec.context_key(CTX_TV).hex()
    seqs = [
        [{"op": "set_input_offset", "v": 0}, {"op": "update", "a": 0, "b": 3000}, {"op": "count"}, {"op": "finalize"}],
        [{"op": "set_input_offset", "v": 1024}, {"op": "update", "a": 0, "b": 1024}, {"op": "count"},
         {"op": "finalize_non_root"}],
        [{"op": "set_input_offset", "v": 2048}, {"op": "update", "a": 0, "b": 1000}, {"op": "update", "a": 1000, "b": 2048},
         {"op": "count"}, {"op": "finalize_non_root"}],
        [{"op": "set_input_offset", "v": 1 << 63}, {"op": "update", "a": 0, "b": 3000}, {"op": "count"},
         {"op": "finalize_non_root"}],
        [{"op": "update", "a": 0, "b": 5000}, {"op": "finalize_non_root"}, {"op": "finalize"}],
        # zero-length updates are no-ops, also as the first update of a positioned hasher and between pieces
        [{"op": "set_input_offset", "v": 2048}, {"op": "update", "a": 0, "b": 0}, {"op": "count"}, {"op": "update", "a": 0, "b": 1500},
         {"op": "update", "a": 1500, "b": 1500}, {"op": "update", "a": 1500, "b": 2048}, {"op": "update", "a": 0, "b": 0},
         {"op": "count"}, {"op": "finalize_non_root"}],
        [{"op": "set_input_offset", "v": 1 << 63}, {"op": "update", "a": 0, "b": 0}, {"op": "update", "a": 0, "b": 1024},
         {"op": "finalize_non_root"}],
        [{"op": "update", "a": 0, "b": 0}, {"op": "count"}, {"op": "update", "a": 0, "b": 1024}, {"op": "update", "a": 0, "b": 0},
         {"op": "update", "a": 1024, "b": 1025}, {"op": "count"}, {"op": "finalize"}],
        # a copy made by clone_from (into a hasher positioned elsewhere, with other input) continues identically
        [{"op": "set_input_offset", "v": 2048}, {"op": "update", "a": 0, "b": 1000}, {"op": "clone_from_other"},
         {"op": "update", "a": 1000, "b": 2048}, {"op": "count"}, {"op": "finalize_non_root"}],
        [{"op": "set_input_offset", "v": 1 << 63}, {"op": "update", "a": 0, "b": 3000}, {"op": "clone_from_other"}, {"op": "count"},
         {"op": "finalize_non_root"}],
        [{"op": "update", "a": 0, "b": 3000}, {"op": "clone_from_other"}, {"op": "update", "a": 3000, "b": 5000}, {"op": "count"},
         {"op": "finalize"}],
        # documented panics
        [{"op": "set_input_offset", "v": 1}],
        [{"op": "update", "a": 0, "b": 1}, {"op": "set_input_offset", "v": 0}],
        [{"op": "set_input_offset", "v": 1024}, {"op": "update", "a": 0, "b": 1025}],
        [{"op": "set_input_offset", "v": 1024}, {"op": "update", "a": 0, "b": 1024}, {"op": "update", "a": 0, "b": 1}],
        [{"op": "set_input_offset", "v": 1024}, {"op": "finalize"}],
        [{"op": "set_input_offset", "v": 1024}, {"op": "finalize_xof", "seek": 0, "n": 1}],
        [{"op": "finalize_non_root"}],
    ]
    for i, ops in enumerate(seqs):
        out.append(_with({"kind": "ops", "input": _inp(5000), "ops": ops}, MODES[i % 3]))
    for n in (0, 1, 1025, 5000):
        out.append({"kind": "ops", "mode": "derive_from_context_key", "key_hex": ck, "input": _inp(n),
                    "ops": [{"op": "update", "a": 0, "b": n}, {"op": "count"}, {"op": "finalize"}]})
        out.append({"kind": "oneshot", "mode": "derive", "context": CTX_TV, "input": _inp(n)})
    return out


def fam_hex(rng):
    out = []
    good = bytes(rng.randrange(256) for _ in range(32)).hex()
    for s in (good, good.upper(), good[:32] + good[32:].upper(), "0" * 64, "f" * 64, "F" * 64,
              "0123456789abcdefABCDEF" * 2 + "0123456789abcdefABCD"):
        out.append({"kind": "hex", "op": "from_hex", "s": s})
    for s in ("", "0", good[:63], good + "0", good + good, " " + good[:63], good[:63] + " ", "0x" + good[:62]):
        out.append({"kind": "hex", "op": "from_hex", "s": s})
    # 64 CHARACTERS (more bytes) with a character whose code point is a hex digit modulo 256 (`c as u8` truncation)
    for ch in ("\u0131", "\u0141", "\uff41", "\u0430", "\u0130", "\U00010030"):
        for pos in (0, 31, 63):
            out.append({"kind": "hex", "op": "from_hex", "s": good[:pos] + ch + good[pos + 1:]})
    # a valid 64-digit string with something around it (lenient parsers: trimming, radix prefixes, signs, separators)
    for pre, post in (("", "\n"), ("", "\r\n"), (" ", ""), ("", " "), ("\t", "\t"), ("\u00a0", ""), ("", "\u2028"), ("", "\u3000"),
                      ("0x", ""), ("0X", ""), ("#", ""), ("+", ""), ("-", ""), ("x", ""), ("", "h"), ("\"", "\""), ("", "\0"),
                      ("blake3:", ""), ("", ";")):
        out.append({"kind": "hex", "op": "from_hex", "s": pre + good + post})
        out.append({"kind": "hex", "op": "from_hex", "s": pre + good.upper() + post})
    for pos in (0, 1, 31, 32, 62, 63):
        for b in range(256):
            raw = bytearray(good.encode())
            raw[pos] = b
            out.append({"kind": "hex", "op": "from_hex", "bytes_hex": bytes(raw).hex()})
    for b in ("00" * 32, "ff" * 32, "0123456789abcdef" * 4, good, _rand_key(rng), "0f" * 32, "f0" * 32, "a9" * 32):
        out.append({"kind": "hex", "op": "roundtrip", "bytes_hex": b})
    for n in (0, 1, 31, 32, 33, 64):
        out.append({"kind": "hex", "op": "from_slice", "bytes_hex": (good * 3)[:2 * n]})
    a = bytearray(bytes.fromhex(good))
    out.append({"kind": "hex", "op": "eq", "a_hex": good, "b_hex": good})
    for pos in range(32):
        for bit in (0, 7):
            b = bytearray(a)
            b[pos] ^= 1 << bit
            out.append({"kind": "hex", "op": "eq", "a_hex": good, "b_hex": bytes(b).hex()})
    for b in ("", good[:62], good + "00", good[2:]):
        out.append({"kind": "hex", "op": "eq", "a_hex": good, "b_hex": b})
    # every single bit; differences that cancel or collide when the comparison folds words / lanes together
    for pos in range(32):
        for bit in range(1, 7):
            b = bytearray(a)
            b[pos] ^= 1 << bit
            out.append({"kind": "hex", "op": "eq", "a_hex": good, "b_hex": bytes(b).hex()})
    for stride in (1, 2, 4, 8, 16, 24):
        for pos in (0, 3, 7):
            if pos + stride < 32:
                for delta in (0x01, 0x80, 0xFF):
                    b = bytearray(a)
                    b[pos] ^= delta
                    b[pos + stride] ^= delta
                    out.append({"kind": "hex", "op": "eq", "a_hex": good, "b_hex": bytes(b).hex()})
    for rot in (1, 4, 8, 16, 24):
        out.append({"kind": "hex", "op": "eq", "a_hex": good, "b_hex": bytes(a[rot:] + a[:rot]).hex()})
    out.append({"kind": "hex", "op": "eq", "a_hex": good, "b_hex": bytes(reversed(a)).hex()})
    out.append({"kind": "hex", "op": "eq", "a_hex": "00" * 32, "b_hex": "00" * 31 + "01"})
    out.append({"kind": "hex", "op": "eq", "a_hex": "ff" * 32, "b_hex": "ff" * 32})
    out.append({"kind": "hex", "op": "eq", "a_hex": "00" * 32, "b_hex": "80" + "00" * 31})
    for n in (33, 40, 64):
        out.append({"kind": "hex", "op": "eq", "a_hex": good, "b_hex": (good * 2)[:2 * n]})
    return out


def fam_serde(rng):
    out = []
    good = bytes(rng.randrange(256) for _ in range(32))
    for n in (0, 1, 2, 3, 16, 31, 32, 33, 40, 64):
        out.append({"kind": "hex", "op": "serde", "bytes_hex": (good * 2)[:n].hex()})
    for b in (bytes(32), b"\xff" * 32, b"\xfe" * 32, bytes(range(32)), bytes(range(224, 256))):
        out.append({"kind": "hex", "op": "serde", "bytes_hex": b.hex()})
    return out


def fam_guts(rng):
    out = [{"kind": "guts", "op": "consts"}]
    for n in (0, 1, 63, 64, 65, 127, 128, 129, 1000, 1023, 1024):
        for c in (0, 1, (1 << 32) - 1, 1 << 32, 1 << 63, U64):
            out.append({"kind": "guts", "op": "chunk", "chunk_counter": c, "input": _inp(n), "splits": [], "is_root": False})
        for sp in ([1], [63], [64], [65], [63, 65], list(range(64, n, 64)), list(range(1, n, 1)) if n <= 129 else [n // 2]):
            sp = [s for s in sp if s <= n]
            out.append({"kind": "guts", "op": "chunk", "chunk_counter": 5, "input": _inp(n), "splits": sp, "is_root": False})
        out.append({"kind": "guts", "op": "chunk", "chunk_counter": 0, "input": _inp(n), "splits": [n // 2], "is_root": True})
    for _ in range(6):
        out.append({"kind": "guts", "op": "parent_cv", "left_hex": _rand_key(rng), "right_hex": _rand_key(rng),
                    "is_root": bool(rng.randrange(2))})
    # guts vs the whole tree: two chunks and a root parent
    return out


def fam_traits(rng):
    out = []
    for n in (9, 1025, 5000):
        a, b = n // 3, 2 * n // 3
        ops = [{"op": "update", "a": 0, "b": 3, "via": "digest"}, {"op": "t_reset"},
               {"op": "update", "a": 0, "b": a, "via": "digest"}, {"op": "update", "a": a, "b": b, "via": "digest"},
               {"op": "update", "a": b, "b": n, "via": "digest"}, {"op": "t_fixed"}, {"op": "t_xof", "n": 301},
               {"op": "finalize"}, {"op": "t_fixed_reset"}, {"op": "count"},
               {"op": "update", "a": 0, "b": n, "via": "digest"}, {"op": "t_fixed_reset"},
               {"op": "update", "a": 0, "b": a, "via": "digest"}, {"op": "t_xof_reset", "n": 301}, {"op": "count"},
               {"op": "update", "a": 0, "b": n}, {"op": "t_xof_reset", "n": 65}, {"op": "finalize"}]
        for m in MODES:
            out.append(_with({"kind": "traits", "input": _inp(n), "ops": ops}, m))
        out.append({"kind": "traits", "mode": "keyed", "key_hex": KEY_TV, "keyinit": True, "input": _inp(n),
                    "ops": [{"op": "update", "a": 0, "b": 3, "via": "digest"}, {"op": "t_reset"},
                            {"op": "update", "a": 0, "b": n, "via": "digest"}, {"op": "t_mac_finalize"},
                            {"op": "finalize"}]})
        out.append({"kind": "xof", "mode": "hash", "input": _inp(n),
                    "ops": [{"op": "xofread", "n": k} for k in (1, 63, 64, 65, 301)]})
        # provided methods of the digest traits, every output length around the hash length, then reuse
        for m in MODES:
            ops2 = []
            for k in (0, 1, 16, 31, 32, 33, 64, 65, 200):
                ops2 += [{"op": "update", "a": 0, "b": min(n, 3 + k), "via": "digest"}, {"op": "t_xof_into", "n": k},
                         {"op": "t_xof_reset_into", "n": k}, {"op": "count"},
                         {"op": "update", "a": 0, "b": a, "via": "digest"}, {"op": "t_xof_reset_into", "n": 32}, {"op": "count"}]
            out.append(_with({"kind": "traits", "input": _inp(n), "ops": ops2 + [{"op": "finalize"}]}, m))
        # a hasher positioned by hazmat::set_input_offset: the trait finalizers refuse it exactly like the inherent ones
        for fin in ({"op": "t_xof", "n": 64}, {"op": "t_xof_into", "n": 48}, {"op": "t_fixed"}, {"op": "t_xof_reset", "n": 64},
                    {"op": "t_fixed_reset"}, {"op": "t_xof_reset_into", "n": 32}):
            out.append(_with({"kind": "traits", "input": _inp(n),
                              "ops": [{"op": "set_input_offset", "v": 2048}, {"op": "update", "a": 0, "b": min(n, 1024), "via": "digest"}, fin]},
                             MODES[len(out) % 3]))
        # trait reads of every small size at block boundaries
        for k in (8, 16, 32, 48, 64):
            out.append({"kind": "xof", "mode": "keyed", "key_hex": KEY_TV, "input": _inp(n),
                        "ops": [{"op": "xofread", "n": k} for _ in range(max(4, 256 // k))] +
                               [{"op": "set", "v": 192}, {"op": "xofread", "n": 20}, {"op": "xofread", "n": 0}, {"op": "xofread", "n": 44}]})
    return out


def fam_reader(rng):
    out = []
    pats = [([], False), ([1000], False), ([63, 64, 65], False), ([1024], False), ([7], False),
            ([4096, "interrupt"], False), (["interrupt", 100], False), ([100, "interrupt", "interrupt", 1000], False),
            ([3000, "error"], True), (["error"], True), ([65536, "error", 1], True), ([1, 1, "interrupt", "error", 5000], True),
            ([1], False)]
    mi = 0
    for n in (0, 1, 1000, 1024, 5000, 65536, 65537, 70000):
        for pat, resume in pats:
            if pat == [1] and n > 5000:
                continue
            d = _with({"kind": "reader", "input": _inp(n), "read_pattern": pat, "resume": resume}, MODES[mi % 3])
            mi += 1
            out.append(d)
        if n > 600:
            out.append({"kind": "reader", "mode": "hash", "input": _inp(n), "read_pattern": [1000], "pre_update": 500})
    return out


def fam_zeroize(rng):
    out = []
    mi = 0
    for n, ups in ((100, [100]), (1500, [1500]), (9217, [1024] * 9 + [1]), (7 * 1024, [1024] * 7),
                   (16 * 1024 + 70, [4096, 4096, 8192 + 70]), (3 * 1024 + 65, [2048, 1024 + 65]), (65536, [65536]),
                   # splits that go through the buffered-block path: a partly filled buffer is topped up and input is left
                   (140, [100, 40]), (70, [1] * 70), (2198, [2098, 90, 10]), (200, [63, 2, 135]), (1100, [1000, 100]),
                   (130, [64, 1, 65])):
        for reset_after in (False, True):
            out.append(_with({"kind": "zeroize_probe", "input": _inp(n), "updates": ups, "reset_after": reset_after},
                             MODES[mi % 3]))
            mi += 1
    # readers that were read and re-positioned before the wipe (block boundaries and mid-block positions)
    for n in (3, 1500):
        for rops in ([("fill", 10), ("set", 0)], [("set", 70), ("set", 128)], [("fill", 70), ("set", 64)], [("fill", 6)],
                     [("set", 100), ("fill", 28)], [("fill", 64), ("fill", 64), ("set", 1)]):
            out.append(_with({"kind": "zeroize_probe", "input": _inp(n), "updates": [n], "reset_after": False,
                              "reader_ops": [{"op": a, "v": b} for a, b in rops]}, MODES[mi % 3]))
            mi += 1
    return out


def fam_debug(rng):
    """pairs of states of the same shape that differ only in secret data (C17, Debug side)"""
    out = []
    k1, k2 = bytes(range(32)).hex(), bytes(range(100, 132)).hex()
    pairs = [
        ({"mode": "hash"}, {"mode": "hash"}),
        ({"mode": "keyed", "key_hex": k1}, {"mode": "keyed", "key_hex": k2}),
        ({"mode": "derive", "context": "verif context one"}, {"mode": "derive", "context": "another context 2"}),
        ({"mode": "derive_from_context_key", "key_hex": k1}, {"mode": "derive_from_context_key", "key_hex": k2}),
    ]
    # special key values a predicate on the key could single out: the IV (either byte order), all zero, all ones
    iv_le = b3spec._cv_bytes(b3spec.IV).hex()
    iv_be = b"".join(w.to_bytes(4, "big") for w in b3spec.IV).hex()
    for special in (iv_le, iv_be, "00" * 32, "ff" * 32):
        pairs.append(({"mode": "keyed", "key_hex": special}, {"mode": "keyed", "key_hex": k2}))
        pairs.append(({"mode": "derive_from_context_key", "key_hex": special}, {"mode": "derive_from_context_key", "key_hex": k2}))
    for n, ups in ((0, []), (1, [1]), (64, [64]), (65, [64, 1]), (1024, [1024]), (1025, [1000, 25]), (5000, [2048, 2952]),
                   (70000, [70000])):
        for a, b in pairs:
            for read in (0, 1, 64, 100):
                if read and n not in (0, 1025):
                    continue
                sa = dict(a, input={"len": n, "pattern": "inc251"})
                sb = dict(b, input={"len": n, "pattern": "xorshift", "seed": 7 + n})
                out.append({"kind": "debug_pair", "a": sa, "b": sb, "updates": ups, "read": read,
                            "chunk_counter": (n * 7) % 1000})
    return out


def fam_rayon_mmap(rng):
    # files that open, seek and read but may refuse mmap (sysfs / procfs); skipped by the driver when absent
    out = [{"kind": "mmap_special", "path": p} for p in ("/sys/kernel/btf/vmlinux", "/proc/self/maps",
                                                          "/sys/kernel/notes")]
    # unseekable sources (named pipes fed by a writer thread) around the mapping threshold
    out += [{"kind": "mmap_special", "path": "fifo:%d" % n} for n in (0, 1, 16383, 16384, 16385, 70000)]
    # block devices (loop device over a scratch file: needs root + losetup, skipped by the driver otherwise)
    out += [{"kind": "mmap_special", "path": "loop:%d" % n} for n in (1048576, 65536)]
    mi = 0
    for n in (0, 1, 1025, 16383, 16384, 16385, 32769, 70001, 131073, 200000):
        for via in ("rayon", "mmap", "mmap_rayon"):
            for sp in ([], [1000] if n > 1000 else [0]):
                out.append(_with({"kind": "incremental", "input": _inp(n), "splits": sp, "via": via,
                                  "xof": {"seek": 0, "len": 70}}, MODES[mi % 3]))
                mi += 1
    # the same through a Rayon pool of one and of two threads (RAYON_NUM_THREADS is read when the global pool starts)
    base = [dict(s) for s in out if s.get("kind") == "incremental" and s["input"]["len"] in (1, 16384, 16385, 70001, 200000)]
    for nt in ("1", "2"):
        for s in base:
            out.append(dict(s, env={"RAYON_NUM_THREADS": nt}))
    # pool sizes that are not powers of two, with more than <threads> MiB in one call (a split size derived from the
    # pool size would stop being a power of two)
    # (the largest power of two <= n must exceed <threads> MiB)
    for nt, n in (("3", 4 * 1048576 + 1025), ("5", 8 * 1048576 + 1), ("6", 8 * 1048576 + 70000), ("7", 9 * 1048576)):
        for via in ("rayon", "mmap_rayon"):
            out.append(_with({"kind": "incremental", "input": _inp(n), "splits": [], "via": via,
                              "xof": {"seek": 0, "len": 70}, "env": {"RAYON_NUM_THREADS": nt}}, MODES[int(nt) % 3]))
    return out


def _rand_hex(rng, n):
    return bytes(rng.randrange(256) for _ in range(n)).hex()


def fam_platform(rng, platforms=("portable", "detect", "sse2", "sse41", "avx2")):
    out = []
    iv = b3spec._cv_bytes(b3spec.IV).hex()
    counters = [0, 1, (1 << 32) - 1, 1 << 32, (1 << 32) + 1, 0x0123456789ABCDEF, U64]
    for p in platforms:
        out.append({"kind": "platform", "platform": p, "fn": "words", "cv_hex": _rand_hex(rng, 32),
                    "block_hex": _rand_hex(rng, 64)})
        blk = _rand_hex(rng, 64)
        inc = bytes(range(64)).hex()
        for fn in ("compress_in_place", "compress_xof"):
            out.append({"kind": "platform", "platform": p, "fn": fn, "cv_hex": iv, "block_hex": inc, "block_len": 64,
                        "counter": 0, "flags": 0})
            for c in counters:
                out.append({"kind": "platform", "platform": p, "fn": fn, "cv_hex": _rand_hex(rng, 32), "block_hex": blk,
                            "block_len": 64, "counter": c, "flags": 11})
            for bl in (0, 1, 3, 63, 64):
                out.append({"kind": "platform", "platform": p, "fn": fn, "cv_hex": iv, "block_hex": blk,
                            "block_len": bl, "counter": 7, "flags": 3})
            for fl in (0, 1, 2, 4, 8, 16, 32, 64, 127, 128, 255):
                out.append({"kind": "platform", "platform": p, "fn": fn, "cv_hex": iv, "block_hex": blk,
                            "block_len": 64, "counter": 1 << 33, "flags": fl})
        for nb in (1, 2, 3, 4, 5, 7, 8, 9, 15, 16, 17, 33):
            # block counters straddling 2^31 and 2^32 inside one SIMD batch (lane != 0), and near 2^64
            for c in (0, (1 << 32) - 2, U64 - 40, (1 << 31) - 5, (1 << 32) - 5, (1 << 33) - 9):
                out.append({"kind": "platform", "platform": p, "fn": "xof_many", "cv_hex": _rand_hex(rng, 32),
                            "block_hex": blk, "block_len": 64 if nb % 2 else 17, "counter": c, "flags": 8 | 2 | 1,
                            "blocks": nb})
        for ni in (1, 2, 3, 4, 5, 7, 8, 9, 15, 16, 17, 31, 33):
            for c, incf in ((0, True), ((1 << 32) - 3, True), (1 << 40, True), (5, False)):
                out.append({"kind": "platform", "platform": p, "fn": "hash_many", "n": 1024, "input": _inp(ni * 1024),
                            "cv_hex": _rand_hex(rng, 32) if c else iv, "counter": c, "increment": incf,
                            "flags": (0, 16, 64)[ni % 3], "flags_start": 1, "flags_end": 2})
            out.append({"kind": "platform", "platform": p, "fn": "hash_many", "n": 64, "input": _inp(ni * 64, "xorshift", 9),
                        "cv_hex": iv, "counter": 0, "increment": False, "flags": 4 | (0, 16, 64)[ni % 3],
                        "flags_start": 0, "flags_end": 0})
    return out


FAMILIES = {
    "oneshot": (fam_oneshot, ()),
    "incremental": (fam_incremental, ()),
    "xof": (fam_xof, ()),
    "reset": (fam_reset, ()),
    "hazmat_tree": (fam_hazmat_tree, ()),
    "hazmat_fn": (fam_hazmat_fn, ()),
    "hazmat_ops": (fam_hazmat_ops, ()),
    "hex": (fam_hex, ()),
    "guts": (fam_guts, ()),
    "traits": (fam_traits, ("traits-preview", "zeroize")),
    "reader": (fam_reader, ()),
    "rayon_mmap": (fam_rayon_mmap, ("mmap", "rayon")),
    "platform": (fam_platform, ()),
    "zeroize": (fam_zeroize, ("zeroize",)),
    "debug": (fam_debug, ()),
    "serde": (fam_serde, ("serde",)),
}


# ==============================================================================================
# part 4: obligation -> families, find(), rerun()
# ==============================================================================================
GENERAL = ["default", "nodebug", "portable"]
SIMD_ALL = ["default", "nodebug", "portable", "pure", "no_avx512", "no_avx2", "no_sse41", "prefer_intrinsics"]

# (regex on the obligation's function path, families in order, SIMD variants in order, platforms for
#  the `platform` family).  First match wins.
TABLE = [
    (r"^crate::portable::", ["platform", "oneshot", "xof", "incremental"], GENERAL, ("portable",)),
    (r"^crate::(rust_)?(sse2|sse41|avx2|avx512|ffi_\w+)::", ["platform", "oneshot", "xof"], SIMD_ALL,
     ("detect", "sse2", "sse41", "avx2", "portable")),
    (r"^crate::platform::", ["platform", "oneshot", "xof", "incremental"], SIMD_ALL,
     ("portable", "detect", "sse2", "sse41", "avx2")),
    (r"^crate::(counter_low|counter_high)", ["platform", "xof", "oneshot"], GENERAL, ("portable", "detect")),
    (r"^crate::Hash::(Deserialize|Serialize)|serde", ["serde", "hex"], ["default"], ()),
    (r"^crate::Hash::|^crate::HexError|^crate::HexErrorInner", ["hex", "serde"], ["default"], ()),
    (r"^crate::guts::", ["guts", "oneshot"], GENERAL, ()),
    (r"[Zz]eroize", ["zeroize"], ["default", "nodebug"], ()),
    (r"Debug__fmt|::fmt$|Debug", ["debug"], ["default", "nodebug"], ()),
    (r"^crate::traits::", ["traits", "reset", "xof"], ["default", "nodebug"], ()),
    (r"^crate::io::|Hasher::update_reader", ["reader", "rayon_mmap", "incremental"], ["default", "nodebug"], ()),
    (r"^crate::join::|Hasher::update_rayon|Hasher::update_mmap", ["rayon_mmap", "incremental"], SIMD_ALL, ()),
    (r"^crate::hazmat::(left_subtree_len|max_subtree_len)", ["hazmat_fn", "hazmat_tree", "oneshot"], GENERAL, ()),
    (r"^crate::hazmat::", ["hazmat_ops", "hazmat_tree", "hazmat_fn", "reset"], GENERAL, ()),
    (r"^crate::OutputReader::|Hasher::finalize_xof|^crate::Output::root_output_block", ["xof", "incremental"],
     GENERAL, ()),
    (r"^crate::Hasher::(clone|clone_from)", ["hazmat_ops", "incremental", "reset"], GENERAL, ()),
    (r"^crate::Hasher::reset", ["reset", "traits", "incremental"], GENERAL, ()),
    (r"^crate::Hasher::(count|new|new_keyed|new_derive_key|new_internal|default)", ["incremental", "reset", "hazmat_ops"],
     GENERAL, ()),
    (r"^crate::Hasher::(update|update_with_join|merge_cv_stack|push_cv|final_output|finalize|write|flush)",
     ["incremental", "hazmat_ops", "hazmat_tree", "reset", "reader"], GENERAL, ()),
    (r"^crate::ChunkState::", ["guts", "incremental", "oneshot", "hazmat_tree"], GENERAL, ()),
    (r"^crate::Output::", ["oneshot", "xof", "incremental", "hazmat_tree"], GENERAL, ()),
    (r"^crate::parent_node_output", ["guts", "incremental", "hazmat_tree", "oneshot"], GENERAL, ()),
    (r"^crate::(compress_subtree_wide|compress_chunks_parallel|compress_parents_parallel|"
     r"compress_subtree_to_parent_node|hash_all_at_once|largest_power_of_two_leq|hash|keyed_hash|derive_key)\b",
     ["oneshot", "incremental", "rayon_mmap", "hazmat_tree"], SIMD_ALL, ()),
]
SMOKE = (["oneshot", "incremental"], GENERAL, ())

# scenarios that exercise a known open finding are only used when the obligation is about that code
TAG_RULES = {"offset_reset": r"reset|count|set_input_offset|merge_cv_stack|final_output|^crate::traits::",
             "lsl_max": r"left_subtree_len"}


def plan(function):
    for rx, fams, variants, plats in TABLE:
        if re.search(rx, function or ""):
            return list(fams), list(variants), plats, rx
    return list(SMOKE[0]), list(SMOKE[1]), SMOKE[2], None


def _tags_of(sc):
    """known-finding tags, derived from the scenario itself"""
    if sc["kind"] == "hazmat_fn" and sc.get("fn") == "left_subtree_len" and sc.get("v") == U64:
        return "lsl_max"
    if sc["kind"] == "reset" and any(o["op"] == "set_input_offset" and o.get("v") for o in sc["history"]):
        return "offset_reset"
    return None


def gen_family(name, seed, platforms=(), function=None):
    fn, _extra = FAMILIES[name]
    rng = random.Random("%s/%s" % (seed, name))
    scs = fn(rng, platforms) if (name == "platform" and platforms) else fn(rng)
    if function is not None:
        keep = []
        for sc in scs:
            t = _tags_of(sc)
            if t is None or re.search(TAG_RULES[t], function):
                keep.append(sc)
        scs = keep
    return scs


def search_family(binp, scratch, scs, deadline, stop_at_first=True):
    """-> (failures, n_checked, n_skipped, machinery_errors)"""
    fails, checked, skipped, mach = [], 0, 0, []
    CH = 300
    # scenarios may name process environment variables (e.g. RAYON_NUM_THREADS=1): one driver process per setting
    groups = {}
    for sc in scs:
        groups.setdefault(json.dumps(sc.get("env") or {}, sort_keys=True), []).append(sc)
    chunks = []
    for k, g in groups.items():
        for c0 in range(0, len(g), CH):
            chunks.append((json.loads(k), g[c0:c0 + CH]))
    for env, chunk in chunks:
        if time.time() > deadline:
            break
        lows = [lower(s) for s in chunk]
        res = run_driver(binp, lows, scratch, timeout=max(10.0, min(120.0, deadline - time.time())), env=env)
        for sc, low, r in zip(chunk, lows, res):
            if time.time() > deadline:
                break
            try:
                m = check(sc, low, r)
            except Machinery as e:
                mach.append("%s: %s" % (sc.get("kind"), e))
                continue
            if m == "skip":
                skipped += 1
                continue
            checked += 1
            if m is not None:
                # confirm in isolation, with generous time limits: a failure that does not repeat (machine load, a
                # killed batch) is machinery noise, never a finding
                try:
                    r2 = run_driver(binp, [low], scratch, timeout=300,
                                    env=dict(sc.get("env") or {}, REPLAY_SCENARIO_TIMEOUT_MS="180000"))[0]
                    m2 = check(sc, low, r2)
                except Machinery as e:
                    m2 = "skip"
                    mach.append("confirm %s: %s" % (sc.get("kind"), e))
                if m2 is None or m2 == "skip":
                    mach.append("unconfirmed failure dropped (%s: %s)" % (sc.get("kind"), str(m.get("field"))[:80]))
                    continue
                fails.append((sc, m2, r2))
                if stop_at_first:
                    return fails, checked, skipped, mach
    return fails, checked, skipped, mach


def shrink(sc, m, r, binp, scratch):
    """cut an operation script after the first disagreeing operation (kept only if it still fails)"""
    try:
        mt = re.match(r"(ops|fresh)\[(\d+)\]", m.get("field") or "")
        if not mt or mt.group(1) != "ops" or sc["kind"] not in ("xof", "ops", "traits"):
            return sc, m, r
        i = int(mt.group(2))
        if i + 1 >= len(sc["ops"]):
            return sc, m, r
        sc2 = dict(sc)
        sc2["ops"] = sc["ops"][:i + 1]
        sc2.pop("fresh_from", None)
        low = lower(sc2)
        res = run_driver(binp, [low], scratch, timeout=30, env=sc2.get("env"))
        m2 = check(sc2, low, res[0])
        if isinstance(m2, dict):
            return sc2, m2, res[0]
    except Exception:
        pass
    return sc, m, r


def _found(sc, m, r, feats, family):
    return {"scenario": sc, "features": list(feats), "family": family, "field": m.get("field"),
            "observed": m.get("observed"), "expected": m.get("expected"),
            "panic": (r or {}).get("panic"), "panic_loc": (r or {}).get("panic_loc"),
            "detail": {k: v for k, v in m.items() if k not in ("field", "observed", "expected")} or None}


def find(prop, fo, seed):
    t0 = time.time()
    deadline = t0 + ((fo or {}).get("budget") or TOTAL_BUDGET_S)
    function = (fo or {}).get("function") or ""
    if prop in ("C13", "C12"):
        # the b3sum unit's functions are `crate::...` too (another crate): dispatch on the property FIRST.
        # Family: real b3sum (scratch build + appended driver) vs oracle/checkfile.py, see lib/search_b3sum.py
        import search_b3sum
        return search_b3sum.find(prop, fo or {}, seed, deadline)
    sp = refimpl_find(prop, fo or {}, seed, deadline)
    if sp is not None:
        sp["log"]["seconds"] = round(time.time() - t0, 1)
        return sp
    fams, variants, plats, rule = plan(function)
    if (fo or {}).get("variants"):
        # the caller knows which build flavours reach the suspect code (guard:kernels): try those first
        hinted = [v for v in fo["variants"] if v in LEVELS]
        variants = hinted + [v for v in variants if v not in hinted]
    if (fo or {}).get("families"):
        fams = [f for f in fo["families"] if f in FAMILIES] + [f for f in fams if f not in fo["families"]]
    extras = tuple(sorted({f for fam in fams for f in FAMILIES[fam][1]}))
    log = {"function": function, "rule": rule or "generic smoke (function not in the table)", "families": fams,
           "variants": variants, "seed": seed, "scenarios_run": 0, "skipped": 0, "per_family": [], "builds": [],
           "oracle": "oracle/b3spec.py", "repo": common.REPO, "machinery_errors": []}
    builds = Builds()
    found = None
    try:
        feats_of = {v: tuple(sorted(set(LEVELS[v]) | set(extras))) for v in variants}
        for v in variants[:2]:
            builds.start(feats_of[v])
        for vi, v in enumerate(variants):
            if time.time() > deadline - 8:
                log.setdefault("note", "time budget exhausted before variant %s" % v)
                break
            tw = time.time()
            binp, err = builds.get(feats_of[v])
            # time spent blocked on a build does not count against the search budget (bounded: 15 min in total)
            waited = time.time() - tw
            if waited > 1 and log.setdefault("build_wait_s", 0) < 900:
                log["build_wait_s"] = round(log["build_wait_s"] + waited, 1)
                deadline += waited
            # build one variant ahead while this one is searched
            if vi >= 1 and vi + 1 < len(variants) and time.time() < deadline - 40:
                builds.start(feats_of[variants[vi + 1]])
            if not binp:
                log.setdefault("build_errors", []).append({"variant": v, "error": (err or "")[-1500:]})
                continue
            scratch = os.path.join(builds.root, "run_" + v)
            os.makedirs(scratch, exist_ok=True)
            for fam in fams:
                if time.time() > deadline - 3:
                    log.setdefault("note", "time budget exhausted in variant %s before family %s" % (v, fam))
                    break
                tf = time.time()
                scs = gen_family(fam, seed, plats, function)
                fails, checked, skipped, mach = search_family(binp, scratch, scs, deadline)
                log["scenarios_run"] += checked
                log["skipped"] += skipped
                log["machinery_errors"] += mach[:3]
                log["per_family"].append({"family": fam, "variant": v, "generated": len(scs), "checked": checked,
                                          "skipped": skipped, "seconds": round(time.time() - tf, 1),
                                          "failed": bool(fails)})
                if fails:
                    sc, m, r = fails[0]
                    sc, m, r = shrink(sc, m, r, binp, scratch)
                    found = _found(sc, m, r, feats_of[v], fam)
                    break
            if found:
                break
    finally:
        log["builds"] = builds.log
        builds.close()
    log["seconds"] = round(time.time() - t0, 1)
    return {"found": found, "log": log}


def rerun(failing_input):
    sc = failing_input["scenario"]
    if str(sc.get("kind", "")).startswith("b3sum_"):
        import search_b3sum
        return search_b3sum.rerun(failing_input)
    if sc.get("kind") in ("refimpl", "vectors_case"):
        return refimpl_rerun(failing_input)
    feats = tuple(failing_input.get("features") or ())
    builds = Builds()
    try:
        binp, err = builds.get(feats)
        if not binp:
            return {"reproduced": False, "error": "driver build failed: " + (err or "")[-1500:]}
        low = lower(sc)
        res = run_driver(binp, [low], builds.root, timeout=60, env=sc.get("env"))
        try:
            m = check(sc, low, res[0])
        except Machinery as e:
            return {"reproduced": False, "error": "machinery: %s" % e}
        if m is None or m == "skip":
            return {"reproduced": False, "observed": "agrees with the oracle" if m is None else "not applicable in this build",
                    "expected": failing_input.get("expected"), "scenario": sc, "features": list(feats)}
        return {"reproduced": True, "field": m.get("field"), "observed": m.get("observed"), "expected": m.get("expected"),
                "panic": (res[0] or {}).get("panic"), "panic_loc": (res[0] or {}).get("panic_loc"),
                "scenario": sc, "features": list(feats), "repo": common.REPO}
    finally:
        builds.close()


# ==============================================================================================
# part 5: obligations about reference_impl/ and test_vectors.json (property C15)
#   The optimized crate is the wrong target for these.  The reference implementation is driven
#   through lib/vectors_runner (built by eval_backend._build_runner, input pattern i % 251 only).
# ==============================================================================================
_RMODE = {"hash": "hash", "keyed_hash": "keyed", "derive_key": "derive"}


def _is_refimpl(fo):
    loc = fo.get("location") or ""
    return loc.startswith("reference_impl/") or "reference_impl" in (fo.get("function") or "")


def _is_vectors(fo):
    i = fo.get("inputs")
    return (fo.get("function") == "test_vectors.json" and isinstance(i, dict)
            and all(k in i for k in ("input_len", "mode", "out_len", "observed", "expected")))


def _ref_line(sc):
    if sc.get("kind") == "refimpl_compress":
        return "compress %s %s %d %d %d" % (sc["cv_hex"], sc["block_hex"], sc["counter"], sc["block_len"], sc["flags"])
    ctx = sc.get("context", "").encode("utf-8").hex() or "-"
    return "%s %s %s %d %d %d%s" % (sc["mode"], sc.get("key_hex") or "-", ctx, sc["input_len"], sc["out_len"],
                                    sc.get("split", 0), (" %d" % sc["extra"]) if sc.get("extra") else "")


def _ref_expected(sc):
    if sc.get("kind") == "refimpl_compress":
        import struct
        h = list(struct.unpack("<8I", bytes.fromhex(sc["cv_hex"])))
        m = list(struct.unpack("<16I", bytes.fromhex(sc["block_hex"])))
        out = b3spec.compress(h, m, sc["counter"], sc["block_len"], sc["flags"])
        return struct.pack("<16I", *out).hex()
    data = gen_input({"pattern": "inc251", "len": sc["input_len"] + (700 if sc.get("extra") == 2 else 0)})
    key = bytes.fromhex(sc["key_hex"]) if sc.get("key_hex") else None
    return b3spec.blake3(data, _RMODE[sc["mode"]], key=key, context=sc.get("context", ""), out_len=sc["out_len"]).hex()


def _ref_cases(rng):
    out = []
    mi = 0
    modes = ("hash", "keyed_hash", "derive_key")
    for n in BOUNDARY:
        for sp, ol in ((0, 32), (64, 131), (1025, 65), (1, 32), (63, 1), (65, 64), (1024, 200), (3000, 33)):
            if sp == 1 and n > 2100:
                continue
            if sp and sp >= n and sp != 64:
                continue
            m = modes[mi % 3]
            mi += 1
            sc = {"kind": "refimpl", "mode": m, "input_len": n, "out_len": ol, "split": sp}
            if m == "keyed_hash":
                sc["key_hex"] = KEY_TV if mi % 2 else _rand_key(rng)
            if m == "derive_key":
                # unusual contexts (empty, non-ASCII, longer than a chunk) only at a few lengths, so that
                # the first witness of a tree/chunk defect is about the input and not about the context
                sc["context"] = CONTEXTS[mi % len(CONTEXTS)] if n in (65, 1025, 5121) else CTX_TV
            out.append(sc)
            if sp in (0, 1024, 65) and n in (0, 1, 64, 1024, 1025, 2048, 2049, 3072, 5121, 8192):
                # the same with a zero-length update and a throw-away finalize before the real one (extra 1), and
                # with more input after that finalize (extra 2)
                out.append(dict(sc, extra=1))
                out.append(dict(sc, extra=2))
    # the private compress() at counters no input a machine can hold reaches (4 TiB and beyond, output blocks >= 2^32)
    cv = bytes(rng.randrange(256) for _ in range(32)).hex()
    blk = bytes(rng.randrange(256) for _ in range(64)).hex()
    for t in (0, 1, (1 << 32) - 2, (1 << 32) - 1, 1 << 32, (1 << 32) + 1, (1 << 33) - 2, (1 << 33) - 1, 1 << 33,
              3 * (1 << 32) - 1, (1 << 54) - 1, (1 << 63) + 5, (1 << 64) - 2, (1 << 64) - 1):
        for bl, fl in ((64, 0), (64, 1 | 2 | 8), (1, 11), (0, 16 | 8)):
            out.append({"kind": "refimpl_compress", "cv_hex": cv, "block_hex": blk, "counter": t, "block_len": bl, "flags": fl})
    return out


def _ref_run(binp, cases, timeout):
    rc, out, err, _ = common.run([binp], timeout=timeout, mem_gb=4, input="\n".join(_ref_line(c) for c in cases) + "\n")
    lines = out.split()
    return lines, rc, err


def refimpl_find(prop, fo, seed, deadline):
    if _is_vectors(fo):
        # the evaluation unit already names a concrete failing case: that IS the replayable input
        i = fo["inputs"]
        sc = {"kind": "vectors_case", "input_len": i["input_len"], "mode": i["mode"], "out_len": i["out_len"],
              "against": i.get("against", "reference_impl")}
        return {"found": {"scenario": sc, "features": [], "family": "vectors_case", "observed": i["observed"],
                          "expected": i["expected"], "panic": None},
                "log": {"function": fo.get("function"), "rule": "eval:vectors failing case taken as is (no search)",
                        "families": ["vectors_case"], "scenarios_run": 0, "builds": []}}
    if not _is_refimpl(fo):
        return None
    import eval_backend
    log = {"function": fo.get("function"), "rule": "reference_impl obligation: lib/vectors_runner vs oracle/b3spec.py",
           "families": ["refimpl"], "scenarios_run": 0, "builds": [], "seed": seed, "repo": common.REPO}
    d = common.scratch_dir("replay_ref")
    try:
        tb = time.time()
        binp, _cmd, diag = eval_backend._build_runner(d, common.REPO)
        log["builds"].append({"features": ["reference_impl"], "ok": bool(binp), "seconds": round(time.time() - tb, 1),
                              "error": diag})
        if not binp:
            return {"found": None, "log": log}
        cases = _ref_cases(random.Random("%s/refimpl" % seed))
        pos = 0
        while pos < len(cases) and time.time() < deadline - 5:
            chunk = cases[pos:pos + 200]
            lines, rc, err = _ref_run(binp, chunk, max(10, min(60, deadline - time.time())))
            for j, sc in enumerate(chunk):
                if j >= len(lines):
                    return {"found": {"scenario": sc, "features": [], "family": "refimpl", "expected": _ref_expected(sc),
                                      "observed": "runner stopped (rc=%s): %s" % (rc, (err or "")[-300:]), "panic": None},
                            "log": log}
                if lines[j] == "UNSUPPORTED":
                    continue
                log["scenarios_run"] += 1
                want = _ref_expected(sc)
                if lines[j] != want:
                    return {"found": {"scenario": sc, "features": [], "family": "refimpl", "observed": lines[j],
                                      "expected": want, "panic": "PANIC" if lines[j] == "PANIC" else None}, "log": log}
            pos += len(chunk)
        return {"found": None, "log": log}
    finally:
        common.rm_rf(d)


def refimpl_rerun(fi):
    import eval_backend
    sc = fi["scenario"]
    d = common.scratch_dir("replay_ref")
    try:
        if sc["kind"] == "vectors_case":
            tv = json.loads(common.read(os.path.join(common.REPO, "test_vectors", "test_vectors.json")))
            case = next((c for c in tv["cases"] if int(c["input_len"]) == sc["input_len"]), None)
            if case is None:
                return {"reproduced": False, "error": "no case with input_len=%d in test_vectors.json" % sc["input_len"]}
            vec = case[sc["mode"]]
            rs = {"kind": "refimpl", "mode": sc["mode"], "input_len": sc["input_len"], "out_len": len(vec) // 2,
                  "key_hex": tv["key"].encode().hex(), "context": tv["context_string"], "split": 0}
            if sc.get("against") == "oracle":
                other = _ref_expected(rs)
                return {"reproduced": vec != other, "observed": vec, "expected": other,
                        "what": "test_vectors.json vs oracle/b3spec.py", "scenario": sc, "repo": common.REPO}
            binp, _c, diag = eval_backend._build_runner(d, common.REPO)
            if not binp:
                return {"reproduced": False, "error": diag}
            lines, rc, err = _ref_run(binp, [rs], 60)
            got = lines[0] if lines else "runner gave no answer (rc=%s)" % rc
            return {"reproduced": got != vec, "observed": got, "expected": vec,
                    "what": "reference_impl vs test_vectors.json", "scenario": sc, "repo": common.REPO}
        binp, _c, diag = eval_backend._build_runner(d, common.REPO)
        if not binp:
            return {"reproduced": False, "error": diag}
        lines, rc, err = _ref_run(binp, [sc], 60)
        got = lines[0] if lines else "runner gave no answer (rc=%s)" % rc
        want = _ref_expected(sc)
        return {"reproduced": got != want, "observed": got, "expected": want, "scenario": sc, "repo": common.REPO}
    finally:
        common.rm_rf(d)


# ----------------------------------------------------------------------------------------------
def selftest_families(names=None, variants=("default", "portable"), seed=0, budget=600):
    """Run every family completely (no early stop, known-finding scenarios included) and list all
    disagreements: on an unchanged tree only the known open findings may show up."""
    names = names or list(FAMILIES)
    builds = Builds()
    rep = []
    try:
        extras = tuple(sorted({f for n in names for f in FAMILIES[n][1]}))
        feats_of = {v: tuple(sorted(set(LEVELS[v]) | set(extras))) for v in variants}
        for v in variants:
            builds.start(feats_of[v])
        for v in variants:
            binp, err = builds.get(feats_of[v])
            if not binp:
                rep.append({"variant": v, "build_error": err})
                continue
            scratch = os.path.join(builds.root, "run_" + v)
            os.makedirs(scratch, exist_ok=True)
            for n in names:
                t = time.time()
                scs = gen_family(n, seed, ("portable", "detect", "sse2", "sse41", "avx2"))
                fails, checked, skipped, mach = search_family(binp, scratch, scs, time.time() + budget, stop_at_first=False)
                rep.append({"variant": v, "family": n, "generated": len(scs), "checked": checked, "skipped": skipped,
                            "seconds": round(time.time() - t, 1), "machinery": mach[:3],
                            "failures": [{"scenario": s, "field": m["field"], "observed": m["observed"],
                                          "expected": m["expected"]} for s, m, _ in fails]})
    finally:
        rep.append({"builds": builds.log})
        builds.close()
    return rep


if __name__ == "__main__":
    import argparse
    ap = argparse.ArgumentParser()
    ap.add_argument("--selftest", action="store_true")
    ap.add_argument("--families", default="")
    ap.add_argument("--variants", default="default,portable")
    ap.add_argument("--find", help="function path of a (pretend) failed obligation")
    ap.add_argument("--seed", type=int, default=0)
    ap.add_argument("--prop", default="X", help="property id of the (pretend) obligation, e.g. C13 for the b3sum family")
    a = ap.parse_args()
    if a.find:
        print(json.dumps(find(a.prop, {"function": a.find}, a.seed), indent=1, default=str))
    else:
        rep = selftest_families([f for f in a.families.split(",") if f] or None, tuple(a.variants.split(",")), a.seed)
        for r in rep:
            fl = r.get("failures")
            print(json.dumps({k: v for k, v in r.items() if k != "failures"}))
            for f in fl or []:
                print("   FAIL", json.dumps(f)[:700])
