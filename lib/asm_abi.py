"""Calling-convention / frame / result check of the hand-written x86-64 assembly files (BOUNDED, property C07; also
re-validates a changed assembly file for C04).

The assembly has no front end in any installed contract verifier, so this is the stated bounded stand-in: each
c/blake3_<isa>_x86-64_unix.S (System V) and c/blake3_<isa>_x86-64_windows_gnu.S (Win64; assembled for ELF with
`.section .rdata` renamed `.section .rodata`, nothing else touched) is linked with lib/abi_driver/abi_call.S +
abi_driver.c and every exported kernel is called through a trampoline that fills ALL callee-saved registers of the
convention with patterns (SysV: rbx rbp r12-r15; Win64 additionally rsi rdi xmm6-xmm15) and checks them, the stack
pointer (implicitly: the trampoline's own frame) and the direction flag after return; outputs are compared with the
portable kernels of the same tree and the bytes around the output buffer must stay untouched. The MSVC-syntax .asm
files cannot be assembled here (no MASM-compatible assembler): a change there stays undecided.

Bound: hash_many over 13 input counts x {1,16} blocks x 6 counters x increment on/off x aligned/unaligned input;
compress_in_place / compress_xof over 13 block lengths x 6 counters x aligned/unaligned block and output;
xof_many (AVX-512, unix) over 21 block counts x 6 counters."""
import os
import subprocess

import common

ISAS = ("sse2", "sse41", "avx2", "avx512")
HERE = os.path.join(common.VERIF, "lib", "abi_driver")


def file_of(isa, win):
    return "c/blake3_%s_x86-64_%s.S" % (isa, "windows_gnu" if win else "unix")


def classify(rel):
    """-> (isa, win) for an assembly file this module can run, None otherwise"""
    b = os.path.basename(rel)
    for isa in ISAS:
        if b == "blake3_%s_x86-64_unix.S" % isa:
            return isa, False
        if b == "blake3_%s_x86-64_windows_gnu.S" % isa:
            return isa, True
    return None


def run_one(isa, win, repo=None):
    """-> {"status": pass|fail|skipped|error, "lines": [...], "cmd": ...}"""
    repo = repo or common.REPO
    d = common.scratch_dir("asm_abi")
    try:
        src = os.path.join(repo, file_of(isa, win))
        k = os.path.join(d, "k.S")
        text = open(src).read()
        if win:
            text = "\n".join(".section .rodata" if l.strip() == ".section .rdata" else l for l in text.split("\n"))
        common.write(k, text)
        exe = os.path.join(d, "t")
        cmd = ["clang", "-O1", "-I" + os.path.join(repo, "c"), "-DISA_" + isa, "-DABI_WIN=%d" % (1 if win else 0), "-o", exe,
               os.path.join(HERE, "abi_driver.c"), os.path.join(HERE, "abi_call.S"), k,
               os.path.join(repo, "c", "blake3_portable.c"), "-Wl,-z,noexecstack"]
        p = subprocess.run(cmd, stdout=subprocess.PIPE, stderr=subprocess.STDOUT, text=True, timeout=300)
        shown = " ".join(cmd).replace(d, "<scratch>")
        if p.returncode != 0:
            return {"status": "error", "lines": [p.stdout[-800:]], "cmd": shown}
        try:
            r = subprocess.run([exe], stdout=subprocess.PIPE, stderr=subprocess.STDOUT, text=True, timeout=300)
        except subprocess.TimeoutExpired:
            return {"status": "error", "lines": ["timeout of our own making"], "cmd": shown}
        lines = [l for l in r.stdout.split("\n") if l.strip()]
        if r.returncode == 77:
            return {"status": "skipped", "lines": ["this CPU lacks %s" % isa], "cmd": shown}
        if r.returncode == 0:
            return {"status": "pass", "lines": lines[-1:], "cmd": shown}
        if r.returncode < 0:
            lines.append("the kernel crashed (signal %d) inside the harness: stack pointer / return address / memory "
                         "outside its buffers" % -r.returncode)
        return {"status": "fail", "lines": lines[:8] + lines[-2:], "cmd": shown, "rc": r.returncode}
    finally:
        common.rm_rf(d)


def rerun(fi):
    sc = fi["scenario"]
    r = run_one(sc["isa"], sc["win"])
    return {"reproduced": r["status"] == "fail", "observed": r["lines"], "scenario": sc, "repo": common.REPO}
