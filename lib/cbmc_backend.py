"""CBMC 6.11 function-contract back end (goto-cc + goto-instrument --dfcc + cbmc) for the
BLAKE3 C library (REPO/c/blake3.c, blake3_dispatch.c, blake3_portable.c).

    list_units() -> {name: {"props": [...], "tier": "quick"|"thorough", "doc": str}}
    run_unit(name, tier="quick") -> UnitResult (common.new_result)
    replay(failed, repo=None) -> {"reproduced": bool, "driver": str, "output": str} | None

One unit = one C function checked against its contract in /verif/cbmc/contracts.h.  The
translation unit that is verified is generated per run in a scratch directory:

    #include "/verif/cbmc/spec.h"            macros, ghost state, observers
    #include "<REPO>/c/blake3.c"             the repository text, verbatim -- or, for the few
    #include "<REPO>/c/blake3_dispatch.c"    units that need loop contracts, a scratch copy
    #include "<REPO>/c/blake3_portable.c"    into which ONLY the clauses of
    #include "/verif/cbmc/contracts.h"       /verif/cbmc/loop_contracts.txt were inserted
    #include "/verif/cbmc/harness/<unit>.c"  (on the loop's own line: line numbers are kept)

Callees are replaced by their contracts (--replace-call-with-contract); each of them is
enforced in its own unit.  Tiny leaf helpers (memcpy wrappers such as make_output) are
inlined into their callers and additionally have their own exact-postcondition unit.
"""
import json
import os
import re
import sys

sys.path.insert(0, os.path.dirname(os.path.abspath(__file__)))
import common  # noqa: E402

CBMC_DIR = os.path.join(common.VERIF, "cbmc")
SPEC_H = os.path.join(CBMC_DIR, "spec.h")
CONTRACTS_H = os.path.join(CBMC_DIR, "contracts.h")
LOOPS_TXT = os.path.join(CBMC_DIR, "loop_contracts.txt")
HARNESS_DIR = os.path.join(CBMC_DIR, "harness")

# blake3_dispatch.c first: its static g_cpu_features must be in scope for the loop contracts
# inserted into blake3.c
SOURCES = ["blake3_dispatch.c", "blake3_portable.c", "blake3.c"]
PORTABLE_DEFS = ["-DBLAKE3_NO_SSE2", "-DBLAKE3_NO_SSE41", "-DBLAKE3_NO_AVX2", "-DBLAKE3_NO_AVX512"]

CHECK_FLAGS = ["--pointer-check", "--bounds-check", "--pointer-overflow-check",
               "--signed-overflow-check", "--undefined-shift-check", "--div-by-zero-check",
               "--object-bits", "12", "--slice-formula"]

MIN_UNWIND = 10
# default SAT solver; units marked solver="cadical" (built into this cbmc) are 5-20x faster with
# CaDiCaL than with MiniSat (symbolic-offset memcpy into symbolic-size objects), the quantifier /
# small-array units are faster with MiniSat
SOLVER = os.environ.get("VERIF_CBMC_SOLVER", "minisat2")

BASE_TRUST = [
    "CBMC 6.11 / DFCC (goto-cc front end, contract instrumentation, bit-precise SAT back end) is sound",
    "CBMC's built-in models of memcpy/memset/__builtin_clzll/__builtin_popcountll are faithful",
    "pointer model: --object-bits 12, hence every object (input, output) is < 2^50 bytes "
    "(VERIF_MAX_OBJ); lengths are otherwise unconstrained",
    "unsigned wrap-around and narrowing conversions are legal C and are not flagged "
    "(--unsigned-overflow-check / --conversion-check off); constrained only where a contract says so",
    "x86-64 data model of goto-cc (LP64, little endian, MAX_SIMD_DEGREE == 16); <immintrin.h> is "
    "replaced by an empty stub (blake3_dispatch.c references nothing from it under GCC/Clang)",
]

SIMD_IN_PLACE = ["blake3_compress_in_place_avx512", "blake3_compress_in_place_sse41",
                 "blake3_compress_in_place_sse2"]
SIMD_XOF = ["blake3_compress_xof_avx512", "blake3_compress_xof_sse41", "blake3_compress_xof_sse2"]
SIMD_XOF_MANY = ["blake3_xof_many_avx512"]
SIMD_HASH_MANY = ["blake3_hash_many_avx512", "blake3_hash_many_avx2", "blake3_hash_many_sse41",
                  "blake3_hash_many_sse2"]
ASSUMED = set(SIMD_IN_PLACE + SIMD_XOF + SIMD_XOF_MANY + SIMD_HASH_MANY) | {"strlen", "blake3_compress_subtree_wide_join_tbb"}


# Functions whose contract replaces EVERY call in every unit (unless the unit verifies that very
# function or lists it as inlined).  A unit names in `replace` the callees the unmodified code
# really calls; the rest of this list only matters when a change makes a function call something
# it did not call before (e.g. finalize calling hasher_merge_cv_stack): the new call is then
# checked against the callee's contract and the caller's assigns clause instead of being inlined.
GUARD_REPLACE = [
    "chunk_state_fill_buf", "chunk_state_update", "output_chaining_value", "output_root_bytes",
    "compress_chunks_parallel", "compress_parents_parallel", "blake3_compress_subtree_wide",
    "compress_subtree_to_parent_node", "hasher_init_base", "hasher_merge_cv_stack", "hasher_push_cv",
    "blake3_hasher_update_base", "blake3_hasher_update", "blake3_hasher_finalize",
    "blake3_hasher_finalize_seek", "blake3_hasher_reset", "blake3_hasher_init", "blake3_hasher_init_keyed",
    "blake3_hasher_init_derive_key_raw", "blake3_compress_in_place", "blake3_compress_xof",
    "blake3_xof_many", "blake3_hash_many", "blake3_simd_degree", "left_subtree_len",
    "round_down_to_power_of_2", "blake3_compress_in_place_portable", "blake3_compress_xof_portable",
    "hash_one_portable", "blake3_hash_many_portable", "get_cpu_features",
]


def _replaced(u):
    """explicit callees first, then the guard list"""
    if not u["enforce"]:
        return []
    extra = [g for g in GUARD_REPLACE if g != u["func"] and g not in u["inlined"] and g not in u["replace"]]
    return u["replace"] + extra


def _u(func, props, doc, file="blake3.c", replace=(), inlined=(), loops=(), unwind=1, bounded=(),
       tier="quick", config="portable", rec=False, defs=(), timeout=900, mem_gb=16, harness=None,
       extra_trust=(), level="proof", extra_cbmc=(), enforce=True, pre_unwind=(), solver=None):
    return dict(func=func, props=list(props), doc=doc, file=file, replace=list(replace),
                inlined=list(inlined), loops=list(loops), unwind=unwind, bounded=list(bounded),
                tier=tier, config=config, rec=rec, defs=list(defs), timeout=timeout, mem_gb=mem_gb,
                harness=harness, extra_trust=list(extra_trust), level=level,
                extra_cbmc=list(extra_cbmc), enforce=enforce, pre_unwind=list(pre_unwind),
                solver=solver)


UNITS = {}

# --------------------------------------------------------------------------------------------
# C text utilities: comment masking, function lookup, loop-contract insertion
# --------------------------------------------------------------------------------------------


def _mask(text):
    """Replace comments, string and char literals by spaces (same length, newlines kept)."""
    out = list(text)
    i, n = 0, len(text)
    while i < n:
        c = text[i]
        if text.startswith("//", i):
            j = text.find("\n", i)
            j = n if j < 0 else j
            for k in range(i, j):
                out[k] = " "
            i = j
        elif text.startswith("/*", i):
            j = text.find("*/", i + 2)
            j = n if j < 0 else j + 2
            for k in range(i, j):
                if out[k] != "\n":
                    out[k] = " "
            i = j
        elif c == '"' or c == "'":
            j = i + 1
            while j < n and text[j] != c:
                j += 2 if text[j] == "\\" else 1
            for k in range(i + 1, min(j, n)):
                if out[k] != "\n":
                    out[k] = " "
            i = j + 1
        else:
            i += 1
    masked = "".join(out)
    # `extern "C" {` / `}` inside #ifdef __cplusplus would unbalance the brace count
    def blank(m):
        return re.sub(r"[^\n]", " ", m.group(0))
    return re.sub(r"#\s*ifdef\s+__cplusplus.*?#\s*endif", blank, masked, flags=re.S)


def _match(masked, i, open_c, close_c):
    depth = 0
    for j in range(i, len(masked)):
        if masked[j] == open_c:
            depth += 1
        elif masked[j] == close_c:
            depth -= 1
            if depth == 0:
                return j
    return -1


def find_function(text, name):
    """Locate the definition of `name`: returns (line, body_start, body_end) or None."""
    masked = _mask(text)
    for m in re.finditer(r"\b%s\s*\(" % re.escape(name), masked):
        # must be at brace depth 0
        if masked.count("{", 0, m.start()) != masked.count("}", 0, m.start()):
            continue
        close = _match(masked, m.end() - 1, "(", ")")
        if close < 0:
            continue
        k = close + 1
        while k < len(masked) and masked[k] in " \t\r\n":
            k += 1
        if k < len(masked) and masked[k] == "{":
            end = _match(masked, k, "{", "}")
            if end < 0:
                continue
            return text.count("\n", 0, m.start()) + 1, k, end
    return None


def load_loop_contracts():
    """loop_contracts.txt: blocks '@ <file> <function> <loop index>' followed by clause lines."""
    table = {}
    cur = None
    for line in common.read(LOOPS_TXT).splitlines():
        s = line.strip()
        if not s or s.startswith("#"):
            continue
        if s.startswith("@"):
            _, f, fn, idx = s.split()
            cur = (f, fn, int(idx))
            table[cur] = []
        elif cur is not None:
            table[cur].append(s)
    return {k: " ".join(v) for k, v in table.items()}


def insert_loop_contracts(text, func, clauses):
    """clauses: {loop index: clause text}.  Inserts the clauses (and nothing else) right after
    the closing parenthesis of the k-th loop header of `func`, on the same line."""
    loc = find_function(text, func)
    if loc is None:
        raise LookupError("function %s not found" % func)
    _, b0, b1 = loc
    masked = _mask(text)
    heads = []
    for m in re.finditer(r"\b(while|for)\s*\(", masked[b0:b1]):
        s = b0 + m.start()
        close = _match(masked, b0 + m.end() - 1, "(", ")")
        # a `while (...) ;` that terminates a do-loop is not a loop head
        k = close + 1
        while k < b1 and masked[k] in " \t\r\n":
            k += 1
        if m.group(1) == "while" and masked[k] == ";":
            continue
        heads.append((s, close))
    ins = []
    for idx, clause in clauses.items():
        if idx >= len(heads):
            raise LookupError("loop %d of %s not found (%d loops)" % (idx, func, len(heads)))
        ins.append((heads[idx][1] + 1, " " + clause + " "))
    for pos, s in sorted(ins, reverse=True):
        text = text[:pos] + s + text[pos:]
    return text


# --------------------------------------------------------------------------------------------
# running the tools
# --------------------------------------------------------------------------------------------

_KIND = [
    ("unwind", "unwinding"), ("postcondition", "postcondition"), ("precondition", "precondition"), ("assigns", "assigns"),
    ("unwind", "unwinding"), ("overflow", "overflow"), ("undefined-shift", "overflow"),
    ("division-by-zero", "overflow"), ("array_bounds", "bounds"), ("pointer", "bounds"),
    ("bounds", "bounds"), ("loop_invariant", "invariant"), ("loop_decreases", "invariant"),
    ("loop_assigns", "assigns"), ("loop_step_unwinding", "invariant"), ("assertion", "assertion"),
    ("frees", "assigns"),
]


def _kind(prop_class, descr):
    pc = (prop_class or "").lower()
    for key, kind in _KIND:
        if key in pc:
            return kind
    d = descr.lower()
    if "assignable" in d:
        return "assigns"
    if "unwinding" in d:
        return "unwinding"
    if "overflow" in d:
        return "overflow"
    return "other"


def _num(data):
    if data is None:
        return None
    s = str(data).strip()
    if s in ("TRUE", "True"):
        return 1
    if s in ("FALSE", "False"):
        return 0
    m = re.match(r"^(-?\d+)(u|l|ul|ll|ull|lu)?$", s, re.I)
    if m:
        return int(m.group(1))
    return None


def _trace_inputs(trace, func, params):
    """Counterexample values of the function under contract: scalar parameters (assigned as
    `<p>_wrapper` by the DFCC wrapper call), pre-state fields published by the verif_obs_*
    observers in the requires clauses, and named scalar locals of the harness."""
    params_v, obs_v, vals = {}, {}, {}
    for st in trace:
        if st.get("stepType") != "assignment":
            continue
        lhs = st.get("lhs", "")
        v = _num(st.get("value", {}).get("data"))
        if v is None:
            continue
        fn = st.get("sourceLocation", {}).get("function")
        if st.get("assignmentType") == "actual-parameter":
            if lhs.endswith("_wrapper") and lhs[:-8] in params:
                params_v.setdefault(lhs[:-8], v)
            elif lhs.startswith("obs_"):
                if fn != "harness":      # VERIF_PROLOGUE calls the observers with 0
                    obs_v.setdefault(lhs[4:], v)
            elif lhs in params and fn == "harness":
                params_v.setdefault(lhs, v)
        elif fn == "harness" and "$" not in lhs and "[" not in lhs and "." not in lhs and \
                not re.match(r"^(__|verif_nd|return_value|tmp_|goto_symex)", lhs):
            vals[lhs] = v      # named scalar locals of harness-allocated harnesses (last value wins)
    vals.update(obs_v)
    for k, v in params_v.items():
        # a parameter that shares its name with an observed field (hasher_push_cv's chunk_counter)
        vals[k + "_arg" if k in obs_v else k] = v
    return vals


def _params_of(text, func):
    masked = _mask(text)
    m = None
    for m_ in re.finditer(r"\b%s\s*\(" % re.escape(func), masked):
        if masked.count("{", 0, m_.start()) == masked.count("}", 0, m_.start()):
            m = m_
            break
    if m is None:
        return []
    close = _match(masked, m.end() - 1, "(", ")")
    names = []
    for p in masked[m.end():close].split(","):
        p = re.sub(r"\[[^\]]*\]", "", p).strip()
        mm = re.search(r"(\w+)\s*$", p)
        if mm and mm.group(1) != "void":
            names.append(mm.group(1))
    return names


def _src_path(repo, f):
    return os.path.join(repo, "c", f)


def _map_file(path, repo, scratch):
    """Map a file name from cbmc's output to a repo-relative one (scratch copies included)."""
    if not path:
        return None
    if path.startswith("<"):
        return path
    base = os.path.basename(path)
    ap = os.path.abspath(path)
    if ap.startswith(os.path.abspath(scratch) + os.sep) and base in SOURCES + ["blake3_impl.h", "blake3.h"]:
        return "c/" + base
    r = os.path.abspath(os.path.join(repo, "c"))
    if ap.startswith(r + os.sep):
        return "c/" + os.path.relpath(ap, r)
    if ap.startswith(CBMC_DIR + os.sep):
        return "verif/cbmc/" + os.path.relpath(ap, CBMC_DIR)
    if ap.startswith(os.path.abspath(scratch) + os.sep):
        return "verif/cbmc/<generated>/" + base
    return path


def _line_of(path, line):
    try:
        return common.read(path).splitlines()[int(line) - 1].strip()
    except Exception:
        return None


def list_units():
    return {k: {"props": v["props"], "tier": v["tier"], "doc": v["doc"]} for k, v in UNITS.items()}


def _fmt(cmd):
    return " ".join(cmd)


def build_unit(name, scratch, repo=None):
    """Generate the translation unit of `name` in `scratch`.  Returns (main_c, info) or raises
    LookupError for a lost anchor."""
    u = UNITS[name]
    repo = repo or common.REPO
    # anchor
    src_file = _src_path(repo, u["file"])
    if not os.path.isfile(src_file):
        raise LookupError("source file %s not found" % src_file)
    text = common.read(src_file)
    loc = find_function(text, u["func"])
    if loc is None:
        raise LookupError("function %s not found in c/%s" % (u["func"], u["file"]))
    info = {"line": loc[0], "params": _params_of(text, u["func"])}
    for callee in u["replace"] + u["inlined"]:
        if callee in ASSUMED:
            continue
        found = False
        for f in SOURCES + ["blake3_impl.h"]:
            p = _src_path(repo, f)
            if os.path.isfile(p) and find_function(common.read(p), callee) is not None:
                found = True
                break
        if not found:
            raise LookupError("callee %s not found in c/*.c" % callee)
    # loop contracts -> annotated scratch copies
    table = load_loop_contracts() if u["loops"] else {}
    per_file = {}
    for (f, fn, idx) in u["loops"]:
        if (f, fn, idx) not in table:
            raise LookupError("no loop contract for %s %s %d" % (f, fn, idx))
        per_file.setdefault(f, {}).setdefault(fn, {})[idx] = table[(f, fn, idx)]
    includes = []
    for f in SOURCES:
        if f in per_file:
            t = common.read(_src_path(repo, f))
            for fn, clauses in per_file[f].items():
                t = insert_loop_contracts(t, fn, clauses)
            dst = os.path.join(scratch, f)
            common.write(dst, t)
            includes.append(dst)
        else:
            includes.append(_src_path(repo, f))
    hname = u["harness"] or name
    main = ['#include "%s"' % SPEC_H]
    main += ['#include "%s"' % p for p in includes]
    main += ['#include "%s"' % CONTRACTS_H, '#include "%s"' % os.path.join(HARNESS_DIR, hname + ".c"), ""]
    main_c = os.path.join(scratch, "unit_%s.c" % name)
    common.write(main_c, "\n".join(main))
    return main_c, info


def _commands(name, main_c, scratch, repo, trace=True, sanity=False, unwindset=()):
    u = UNITS[name]
    defs = (PORTABLE_DEFS if u["config"] == "portable" else []) + u["defs"]
    if sanity:
        defs = defs + ["-DVERIF_SANITY"]
    g1 = os.path.join(scratch, "h.goto")
    g2 = os.path.join(scratch, "h_dfcc.goto")
    cc = ["goto-cc", "-I" + os.path.join(CBMC_DIR, "stubs"), "-I" + os.path.join(repo, "c")] + defs + ["-o", g1, main_c, "--function", "harness"]
    # pre-pass: the bodies of contract-replaced callees are not part of this unit's proof; removing
    # them (and what only they reach) keeps DFCC from instrumenting e.g. the whole compression
    # function in every unit (goto-instrument --apply-loop-contracts: 23 s -> 0.4 s)
    g0 = os.path.join(scratch, "h_pre.goto")
    pre = ["goto-instrument"]
    for r in _replaced(u):
        pre += ["--remove-function-body", r]
    if unwindset:
        # a loop nested in a loop that has a loop contract must be unwound before DFCC runs
        pre += ["--unwindset", ",".join("%s:%d" % x for x in unwindset), "--unwinding-assertions"]
    pre += ["--drop-unused-functions", g1, g0]
    gi = ["goto-instrument", "--dfcc", "harness"]
    if u["enforce"] is True:       # enforce == "callees": the harness calls the function directly and states
        #                            pre/postcondition itself; only the callees are replaced by their contracts
        gi += ["--enforce-contract-rec" if u["rec"] else "--enforce-contract", u["func"]]
    for r in _replaced(u):
        gi += ["--replace-call-with-contract", r]
    if u["loops"]:
        gi += ["--apply-loop-contracts"]
    gi += [g0, g2]
    # MIN_UNWIND: the DFCC library iterates over the targets of a replaced callee's assigns
    # clause (at most 7 targets in contracts.h); its loops are covered by unwinding assertions too
    cb = ["cbmc", g2] + CHECK_FLAGS + ["--unwind", str(max(u["unwind"], MIN_UNWIND)), "--unwinding-assertions"]
    if u["solver"] != "external":
        cb += ["--sat-solver", u["solver"] or SOLVER]
    if not u["enforce"]:
        cb[1] = g1  # plain assertion harness: no contract instrumentation
    cb += u["extra_cbmc"]
    if trace:
        cb += ["--trace"]
    cb += ["--json-ui"]
    return cc, pre, gi, cb


def loop_line(text, func, idx):
    """1-based line of the header of the idx-th loop of func."""
    loc = find_function(text, func)
    if loc is None:
        raise LookupError("function %s not found" % func)
    _, b0, b1 = loc
    masked = _mask(text)
    heads = []
    for m in re.finditer(r"\b(while|for)\s*\(", masked[b0:b1]):
        close = _match(masked, b0 + m.end() - 1, "(", ")")
        k = close + 1
        while k < b1 and masked[k] in " \t\r\n":
            k += 1
        if m.group(1) == "while" and masked[k] == ";":
            continue
        heads.append(text.count("\n", 0, b0 + m.start()) + 1)
    if idx >= len(heads):
        raise LookupError("loop %d of %s not found" % (idx, func))
    return heads[idx]


def _loop_ids(name, scratch, repo):
    """Resolve the unit's pre_unwind entries (file, function, k-th loop, bound) to cbmc loop ids."""
    u = UNITS[name]
    rc, out, err, _ = common.run(["goto-instrument", "--show-loops", os.path.join(scratch, "h.goto")], timeout=120)
    loops = re.findall(r"Loop (\S+):\s*\n\s*file (\S+) line (\d+) function (\S+)", out)
    res = []
    for (f, fn, idx, bound) in u["pre_unwind"]:
        line = loop_line(common.read(_src_path(repo, f)), fn, idx)
        ids = [lid for (lid, lf, ll, lfn) in loops if lfn == fn and int(ll) == line and os.path.basename(lf) == f]
        if len(ids) != 1:
            raise LookupError("loop %d of %s (line %d) not identified in the goto program" % (idx, fn, line))
        res.append((ids[0], bound))
    return res


def _parse_json(out):
    try:
        return json.loads(out)
    except Exception:
        pass
    # tolerate a truncated array
    try:
        i = out.rindex("},")
        return json.loads(out[:i + 1] + "]")
    except Exception:
        return None


ALLOWED_STATICS = {"g_cpu_features"}


def _run_static_objects(name, res, sanity=False):
    """C18, structural: enumerate (from goto-cc's symbol table of the full-dispatch translation unit)
    every object with static storage duration that the three library files define; all of them
    must be const-qualified except the CPU feature cache.  This covers function-local `static`
    buffers, which DFCC adds to a function's write set silently."""
    import time
    u = UNITS[name]
    repo = common.REPO
    t0 = time.time()
    scratch = common.scratch_dir("cbmc_" + name)
    try:
        for f in SOURCES:
            if not os.path.isfile(_src_path(repo, f)):
                res["undecided_reason"] = "lost anchor: c/%s not found" % f
                return res
        main_c = os.path.join(scratch, "unit_%s.c" % name)
        common.write(main_c, "\n".join(['#include "%s"' % SPEC_H] + ['#include "%s"' % _src_path(repo, f) for f in SOURCES]
                                       + ["void harness(void) { %s }" % ("static int verif_sanity_static; verif_sanity_static = 1;" if sanity else ""), ""]))
        g1 = os.path.join(scratch, "h.goto")
        cc = ["goto-cc", "-I" + os.path.join(CBMC_DIR, "stubs"), "-I" + os.path.join(repo, "c"), "-o", g1, main_c,
              "--function", "harness"]
        st = ["goto-instrument", "--show-symbol-table", "--json-ui", g1]
        res["cmd"] = _fmt(cc) + " && " + _fmt(st)
        rc, out, err, _ = common.run(cc, timeout=120)
        if rc != 0:
            res["undecided_reason"] = "goto-cc failed (rc %s): %s" % (rc, (err + out)[-600:])
            return res
        rc, out, err, _ = common.run(st, timeout=120)
        data = _parse_json(out) if rc == 0 else None
        table = None
        for m in data or []:
            if isinstance(m, dict) and "symbolTable" in m:
                table = m["symbolTable"]
        if table is None:
            res["undecided_reason"] = "goto-instrument --show-symbol-table failed (rc %s): %s" % (rc, (out + err)[-400:])
            return res
        cdir = os.path.abspath(os.path.join(repo, "c")) + os.sep
        objs = []
        for k, v in table.items():
            if not v.get("isStaticLifetime") or v.get("isType") or v.get("isMacro") or v.get("isExtern"):
                continue
            if v.get("type", {}).get("id") == "code":
                continue
            f = v.get("location", {}).get("file", "")
            inrepo = os.path.abspath(f).startswith(cdir)
            if not inrepo and not (sanity and "verif_sanity_static" in k):
                continue
            objs.append((k, v))
        res["obligations"] = len(objs)
        res["functions_verified"] = ["every object with static storage duration defined in c/%s" % f for f in SOURCES]
        for k, v in objs:
            ptype = v.get("prettyType", "")
            loc = v.get("location", {})
            where = "%s:%s" % (_map_file(loc.get("file"), repo, scratch), loc.get("line"))
            const = ptype.startswith("const ") or " const " in (" " + ptype + " ")
            if const or v.get("baseName") in ALLOWED_STATICS:
                res["discharged"] += 1
                if len(res["samples"]) < 5:
                    res["samples"].append("static object %s : %s is %s [%s]" % (
                        k, ptype, "const" if const else "the allowed detection cache", where))
            else:
                fn = k.split("::")[0] if "::" in k else "(file scope)"
                res["failed"].append(common.failed_obligation(
                    fn, "assigns", "mutable object with static storage duration: %s : %s (shared between all hashers; "
                    "only g_cpu_features is allowed)" % (k, ptype), location=where,
                    clause="C18: assigns of every API function within its arguments + g_cpu_features", inputs=None,
                    raw="%s %s" % (k, ptype)))
                res["failed"][-1]["unit_function"] = fn
        if res["obligations"] == 0:
            res["undecided_reason"] = "vacuous: no static objects found (g_cpu_features, IV, MSG_SCHEDULE expected)"
        else:
            res["status"] = "fail" if res["failed"] else "pass"
        return res
    finally:
        res["seconds"] = round(time.time() - t0, 2)
        common.rm_rf(scratch)


def run_unit(name, tier="quick", keep=False, sanity=False):
    """sanity=True (self-test only) compiles the harness with -DVERIF_SANITY: an assert(0) at the end
    of the harness, which must FAIL -- otherwise the contract's assumptions are vacuous."""
    res = common.new_result(name, "cbmc")
    if name not in UNITS:
        res["undecided_reason"] = "unknown unit"
        return res
    u = UNITS[name]
    repo = common.REPO
    res["level"] = u["level"]
    res["config"] = "%s; %s" % (
        "portable-only dispatch (-DBLAKE3_NO_SSE2/SSE41/AVX2/AVX512)" if u["config"] == "portable"
        else "full x86 dispatch, SIMD kernels replaced by assumed frame contracts", " ".join(CHECK_FLAGS))
    res["bounded"] = list(u["bounded"])
    res["trusted_base"] = BASE_TRUST + u["extra_trust"]
    if u.get("kind") == "static_objects":
        res["trusted_base"] = ["goto-cc's symbol table lists every object with static storage duration of the "
                               "translation unit (blake3.c + blake3_dispatch.c + blake3_portable.c, full x86 dispatch)",
                               "const-qualified objects are not written (writing one is UB and is flagged by the "
                               "pointer checks of the unit that would do it)"]
        return _run_static_objects(name, res, sanity)
    scratch = common.scratch_dir("cbmc_" + name)
    cmds = []
    import time
    t0 = time.time()
    try:
        try:
            main_c, info = build_unit(name, scratch, repo)
        except LookupError as e:
            res["undecided_reason"] = "lost anchor: %s" % e
            return res
        res["functions_verified"] = ["%s (c/%s:%d)" % (u["func"], u["file"], info["line"])]
        for f in u["inlined"]:
            res["functions_verified"].append("%s (inlined into the caller's proof)" % f)
        res["functions_trusted"] = [
            "%s (%s)" % (r, "ASSUMED frame contract: asm/SIMD or libc, not analysed" if r in ASSUMED
                         else "replaced by its contract; enforced by its own unit") for r in u["replace"]]
        if u["enforce"]:
            res["functions_trusted"].append(
                "any other function of GUARD_REPLACE (not called by the unmodified code): contract, if a call appears")
        if u["loops"]:
            res["functions_trusted"].append(
                "loop contracts of %s inserted from verif/cbmc/loop_contracts.txt (checked: base, step, "
                "assigns, decreases)" % ", ".join(sorted({"%s#%d" % (fn, i) for _, fn, i in u["loops"]})))
        cc, pre, gi, cb = _commands(name, main_c, scratch, repo, sanity=sanity)
        cmds = [cc, pre, gi, cb]
        res["cmd"] = " && ".join(_fmt(c) for c in cmds)
        rc, out, err, _ = common.run(cc, timeout=120, mem_gb=u["mem_gb"])
        if rc != 0:
            res["undecided_reason"] = "goto-cc failed (rc %s): %s" % (rc, (err + out)[-600:])
            return res
        if not u["enforce"]:
            cmds = [cc, cb]
            res["cmd"] = " && ".join(_fmt(c) for c in cmds)
        if u["pre_unwind"]:
            try:
                unwindset = _loop_ids(name, scratch, repo)
            except LookupError as e:
                res["undecided_reason"] = "lost anchor: %s" % e
                return res
            cc, pre, gi, cb = _commands(name, main_c, scratch, repo, sanity=sanity, unwindset=unwindset)
            cmds = [cc, pre, gi, cb]
            res["cmd"] = " && ".join(_fmt(c) for c in cmds)
        if u["enforce"]:
            rc, out, err, _ = common.run(pre, timeout=120, mem_gb=u["mem_gb"])
            if rc != 0:
                res["undecided_reason"] = "goto-instrument pre-pass failed (rc %s): %s" % (rc, (out + err)[-800:])
                return res
            rc, out, err, _ = common.run(gi, timeout=min(600, u["timeout"]), mem_gb=u["mem_gb"])
        if rc != 0:
            res["undecided_reason"] = "goto-instrument --dfcc failed (rc %s): %s" % (rc, (out + err)[-800:])
            return res
        rc, out, err, secs = common.run(cb, timeout=u["timeout"], mem_gb=u["mem_gb"])
        if rc == -9:
            res["undecided_reason"] = "cbmc timeout after %d s" % u["timeout"]
            return res
        data = _parse_json(out)
        if rc not in (0, 10) or data is None:
            tail = (out[-400:] + err[-400:]).strip()
            oom = re.search(r"bad_alloc|out of memory|Cannot allocate", out[-20000:] + err[-20000:], re.I)
            why = "out of memory (limit %s GB)" % u["mem_gb"] if (oom or rc in (-6, -11, 134, 137, 139)) else "tool error"
            res["undecided_reason"] = "cbmc rc %s: %s: %s" % (rc, why, tail[-500:])
            return res
        results, solver = None, 0.0
        for m in data:
            if isinstance(m, dict):
                if "result" in m:
                    results = m["result"]
                mt = m.get("messageText", "")
                mm = re.search(r"Runtime decision procedure: ([\d.]+)s", mt)
                if mm:
                    solver += float(mm.group(1))
        if results is None:
            res["undecided_reason"] = "cbmc produced no result list: %s" % (out[-400:] + err[-300:])
            return res
        # cbmc prints its own solver statistics only at verbosity >= 8; report the wall time of
        # the cbmc process (symbolic execution + SAT) instead when they are absent
        res["solver_seconds"] = round(solver if solver else secs, 2)
        res["obligations"] = len(results)
        ok = [r for r in results if r.get("status") == "SUCCESS"]
        bad = [r for r in results if r.get("status") != "SUCCESS"]
        res["discharged"] = len(ok)
        # samples: prefer contract-level checks
        pri = [r for r in ok if re.search(r"ensures|requires|assignable|unwinding|invariant", r["description"])]
        seen, samples = set(), []
        for r in pri + ok:
            d = r["description"]
            key = re.sub(r"\d+", "#", d)
            if key in seen:
                continue
            seen.add(key)
            sl = r.get("sourceLocation", {})
            f = _map_file(sl.get("file"), repo, scratch)
            samples.append("%s [%s:%s in %s]" % (d, f, sl.get("line"), sl.get("function")))
            if len(samples) >= 5:
                break
        res["samples"] = samples
        if len(results) == 0:
            res["undecided_reason"] = "vacuous: cbmc reported 0 checks"
            return res
        # counterexample values: --slice-formula drops the assignments that do not influence a
        # property from its trace (among them the observed pre-state fields), so the failing
        # properties are re-run once without slicing, restricted with --property
        full = {}
        if bad:
            cb2 = [x for x in cb if x != "--slice-formula"]
            for r in bad[:4]:
                cb2 += ["--property", r["property"]]
            rc2, out2, err2, _ = common.run(cb2, timeout=min(u["timeout"], 400), mem_gb=u["mem_gb"])
            data2 = _parse_json(out2) if rc2 in (0, 10) else None
            for m in data2 or []:
                if isinstance(m, dict) and "result" in m:
                    for r2 in m["result"]:
                        if r2.get("status") != "SUCCESS" and r2.get("trace"):
                            full[r2["property"]] = r2["trace"]
            res["cmd"] += " ; on failure, for the counterexample values: " + _fmt(cb2)
        for r in bad[:12]:
            sl = r.get("sourceLocation", {})
            fpath = sl.get("file")
            if fpath and not os.path.isabs(fpath) and not fpath.startswith("<"):
                fpath = os.path.join(sl.get("workingDirectory", scratch), fpath)
            f = _map_file(fpath, repo, scratch)
            kind = _kind(sl.get("propertyClass") or r["property"], r["description"])
            trace = full.get(r["property"]) or r.get("trace", [])
            clause = None
            if f and f.startswith("verif/cbmc/") and fpath and os.path.isfile(fpath):
                txt = _line_of(fpath, sl.get("line"))
                clause = "%s:%s: %s" % (f, sl.get("line"), txt)
                # for harness asserts and contract clauses, the location is the function itself
                where = "c/%s:%d" % (u["file"], info["line"])
            elif f and f.startswith("c/"):
                where = "%s:%s" % (f, sl.get("line"))
            else:
                # a check inside a CBMC library model (memcpy, DFCC write-set): report the last
                # repository line the counterexample went through
                where = None
                for st in reversed(trace):
                    sl2 = st.get("sourceLocation", {})
                    f2 = sl2.get("file")
                    if f2 and not os.path.isabs(f2) and not f2.startswith("<"):
                        f2 = os.path.join(sl2.get("workingDirectory", scratch), f2)
                    m2 = _map_file(f2, repo, scratch) if f2 else None
                    if m2 and m2.startswith("c/"):
                        where = "%s:%s" % (m2, sl2.get("line"))
                        break
                where = where or "c/%s:%d" % (u["file"], info["line"])
                clause = "%s:%s" % (f, sl.get("line"))
            fn = sl.get("function") or u["func"]
            inputs = _trace_inputs(trace, u["func"], info["params"]) or None
            raw = "[%s] %s: %s" % (r["property"], r["description"], r.get("status"))
            res["failed"].append(common.failed_obligation(
                fn, kind, r["description"], location=where, clause=clause, inputs=inputs, raw=raw))
            res["failed"][-1]["unit_function"] = u["func"]
        if bad:
            res["status"] = "fail"
            if len(bad) > 12:
                res["failed_truncated"] = len(bad) - 12
        else:
            res["status"] = "pass"
        return res
    finally:
        res["seconds"] = round(time.time() - t0, 2)
        if keep:
            res["scratch"] = scratch
        else:
            common.rm_rf(scratch)


# --------------------------------------------------------------------------------------------
# replay: re-run a counterexample against the real C code under ASan/UBSan
# --------------------------------------------------------------------------------------------

REPLAY_MAX_ALLOC = 1 << 28   # do not try to malloc more than 256 MiB for a replayed length

_DRIVER_PRELUDE = r'''/* generated by verif/lib/cbmc_backend.py replay(): arguments taken from cbmc's counterexample;
 * buffers are malloc'ed with exactly the size the contract requires (ASan red zones catch any
 * overrun), postconditions of the contract are plain C asserts */
#include <assert.h>
#include <stdio.h>
#include <stdlib.h>
#include <string.h>
#include "blake3_dispatch.c"
#include "blake3_portable.c"
#include "blake3.c"
#define IMPLIES(a, b) (!(a) || (b))
#define CHECK(c) do { if (!(c)) { fprintf(stderr, "REPLAY: postcondition violated: %s\n", #c); abort(); } } while (0)
#define CS_LEN(s) (64 * (size_t)(s)->blocks_compressed + (size_t)(s)->buf_len)
#define POPCNT(x) ((size_t)__builtin_popcountll((unsigned long long)(x)))
#define CS_WF(s) ((s)->buf_len <= 64 && CS_LEN(s) <= 1024 && IMPLIES((s)->buf_len == 0, (s)->blocks_compressed == 0))
#define H_T(h) ((h)->chunk.chunk_counter)
#define HASHER_WF(h) (CS_WF(&(h)->chunk) && H_T(h) < ((uint64_t)1 << 54) && (h)->cv_stack_len <= 55 && \
   (CS_LEN(&(h)->chunk) > 0 ? (size_t)(h)->cv_stack_len == POPCNT(H_T(h)) \
     : (H_T(h) == 0 ? (h)->cv_stack_len == 0 \
        : ((h)->cv_stack_len >= 2 && (size_t)(h)->cv_stack_len >= POPCNT(H_T(h)) && (size_t)(h)->cv_stack_len <= POPCNT(H_T(h) - 1) + 1))))
static void *xalloc(size_t n) {          /* exactly n bytes, filled with a pattern */
  unsigned char *p = malloc(n);
  if (n && !p) { fprintf(stderr, "REPLAY: cannot allocate %zu bytes\n", n); exit(0); }
  for (size_t i = 0; i < n; i++) p[i] = (unsigned char)(i * 7 + 1);
  return p;
}
static blake3_chunk_state *mk_cs(unsigned buf_len, unsigned bc, uint64_t ctr, unsigned flags) {
  blake3_chunk_state *s = xalloc(sizeof *s);
  s->buf_len = (uint8_t)buf_len; s->blocks_compressed = (uint8_t)bc; s->chunk_counter = ctr; s->flags = (uint8_t)flags;
  for (unsigned i = buf_len; i < 64; i++) s->buf[i] = 0;
  return s;
}
static blake3_hasher *mk_hasher(unsigned buf_len, unsigned bc, uint64_t ctr, unsigned flags, unsigned stack_len) {
  blake3_hasher *h = xalloc(sizeof *h);
  blake3_chunk_state *s = mk_cs(buf_len, bc, ctr, flags);
  h->chunk = *s; free(s);
  h->cv_stack_len = (uint8_t)stack_len;
  return h;
}
static output_t *mk_output(unsigned block_len, unsigned flags, uint64_t counter) {
  output_t *o = xalloc(sizeof *o);
  o->block_len = (uint8_t)block_len; o->flags = (uint8_t)flags; o->counter = counter;
  return o;
}
'''

_CS = "{buf_len}u, {blocks_compressed}u, {chunk_counter}ull, {chunk_flags}u"
_HS = _CS + ", {cv_stack_len}u"
_OUT = "{block_len}u, {out_flags}u, {out_counter}ull"

# function -> (sizes that must be allocatable, C body of main).  {name} = counterexample value (0 if absent)
_REPLAY = {
    "highest_one": ([], "uint64_t x = {x}ull; unsigned r = highest_one(x); CHECK(r < 64 && (x >> r) == 1);"),
    "popcnt": ([], "uint64_t x = {x}ull; unsigned r = popcnt(x), n = 0; for (int i = 0; i < 64; i++) n += (x >> i) & 1; CHECK(r == n);"),
    "round_down_to_power_of_2": ([], "uint64_t x = {x}ull; uint64_t r = round_down_to_power_of_2(x); CHECK(r != 0 && (r & (r - 1)) == 0); CHECK(IMPLIES(x == 0, r == 1)); CHECK(IMPLIES(x != 0, r <= x && (x >> 1) < r));"),
    "left_subtree_len": ([], "size_t n = {input_len}ull; size_t r = left_subtree_len(n); CHECK(r % 1024 == 0 && r != 0 && ((r / 1024) & (r / 1024 - 1)) == 0); CHECK(r < n); CHECK(n - r <= r);"),
    "chunk_state_len": ([], "blake3_chunk_state *s = mk_cs(" + _CS + "); CHECK(chunk_state_len(s) == CS_LEN(s));"),
    "chunk_state_maybe_start_flag": ([], "blake3_chunk_state *s = mk_cs(" + _CS + "); CHECK(chunk_state_maybe_start_flag(s) == (s->blocks_compressed == 0 ? CHUNK_START : 0));"),
    "chunk_state_output": ([], "blake3_chunk_state *s = mk_cs(" + _CS + "); output_t o = chunk_state_output(s);"
                           " CHECK(o.flags == (uint8_t)(s->flags | (s->blocks_compressed == 0 ? CHUNK_START : 0) | CHUNK_END));"
                           " CHECK(o.counter == s->chunk_counter); CHECK(o.block_len == s->buf_len);"
                           " CHECK(memcmp(o.block, s->buf, 64) == 0); CHECK(memcmp(o.input_cv, s->cv, 32) == 0);"),
    "parent_output": ([], "uint8_t *block = xalloc(64); uint32_t *key = xalloc(32); output_t o = parent_output(block, key, {flags}u);"
                      " CHECK(o.flags == (uint8_t)({flags}u | PARENT)); CHECK(o.counter == 0); CHECK(o.block_len == 64);"
                      " CHECK(memcmp(o.block, block, 64) == 0); CHECK(memcmp(o.input_cv, key, 32) == 0);"),
    "make_output": ([], "uint8_t *block = xalloc(64); uint32_t *cv = xalloc(32); output_t o = make_output(cv, block, {block_len}u, {counter}ull, {flags}u);"
                    " CHECK(o.flags == (uint8_t){flags}u && o.counter == {counter}ull && o.block_len == (uint8_t){block_len}u);"
                    " CHECK(memcmp(o.block, block, 64) == 0); CHECK(memcmp(o.input_cv, cv, 32) == 0);"),
    "chunk_state_init": ([], "blake3_chunk_state *s = xalloc(sizeof *s); uint32_t *key = xalloc(32); chunk_state_init(s, key, {flags}u);"
                         " CHECK(memcmp(s->cv, key, 32) == 0 && s->chunk_counter == 0 && s->buf_len == 0 && s->blocks_compressed == 0 && s->flags == (uint8_t){flags}u);"
                         " for (int i = 0; i < 64; i++) CHECK(s->buf[i] == 0);"),
    "chunk_state_reset": ([], "blake3_hasher *h = mk_hasher(" + _CS + ", 0); uint8_t fl = h->chunk.flags; chunk_state_reset(&h->chunk, h->key, {chunk_counter}ull);"
                          " CHECK(memcmp(h->chunk.cv, h->key, 32) == 0 && h->chunk.buf_len == 0 && h->chunk.blocks_compressed == 0 && h->chunk.flags == fl);"
                          " for (int i = 0; i < 64; i++) CHECK(h->chunk.buf[i] == 0);"),
    "chunk_state_fill_buf": (["input_len"],
                             "blake3_chunk_state *s = mk_cs(" + _CS + "); size_t n = {input_len}ull; uint8_t *in = xalloc(n);"
                             " blake3_chunk_state before = *s; size_t take = chunk_state_fill_buf(s, in, n);"
                             " size_t want = n < (size_t)(64 - before.buf_len) ? n : (size_t)(64 - before.buf_len);"
                             " CHECK(take == want); CHECK((size_t)s->buf_len == (size_t)before.buf_len + take);"
                             " for (size_t i = 0; i < 64; i++) CHECK(s->buf[i] == ((i >= before.buf_len && i < (size_t)before.buf_len + take) ? in[i - before.buf_len] : before.buf[i]));"
                             " CHECK(memcmp(s->cv, before.cv, 32) == 0 && s->chunk_counter == before.chunk_counter && s->blocks_compressed == before.blocks_compressed && s->flags == before.flags);"),
    "chunk_state_update": (["input_len"],
                           "blake3_chunk_state *s = mk_cs(" + _CS + "); size_t n = {input_len}ull; uint8_t *in = xalloc(n);"
                           " size_t before = CS_LEN(s); uint64_t ctr = s->chunk_counter; uint8_t fl = s->flags; chunk_state_update(s, in, n);"
                           " CHECK(CS_LEN(s) == before + n); CHECK(CS_WF(s)); CHECK(IMPLIES(n > 0, s->buf_len > 0)); CHECK(s->chunk_counter == ctr && s->flags == fl);"),
    "output_chaining_value": ([], "output_t *o = mk_output(" + _OUT + "); uint8_t *cv = xalloc(32); output_chaining_value(o, cv);"),
    "output_root_bytes": (["out_len"], "output_t *o = mk_output(" + _OUT + "); size_t n = {out_len}ull; uint8_t *out = xalloc(n); output_t before = *o;"
                          " output_root_bytes(o, {seek}ull, out, n); CHECK(memcmp(o, &before, sizeof before) == 0);"),
    "compress_chunks_parallel": (["input_len"], "size_t n = {input_len}ull; uint8_t *in = xalloc(n); uint32_t *key = xalloc(32); uint8_t *out = xalloc(32 * ((n + 1023) / 1024));"
                                 " size_t r = compress_chunks_parallel(in, n, key, {chunk_counter}ull, {flags}u, out); CHECK(r == (n + 1023) / 1024);"),
    "compress_parents_parallel": ([], "size_t n = {num_chaining_values}ull; uint8_t *in = xalloc(32 * n); uint32_t *key = xalloc(32); uint8_t *out = xalloc(32 * ((n + 1) / 2));"
                                  " size_t r = compress_parents_parallel(in, n, key, {flags}u, out); CHECK(r == (n + 1) / 2);"),
    "blake3_compress_subtree_wide": (["input_len"], "size_t n = {input_len}ull; uint8_t *in = xalloc(n); uint32_t *key = xalloc(32); uint8_t *out = xalloc(32 * MAX_SIMD_DEGREE_OR_2);"
                                     " size_t r = blake3_compress_subtree_wide(in, n, key, {chunk_counter}ull, {flags}u, out, 0);"
                                     " CHECK(1 <= r && r <= MAX_SIMD_DEGREE_OR_2); CHECK(IMPLIES(n <= 1024, r == 1)); CHECK(IMPLIES(n > 1024, r >= 2));"),
    "compress_subtree_to_parent_node": (["input_len"], "size_t n = {input_len}ull; uint8_t *in = xalloc(n); uint32_t *key = xalloc(32); uint8_t *out = xalloc(64);"
                                        " compress_subtree_to_parent_node(in, n, key, {chunk_counter}ull, {flags}u, out, 0);"),
    "hasher_init_base": ([], "blake3_hasher *h = xalloc(sizeof *h); uint32_t *key = xalloc(32); hasher_init_base(h, key, {flags}u);"
                         " CHECK(memcmp(h->key, key, 32) == 0 && memcmp(h->chunk.cv, key, 32) == 0 && h->chunk.flags == (uint8_t){flags}u && h->cv_stack_len == 0); CHECK(HASHER_WF(h));"),
    "blake3_hasher_init": ([], "blake3_hasher *h = xalloc(sizeof *h); blake3_hasher_init(h); CHECK(memcmp(h->key, IV, 32) == 0 && h->chunk.flags == 0 && h->cv_stack_len == 0); CHECK(HASHER_WF(h));"),
    "blake3_hasher_init_keyed": ([], "blake3_hasher *h = xalloc(sizeof *h); uint8_t *key = xalloc(32); blake3_hasher_init_keyed(h, key);"
                                 " CHECK(h->chunk.flags == KEYED_HASH && h->cv_stack_len == 0); CHECK(HASHER_WF(h)); for (int i = 0; i < 8; i++) CHECK(h->key[i] == load32(key + 4 * i));"),
    "blake3_hasher_init_derive_key_raw": (["context_len"], "blake3_hasher *h = xalloc(sizeof *h); size_t n = {context_len}ull; uint8_t *c = xalloc(n); blake3_hasher_init_derive_key_raw(h, c, n);"
                                          " CHECK(h->chunk.flags == DERIVE_KEY_MATERIAL && h->cv_stack_len == 0); CHECK(HASHER_WF(h));"),
    "blake3_hasher_init_derive_key": (["n"], "blake3_hasher *h = xalloc(sizeof *h); size_t n = {n}ull; char *c = xalloc(n + 1); for (size_t i = 0; i < n; i++) c[i] = 'a'; c[n] = 0;"
                                      " blake3_hasher_init_derive_key(h, c); CHECK(h->chunk.flags == DERIVE_KEY_MATERIAL && h->cv_stack_len == 0); CHECK(HASHER_WF(h));"),
    "hasher_merge_cv_stack": ([], "blake3_hasher *h = mk_hasher(" + _HS + "); uint64_t t = {total_len}ull; size_t before = h->cv_stack_len; blake3_chunk_state cs = h->chunk; hasher_merge_cv_stack(h, t);"
                              " CHECK((size_t)h->cv_stack_len == (before > POPCNT(t) ? POPCNT(t) : before)); CHECK(memcmp(&cs, &h->chunk, sizeof cs) == 0);"),
    "hasher_push_cv": ([], "blake3_hasher *h = mk_hasher(" + _HS + "); uint64_t t = {chunk_counter_arg}ull; size_t before = h->cv_stack_len; uint8_t *cv = xalloc(32); hasher_push_cv(h, cv, t);"
                       " CHECK((size_t)h->cv_stack_len == (before > POPCNT(t) ? POPCNT(t) : before) + 1);"),
    "blake3_hasher_update": (["input_len"], "blake3_hasher *h = mk_hasher(" + _HS + "); size_t n = {input_len}ull; uint8_t *in = xalloc(n);"
                             " uint64_t before = H_T(h) * 1024 + CS_LEN(&h->chunk); uint32_t key[8]; memcpy(key, h->key, 32); uint8_t fl = h->chunk.flags; blake3_hasher snap = *h;"
                             " blake3_hasher_update(h, in, n); CHECK(HASHER_WF(h)); CHECK(H_T(h) * 1024 + CS_LEN(&h->chunk) == before + n);"
                             " CHECK(memcmp(key, h->key, 32) == 0 && h->chunk.flags == fl); CHECK(IMPLIES(n == 0, memcmp(&snap, h, sizeof snap) == 0));"),
    "blake3_hasher_finalize_seek": (["out_len"], "blake3_hasher *h = mk_hasher(" + _HS + "); size_t n = {out_len}ull; uint8_t *out = xalloc(n); blake3_hasher snap = *h;"
                                    " blake3_hasher_finalize_seek(h, {seek}ull, out, n); CHECK(memcmp(&snap, h, sizeof snap) == 0);"),
    "blake3_hasher_finalize": (["out_len"], "blake3_hasher *h = mk_hasher(" + _HS + "); size_t n = {out_len}ull; uint8_t *out = xalloc(n); blake3_hasher snap = *h;"
                               " blake3_hasher_finalize(h, out, n); CHECK(memcmp(&snap, h, sizeof snap) == 0);"),
    "blake3_hasher_reset": ([], "blake3_hasher *h = mk_hasher(" + _HS + "); uint32_t key[8]; memcpy(key, h->key, 32); uint8_t fl = h->chunk.flags; blake3_hasher_reset(h);"
                            " CHECK(memcmp(key, h->key, 32) == 0 && memcmp(h->chunk.cv, key, 32) == 0 && h->chunk.flags == fl);"
                            " CHECK(h->chunk.chunk_counter == 0 && h->chunk.buf_len == 0 && h->chunk.blocks_compressed == 0 && h->cv_stack_len == 0);"
                            " for (int i = 0; i < 64; i++) CHECK(h->chunk.buf[i] == 0); CHECK(HASHER_WF(h));"),
    "blake3_xof_many": (["outblocks64"], "output_t *o = mk_output({block_len}u, {flags}u, {counter}ull); size_t n = {outblocks}ull; uint8_t *out = xalloc(64 * n);"
                        " blake3_xof_many(o->input_cv, o->block, o->block_len, o->counter, o->flags, out, n);"),
    "blake3_compress_in_place": ([], "uint32_t *cv = xalloc(32); uint8_t *block = xalloc(64); blake3_compress_in_place(cv, block, {block_len}u, {counter}ull, {flags}u);"),
    "blake3_compress_in_place_portable": ([], "uint32_t *cv = xalloc(32); uint8_t *block = xalloc(64); blake3_compress_in_place_portable(cv, block, {block_len}u, {counter}ull, {flags}u);"),
    "blake3_compress_xof": ([], "uint32_t *cv = xalloc(32); uint8_t *block = xalloc(64); uint8_t *out = xalloc(64); blake3_compress_xof(cv, block, {block_len}u, {counter}ull, {flags}u, out);"),
    "blake3_compress_xof_portable": ([], "uint32_t *cv = xalloc(32); uint8_t *block = xalloc(64); uint8_t *out = xalloc(64); blake3_compress_xof_portable(cv, block, {block_len}u, {counter}ull, {flags}u, out);"),
    "hash_one_portable": (["blocks64"], "size_t b = {blocks}ull; uint8_t *in = xalloc(64 * b); uint32_t *key = xalloc(32); uint8_t *out = xalloc(32);"
                          " hash_one_portable(in, b, key, {counter}ull, {flags}u, {flags_start}u, {flags_end}u, out);"),
    "blake3_hash_many": (["rows"], "size_t n = {num_inputs}ull, b = {blocks}ull; const uint8_t *rows[16]; for (size_t i = 0; i < n && i < 16; i++) rows[i] = xalloc(64 * b);"
                         " uint32_t *key = xalloc(32); uint8_t *out = xalloc(32 * n); blake3_hash_many(rows, n, b, key, {counter}ull, {increment_counter}, {flags}u, {flags_start}u, {flags_end}u, out);"),
    "blake3_hash_many_portable": (["rows"], "size_t n = {num_inputs}ull, b = {blocks}ull; const uint8_t *rows[16]; for (size_t i = 0; i < n && i < 16; i++) rows[i] = xalloc(64 * b);"
                                  " uint32_t *key = xalloc(32); uint8_t *out = xalloc(32 * n); blake3_hash_many_portable(rows, n, b, key, {counter}ull, {increment_counter}, {flags}u, {flags_start}u, {flags_end}u, out);"),
}
_REPLAY["blake3_hasher_update_base"] = (_REPLAY["blake3_hasher_update"][0],
                                        _REPLAY["blake3_hasher_update"][1].replace("blake3_hasher_update(h, in, n)", "blake3_hasher_update_base(h, in, n, 0)"))


class _Zero(dict):
    def __missing__(self, k):
        return 0


def _replay_need(sizes, vals):
    need = 0
    for s in sizes:
        if s == "outblocks64":
            need = max(need, 64 * vals["outblocks"])
        elif s == "blocks64":
            need = max(need, 64 * vals["blocks"])
        elif s == "rows":
            need = max(need, 64 * vals["blocks"] * max(1, vals["num_inputs"]))
        else:
            need = max(need, vals[s])
    return need


_SIZE_FIELDS = {"outblocks64": ["outblocks"], "blocks64": ["blocks"], "rows": ["blocks"]}


def replay(failed, repo=None):
    """Re-run the counterexample of a failed obligation on the real C sources under
    AddressSanitizer + UBSan.  Returns {"reproduced", "driver", "output"} or None when the
    obligation carries no usable inputs / the function has no replay recipe.  cbmc is free to
    pick astronomically large lengths; when a buffer of the reported size cannot be allocated the
    same driver is tried with a few small lengths instead (a reproduction with other arguments is
    still a real violation; the values used are reported as "inputs_used")."""
    repo = repo or common.REPO
    inputs = failed.get("inputs")
    func = failed.get("unit_function") or failed.get("function")
    if not inputs or func not in _REPLAY:
        return None
    sizes, body = _REPLAY[func]
    base = _Zero({k: int(v) for k, v in inputs.items() if isinstance(v, int)})
    candidates = []
    if _replay_need(sizes, base) <= REPLAY_MAX_ALLOC:
        candidates.append(base)
    else:
        fields = sum([_SIZE_FIELDS.get(s, [s]) for s in sizes], [])
        for small in ("mod", 1, 64, 65, 1025, 4097, 70000):
            v = _Zero(base)
            for f in fields:
                if base[f] > 4096:
                    v[f] = (base[f] % 4096 + 1) if small == "mod" else small
            if _replay_need(sizes, v) <= REPLAY_MAX_ALLOC and v not in candidates:
                candidates.append(v)
    scratch = common.scratch_dir("cbmc_replay")
    last = None
    try:
        for n, vals in enumerate(candidates[:7]):
            driver = _DRIVER_PRELUDE + "int main(void) {\n  " + body.format_map(vals).replace("; ", ";\n  ") + \
                "\n  puts(\"REPLAY: no violation observed\");\n  return 0;\n}\n"
            src = os.path.join(scratch, "driver%d.c" % n)
            exe = os.path.join(scratch, "driver%d" % n)
            common.write(src, driver)
            cmd = ["clang", "-g", "-O1", "-fsanitize=address,undefined", "-fno-sanitize-recover=all"] + PORTABLE_DEFS + \
                  ["-I" + os.path.join(repo, "c"), "-Wno-everything", src, "-o", exe]
            rc, out, err, _ = common.run(cmd, timeout=180, mem_gb=None)
            if rc != 0:
                return {"reproduced": False, "driver": driver, "output": "driver did not compile: " + (err + out)[-1500:]}
            rc, out, err, _ = common.run([exe], timeout=120, mem_gb=None,
                                         env={"ASAN_OPTIONS": "detect_leaks=0:abort_on_error=0",
                                              "UBSAN_OPTIONS": "print_stacktrace=1"})
            text = (out + err).replace(scratch, "<scratch>")
            # rc -9 = OUR wall-clock limit (loaded machine): not a reproduction
            last = {"reproduced": rc not in (0, -9), "driver": driver, "output": text[-3000:],
                    "cmd": _fmt(cmd).replace(scratch, "<scratch>"),
                    "inputs_used": {k: vals[k] for k in inputs if isinstance(inputs[k], int)}}
            if rc not in (0, -9):
                return last
        if last is None:
            return {"reproduced": False, "driver": None,
                    "output": "not replayed: the counterexample needs a %d-byte buffer (> %d)" % (
                        _replay_need(sizes, base), REPLAY_MAX_ALLOC)}
        return last
    finally:
        common.rm_rf(scratch)


# --------------------------------------------------------------------------------------------
# unit table
# --------------------------------------------------------------------------------------------

def _register():
    U = UNITS
    H = "blake3_impl.h"
    D = "blake3_dispatch.c"
    P = "blake3_portable.c"
    API = ["C07", "C18"]
    LEAF = ["make_output", "chunk_state_maybe_start_flag", "chunk_state_len", "chunk_state_output",
            "parent_output", "chunk_state_init", "chunk_state_reset", "store_cv_words", "load_key_words",
            "load32", "store32", "popcnt"]

    # ---- blake3_impl.h integer / byte helpers: exact over the machine domain ---------------
    U["highest_one"] = _u("highest_one", ["C06", "C07"], file=H,
                          doc="x != 0: r < 64 and x >> r == 1 (index of the highest set bit), every x")
    U["popcnt"] = _u("popcnt", ["C06", "C07"], file=H,
                     doc="popcnt(x) == sum of the 64 bits of x (and == the builtin the contracts use), every x")
    U["round_down_to_power_of_2"] = _u(
        "round_down_to_power_of_2", ["C06", "C07"], file=H, replace=["highest_one"],
        doc="r power of two, r <= x < 2r (x > 0), r == 1 for x == 0, every x")
    U["left_subtree_len"] = _u(
        "left_subtree_len", ["C06", "C07"], replace=["round_down_to_power_of_2"],
        doc="input_len > 1024: r = 1024*2^k, r < input_len <= 2r, every size_t")
    U["load32"] = _u("load32", ["C07"], file=H, doc="reads exactly 4 bytes, little endian")
    U["store32"] = _u("store32", ["C07"], file=H, doc="writes exactly 4 bytes, little endian")
    U["load_key_words"] = _u("load_key_words", ["C07"], file=H, inlined=["load32"],
                             doc="reads 32 bytes, writes the 8 words, little endian")
    U["store_cv_words"] = _u("store_cv_words", ["C07"], file=H, inlined=["store32"],
                             doc="writes exactly 32 bytes, little endian")

    # ---- blake3_portable.c ------------------------------------------------------------------
    U["compress_pre"] = _u(
        "compress_pre", ["C07"], file=P,
        inlined=["round_fn", "g", "rotr32", "load32", "counter_low", "counter_high"],
        doc="the 7 rounds: reads cv[8], block[64]; writes exactly state[0..16); every block_len/counter/flags; loop-free")
    U["blake3_compress_in_place_portable"] = _u(
        "blake3_compress_in_place_portable", ["C07"], file=P,
        inlined=["compress_pre", "round_fn", "g", "rotr32", "load32", "counter_low", "counter_high"],
        doc="reads cv[8], block[64]; writes exactly cv[0..8); every block_len/counter/flags; loop-free")
    U["blake3_compress_xof_portable"] = _u(
        "blake3_compress_xof_portable", ["C07"], file=P,
        inlined=["compress_pre", "round_fn", "g", "rotr32", "load32", "store32", "counter_low", "counter_high"],
        doc="reads cv[8], block[64]; writes exactly out[0..64); loop-free")
    U["hash_one_portable"] = _u(
        "hash_one_portable", ["C07"], file=P, replace=["blake3_compress_in_place_portable"],
        inlined=["store_cv_words"], loops=[(P, "hash_one_portable", 0)],
        doc="reads input[0..64*blocks), key; writes exactly out[0..32); unbounded blocks (loop contract)")
    U["blake3_hash_many_portable"] = _u(
        "blake3_hash_many_portable", ["C07"], file=P, replace=["hash_one_portable"], unwind=17,
        bounded=["unwind 17: num_inputs <= 16 = MAX_SIMD_DEGREE by the contract's requires (row validity cannot "
                 "be quantified; every caller in blake3.c is checked against this bound); unwinding assertions "
                 "pass; blocks is unbounded"],
        doc="<= 16 rows of 64*blocks bytes; writes exactly out[0..32*num_inputs)")

    U["compress_spec_vector"] = _u(
        "blake3_compress_xof_portable", ["C06"], file=P, harness="compress_spec_vector", enforce=False, unwind=65,
        bounded=["unwind 65: only the constant-trip-count loops (<= 64) of the spec and of the harness; the C kernel is loop-free"],
        inlined=["compress_pre", "round_fn", "g", "rotr32", "load32", "store32"],
        doc="concrete: the paper-style spec (verif/cbmc/compress_spec.h) and the C portable kernel both reproduce "
            "the official vectors for input_len 0 and 64 (one compression each)")
    U["compress_spec_equiv"] = _u(
        "blake3_compress_in_place_portable", ["C06"], file=P, harness="compress_spec_equiv", enforce=False, unwind=17,
        bounded=["unwind 17: only the constant-trip-count loops (<= 16) of the spec and of the harness; the C kernel is loop-free"],
        tier="thorough", timeout=2400, mem_gb=32, solver="external", extra_cbmc=["--external-sat-solver", "kissat"],
        inlined=["blake3_compress_xof_portable", "compress_pre", "round_fn", "g", "rotr32", "load32", "store32"],
        extra_trust=["verif/cbmc/compress_spec.h is a faithful transcription of the BLAKE3 paper's compression "
                     "function (checked on the official empty-input vector by unit compress_spec_vector)",
                     "kissat (external SAT solver) answers UNSAT correctly"],
        doc="blake3_compress_in_place_portable and blake3_compress_xof_portable == the paper's compression function "
            "for ALL cv, block, block_len, counter, flags (kissat, ~15 min)")

    # ---- blake3_dispatch.c: full x86 dispatch, SIMD kernels = assumed frame contracts ---------
    U["get_cpu_features"] = _u(
        "get_cpu_features", ["C18", "C07"], file=D, config="dispatch",
        inlined=["cpuid", "cpuidex", "xgetbv"],
        extra_trust=["inline asm (cpuid, xgetbv) is a nondeterministic assignment to its output operands "
                     "(CBMC's asm model): the proof holds for every CPU"],
        doc="only g_cpu_features is written; a defined cache is returned unchanged (idempotent); a stored "
            "value is the returned one and has feature bits only")
    U["blake3_simd_degree"] = _u(
        "blake3_simd_degree", ["C07", "C18"], file=D, config="dispatch", replace=["get_cpu_features"],
        doc="result in {1,4,8,16}, a function of the feature cache only")
    U["blake3_compress_in_place"] = _u(
        "blake3_compress_in_place", ["C07", "C18"], file=D, config="dispatch",
        replace=["get_cpu_features", "blake3_compress_in_place_portable"] + SIMD_IN_PLACE,
        doc="every dispatch path writes exactly cv[0..8) and the feature cache")
    U["blake3_compress_xof"] = _u(
        "blake3_compress_xof", ["C07", "C18"], file=D, config="dispatch",
        replace=["get_cpu_features", "blake3_compress_xof_portable"] + SIMD_XOF,
        doc="every dispatch path writes exactly out[0..64) and the feature cache")
    U["blake3_xof_many"] = _u(
        "blake3_xof_many", ["C07", "C18"], file=D, config="dispatch",
        replace=["get_cpu_features", "blake3_compress_xof"] + SIMD_XOF_MANY,
        loops=[(D, "blake3_xof_many", 0)],
        doc="exactly 64 bytes per XOF block: out[0..64*outblocks), unbounded outblocks (loop contract); "
            "outblocks == 0 writes nothing; the avx512 asm is only called with outblocks >= 1")
    U["blake3_hash_many"] = _u(
        "blake3_hash_many", ["C07", "C18"], file=D, config="dispatch", unwind=17,
        replace=["get_cpu_features", "blake3_hash_many_portable"] + SIMD_HASH_MANY,
        bounded=["unwind 17 only for the harness loop that allocates the <= 16 input rows; the function is loop-free"],
        doc="exactly 32 bytes per hashed input: out[0..32*num_inputs) on every dispatch path")

    U["static_objects"] = _u(
        "blake3_version", ["C18"], config="dispatch", enforce=False,
        doc="structural: the only non-const object with static storage duration in the three C files is the "
            "g_cpu_features cache (also catches function-local static scratch buffers, which DFCC tolerates)")
    U["static_objects"]["kind"] = "static_objects"

    # ---- blake3.c: chunk state -------------------------------------------------------------
    U["blake3_version"] = _u("blake3_version", API, doc="assigns nothing, returns a readable string")
    U["chunk_state_init"] = _u("chunk_state_init", ["C06", "C07"],
                               doc="cv == key, counter 0, buf zeroed, buf_len == blocks_compressed == 0, flags set")
    U["chunk_state_reset"] = _u("chunk_state_reset", ["C06", "C07"],
                                doc="as init with the given counter; flags not written; key may alias the hasher")
    U["chunk_state_len"] = _u("chunk_state_len", ["C06", "C07"], doc="== 64*blocks_compressed + buf_len, assigns nothing")
    U["chunk_state_fill_buf"] = _u(
        "chunk_state_fill_buf", ["C07", "C06"],
        doc="take == min(64-buf_len, input_len); writes only buf and buf_len; buf_len grows by take; any input_len")
    U["chunk_state_fill_buf_bytes"] = _u(
        "chunk_state_fill_buf", ["C06"], harness="chunk_state_fill_buf", defs=["-DVERIF_EXACT_BYTES"],
        tier="thorough",
        doc="additionally: the appended bytes are input[0..take), all other buffer bytes unchanged")
    U["chunk_state_maybe_start_flag"] = _u("chunk_state_maybe_start_flag", ["C06", "C07"],
                                           doc="CHUNK_START iff blocks_compressed == 0")
    U["make_output"] = _u("make_output", ["C06", "C07"],
                          doc="all five fields copied exactly (cv words, 64 block bytes, block_len, counter, flags)")
    U["chunk_state_output"] = _u(
        "chunk_state_output", ["C06", "C07"], inlined=["make_output", "chunk_state_maybe_start_flag"],
        doc="flags | CHUNK_START? | CHUNK_END, the chunk's counter, block_len = buf_len, whole buffer, cv")
    U["parent_output"] = _u("parent_output", ["C06", "C07"], inlined=["make_output"],
                            doc="flags | PARENT, counter 0, block_len 64, block and key copied")
    U["output_chaining_value"] = _u(
        "output_chaining_value", ["C07"], replace=["blake3_compress_in_place"], inlined=["store_cv_words", "store32"],
        doc="writes exactly cv[0..32) (+ feature cache); block_len <= 64 passed on")
    U["output_root_bytes"] = _u(
        "output_root_bytes", ["C07"], solver="cadical", replace=["blake3_compress_xof", "blake3_xof_many"],
        doc="writes exactly out[0..out_len) for every seek and out_len (unbounded); nothing for out_len == 0")
    U["chunk_state_update"] = _u(
        "chunk_state_update", ["C07", "C06"], replace=["chunk_state_fill_buf", "blake3_compress_in_place"],
        inlined=["chunk_state_maybe_start_flag"], loops=[("blake3.c", "chunk_state_update", 0)],
        doc="within one chunk: len grows by exactly input_len; input_len > 0 ==> buf_len > 0 (lazy last block); "
            "writes only cv, buf, buf_len, blocks_compressed")

    # ---- blake3.c: subtrees ------------------------------------------------------------------
    U["compress_chunks_parallel"] = _u(
        "compress_chunks_parallel", ["C07"], unwind=17,
        replace=["blake3_hash_many", "chunk_state_update", "output_chaining_value"],
        inlined=["chunk_state_init", "chunk_state_output", "make_output", "chunk_state_maybe_start_flag"],
        bounded=["unwind 17: at most MAX_SIMD_DEGREE = 16 whole chunks by the requires clause "
                 "(input_len <= 16*1024); unwinding assertion passes"],
        doc="0 < input_len <= 16 KiB: exactly 32 bytes per chunk written, returns ceil(len/1024); the "
            "hash_many rows lie inside input")
    U["compress_parents_parallel"] = _u(
        "compress_parents_parallel", ["C07"], unwind=17, replace=["blake3_hash_many"],
        bounded=["unwind 17: at most MAX_SIMD_DEGREE_OR_2 = 16 parents by the requires clause "
                 "(num_chaining_values <= 32); unwinding assertion passes"],
        doc="2 <= n <= 32 CVs: exactly 32*ceil(n/2) bytes written, returns ceil(n/2)")
    U["blake3_compress_subtree_wide"] = _u(
        "blake3_compress_subtree_wide", ["C07"], rec=True,
        replace=["blake3_simd_degree", "compress_chunks_parallel", "left_subtree_len", "compress_parents_parallel"],
        doc="recursive (--enforce-contract-rec), unbounded input_len: writes only out[0..512) ; 1 <= n <= 16, "
            "n == 1 iff a single chunk; both recursive calls and the parent layer stay inside cv_array")
    U["blake3_compress_subtree_wide_tbb"] = _u(
        "blake3_compress_subtree_wide", ["C07", "C08"], harness="blake3_compress_subtree_wide", defs=["-DBLAKE3_USE_TBB"],
        replace=["blake3_simd_degree", "compress_chunks_parallel", "left_subtree_len", "compress_parents_parallel",
                 "blake3_compress_subtree_wide_join_tbb"],
        extra_trust=["blake3_tbb.cpp (C++/oneTBB) is not analysed: blake3_compress_subtree_wide_join_tbb is replaced by "
                     "an assumed frame+shape contract (writes only its two CV windows and the two counts)"],
        doc="-DBLAKE3_USE_TBB build of the same function: the arguments passed to the oneTBB join seam satisfy its "
            "contract (two 512-byte windows inside cv_array) and the C side is safe given the seam's frame")
    U["compress_subtree_to_parent_node"] = _u(
        "compress_subtree_to_parent_node", ["C07"], unwind=5,
        replace=["blake3_compress_subtree_wide", "compress_parents_parallel"],
        bounded=["unwind 5: num_cvs <= 16 halves each round (16, 8, 4, 2): at most 3 iterations; unwinding assertion passes"],
        doc="input_len > 1024 unbounded: writes exactly out[0..64); the assert(num_cvs <= 16) holds")

    # ---- blake3.c: hasher ----------------------------------------------------------------------
    U["hasher_init_base"] = _u(
        "hasher_init_base", ["C06", "C07"], inlined=["chunk_state_init"],
        doc="key, chunk state and cv_stack_len set (whole struct except the dead stack bytes); HASHER_WF holds")
    U["blake3_hasher_init"] = _u("blake3_hasher_init", API + ["C06"], replace=["hasher_init_base"],
                                 doc="== hasher_init_base(IV, 0); writes only *self")
    U["blake3_hasher_init_keyed"] = _u(
        "blake3_hasher_init_keyed", API + ["C06"], replace=["hasher_init_base"], inlined=["load_key_words", "load32"],
        doc="key words = little-endian key bytes, flags KEYED_HASH; writes only *self")
    U["blake3_hasher_init_derive_key_raw"] = _u(
        "blake3_hasher_init_derive_key_raw", API + ["C06"],
        replace=["hasher_init_base", "blake3_hasher_update", "blake3_hasher_finalize"],
        inlined=["load_key_words", "load32"],
        doc="any context_len: writes only *self (+ feature cache); result is a fresh DERIVE_KEY_MATERIAL hasher; "
            "the inner context hasher satisfies update/finalize's preconditions")
    U["blake3_hasher_init_derive_key"] = _u(
        "blake3_hasher_init_derive_key", API + ["C06"], defs=["-DVERIF_UNIT_DERIVE_KEY"],
        replace=["blake3_hasher_init_derive_key_raw", "strlen"],
        extra_trust=["strlen(s) returns the length of the NUL-terminated string s and reads only it (assumed contract)"],
        doc="== init_derive_key_raw(ctx, strlen(ctx)): the call's arguments are checked to be exactly those")
    U["hasher_merge_cv_stack"] = _u(
        "hasher_merge_cv_stack", ["C07", "C06"], replace=["output_chaining_value"], inlined=["parent_output", "make_output", "popcnt"],
        loops=[("blake3.c", "hasher_merge_cv_stack", 0)],
        doc="cv_stack_len' == popcnt(total) when it was larger, else unchanged; cv_stack_len-2 never wraps; "
            "writes only the stack and its length")
    U["hasher_push_cv"] = _u(
        "hasher_push_cv", ["C07", "C06"], replace=["hasher_merge_cv_stack"],
        doc="len' == min(len, popcnt(counter)) + 1 <= 55: the 32 new bytes land inside cv_stack")
    U["blake3_hasher_update_base"] = _u(
        "blake3_hasher_update_base", ["C07", "C06"], timeout=1800, solver="cadical",
        replace=["chunk_state_update", "output_chaining_value", "hasher_push_cv", "round_down_to_power_of_2",
                 "compress_subtree_to_parent_node", "hasher_merge_cv_stack"],
        inlined=["chunk_state_len", "chunk_state_output", "chunk_state_reset", "chunk_state_init", "make_output",
                 "chunk_state_maybe_start_flag"],
        loops=[("blake3.c", "blake3_hasher_update_base", 0)],
        pre_unwind=[("blake3.c", "blake3_hasher_update_base", 1, 52)],
        bounded=["unwind 52 for the shrink loop `while ((subtree_len - 1) & count_so_far)`: subtree_len is a power "
                 "of two <= input_len <= 2^50 (object-size limit) and the loop stops at 1024 = 2^10 at the latest, "
                 "i.e. <= 40 halvings; unwinding assertion passes. The outer loop has a loop contract (unbounded)."],
        doc="unbounded input_len (loop contracts): HASHER_WF preserved (stack never exceeds 55 entries), "
            "total bytes grow by exactly input_len, writes only chunk/stack/stack length, nothing for input_len == 0")
    U["blake3_hasher_update"] = _u(
        "blake3_hasher_update", API + ["C06"], replace=["blake3_hasher_update_base"],
        doc="same contract as update_base; update(_, _, 0) assigns nothing; key never written")
    U["blake3_hasher_update_tbb"] = _u(
        "blake3_hasher_update_tbb", API + ["C06"], defs=["-DBLAKE3_USE_TBB"], replace=["blake3_hasher_update_base"],
        doc="-DBLAKE3_USE_TBB build: same contract as blake3_hasher_update (use_tbb = true is passed on)")
    U["blake3_hasher_finalize_seek"] = _u(
        "blake3_hasher_finalize_seek", API + ["C06"], replace=["output_chaining_value", "output_root_bytes"],
        solver="cadical",
        inlined=["chunk_state_output", "parent_output", "make_output", "chunk_state_len", "chunk_state_maybe_start_flag"],
        loops=[("blake3.c", "blake3_hasher_finalize_seek", 0)],
        doc="assigns only out[0..out_len) (+ feature cache): the hasher is not written; out_len == 0 needs no "
            "valid pointer at all; every seek; cv_stack_len - 2 never wraps under HASHER_WF")
    U["blake3_hasher_finalize"] = _u(
        "blake3_hasher_finalize", API + ["C06"], replace=["blake3_hasher_finalize_seek"],
        doc="== finalize_seek(self, 0, out, out_len); same frame")
    U["blake3_hasher_reset"] = _u(
        "blake3_hasher_reset", API + ["C06"], inlined=["chunk_state_reset"],
        doc="every field equals hasher_init_base(self->key, self->chunk.flags); key and flags not written")

    _register_fn(U)


# --------------------------------------------------------------------------------------------
# units *_fn: one-level functional contracts over uninterpreted kernels (cbmc/spec_fn.h)
# --------------------------------------------------------------------------------------------
FN_TRUST = [
    "kernels are abstracted by uninterpreted functions (cbmc/spec_fn.h): each kernel family "
    "(compress_in_place, compress_xof/xof_many, hash_many) is a deterministic function of its value "
    "arguments, the same one for every ISA variant (portable: by definition; SSE2/SSE4.1/AVX2/AVX-512: "
    "assumed), and writes nothing but its output; NOT claimed: that this function is BLAKE3's",
    "CBMC's uninterpreted-function encoding (functional consistency constraints) is sound",
]


def _fn(base, doc, props=("C06",), **kw):
    """functional twin of unit `base`: same function, harness, callees and loop contracts, compiled
    with -DVERIF_FN (FN(...) clauses of contracts.h / loop_contracts.txt become active)"""
    b = UNITS[base]
    d = dict(b)
    d.update(props=list(props), doc=doc, harness=b["harness"] or base, defs=b["defs"] + ["-DVERIF_FN"],
             extra_trust=b["extra_trust"] + FN_TRUST, tier="quick")
    for k, v in kw.items():
        d[k] = v
    d["fn"] = True
    return d


def _register_fn(U):
    pre_doc = ("with compress_pre (the 7 rounds) as THE uninterpreted function PRE(cv, block, block_len, counter, flags) -> "
               "16 state words (lo = words 0..7, hi = words 8..15): ")
    U["blake3_compress_in_place_portable_fn"] = _fn(
        "blake3_compress_in_place_portable", pre_doc + "cv'[i] == lo[i] ^ hi[i] for all 8 words: the feed-forward, and all "
        "five arguments reach compress_pre unchanged", replace=["compress_pre"], inlined=[], solver="minisat2",
        defs=["-DVERIF_FN", "-DVERIF_FN_PORTABLE"])
    U["blake3_compress_xof_portable_fn"] = _fn(
        "blake3_compress_xof_portable", pre_doc + "out word i == lo[i] ^ hi[i], out word 8 + i == hi[i] ^ cv[i] (little "
        "endian), i < 8; cv and block are not written (frame)", replace=["compress_pre"], inlined=["store32"],
        solver="minisat2", defs=["-DVERIF_FN", "-DVERIF_FN_PORTABLE"])
    U["blake3_compress_in_place_fn"] = _fn(
        "blake3_compress_in_place",
        "every dispatch branch: cv' == UFcip(cv, block[0..64), block_len, counter, flags) -- all five "
        "arguments reach the selected kernel unchanged", solver="minisat2")
    U["blake3_compress_xof_fn"] = _fn(
        "blake3_compress_xof",
        "every dispatch branch: out[0..64) == UFxof(cv, block[0..64), block_len, counter, flags)", solver="cadical")
    U["blake3_xof_many_fn"] = _fn(
        "blake3_xof_many",
        "every byte: out[64 b + j] == UFxof(cv, block, block_len, counter + b, flags)[j] for every b < outblocks "
        "(unbounded; loop contract with the witness byte) on the avx512 and the fallback path", props=["C06", "C07"],
        solver="minisat2", tier="thorough", timeout=900)
    hm_doc = ("every dispatch branch, every output byte: out[32 i + j] == UFrow(inputs[i][0..64*blocks), key[0..8), counter "
              "(+ i iff increment_counter), flags, flags_start, flags_end, blocks)[j]: all ten arguments reach the selected "
              "kernel unchanged and in order")
    U["blake3_hash_many_fn"] = _fn(
        "blake3_hash_many", hm_doc + "; row contents for blocks <= 1 (parent nodes)", harness="blake3_hash_many_fn",
        defs=["-DVERIF_FN", "-DVERIF_HM_MAXBLOCKS=1"], solver="cadical", level="bounded",
        bounded=["the UF clause is stated (and the row bytes are tied) for blocks <= 1 only: 64-byte rows, the parent-node "
                 "use of hash_many; every scalar, the key and the pointer arguments are tied for these calls; "
                 "num_inputs <= 16 as in the base unit; unit blake3_hash_many_rows_fn covers blocks <= 16"])
    U["blake3_hash_many_rows_fn"] = _fn(
        "blake3_hash_many", hm_doc + "; row contents for blocks <= 16 (whole chunks)", harness="blake3_hash_many_fn",
        solver="cadical", tier="thorough", timeout=900, level="bounded",
        bounded=["blocks <= 16 (rows of at most 1024 bytes = one chunk; blake3.c passes 1 or 16): the UF clause of the "
                 "contract is stated for blocks <= 16 only; num_inputs <= 16 as in the base unit"])
    U["output_chaining_value_fn"] = _fn(
        "output_chaining_value",
        "cv[0..32) == little-endian words of UFcip(self->input_cv, self->block, self->block_len, self->counter, "
        "self->flags): ONE compression of exactly the node's five fields", solver="minisat2")
    U["output_root_bytes_fn"] = _fn(
        "output_root_bytes",
        "EVERY byte i < out_len (unbounded, every seek): out[i] == UFxof(node fields, flags | ROOT, block counter "
        "(seek+i)/64)[(seek+i)%64]: nothing requested is left unwritten, head / bulk / tail use the right counter "
        "and offset", props=["C06", "C07"])
    U["compress_parents_parallel_fn"] = _fn(
        "compress_parents_parallel",
        "every output byte: out[32 i ..] == UFrow(child[64 i .. 64 i + 64) = (CV 2i, CV 2i+1) in this order, key, counter 0 "
        "not incremented, flags | PARENT, no start/end flags, 1 block) for i < n/2; an odd last child is copied verbatim "
        "to slot n/2 (2 <= n <= 32 as in the base unit)", solver="minisat2", timeout=600)
    fin_bound = ["cv_stack_len <= 3: the closed form of the root node is stated for at most 3 stack entries and proved per "
                 "concrete (stack length, bytes pending?) case with the roll-up loop unwound (bound 4, unwinding assertion "
                 "passes); seek, out_len, every byte of the hasher state are unconstrained (HASHER_WF)"]
    fin_doc = ("every byte i < out_len, every seek: out[i] == UFxof(ROOT node, counter (seek+i)/64)[(seek+i)%64] where the root "
               "node is the closed-form fold of the stack with key, flags | PARENT, counter 0, block_len 64 (harness calls the "
               "function directly and asserts the contract's VFIN_POST; callees replaced by their contracts); cases: ")
    fin_kw = dict(props=["C06", "C07"], loops=[], pre_unwind=[("blake3.c", "blake3_hasher_finalize_seek", 0, 4)],
                  level="bounded", bounded=fin_bound, harness="blake3_hasher_finalize_seek_fn", enforce="callees")
    U["blake3_hasher_finalize_seek_fn"] = _fn(
        "blake3_hasher_finalize_seek",
        fin_doc + "no bytes pending in the chunk state: empty hasher (root = chunk node), 2 entries (root = parent(S0, S1)), "
        "3 entries (root = parent(S0, P(S1, S2))); and a first partial chunk alone (root = chunk node)",
        defs=["-DVERIF_FN", "-DVERIF_FIN_CASES=0x17"], **fin_kw)
    U["blake3_hasher_finalize_seek_pending_fn"] = _fn(
        "blake3_hasher_finalize_seek",
        fin_doc + "bytes pending in the chunk state and 1 stack entry (an input of 1..2 chunks): root = parent(S0, CV(chunk))",
        defs=["-DVERIF_FN", "-DVERIF_FIN_CASES=0x08"], tier="thorough", timeout=1500, **fin_kw)
    U["blake3_hasher_finalize_fn"] = _fn(
        "blake3_hasher_finalize",
        "== finalize_seek(self, 0, out, out_len) also functionally: same root-node clause with seek = 0 (<= 3 stack entries)",
        props=["C06", "C07"], level="bounded", bounded=fin_bound)


_register()

if __name__ == "__main__":
    import argparse
    ap = argparse.ArgumentParser()
    ap.add_argument("units", nargs="*")
    ap.add_argument("--list", action="store_true")
    ap.add_argument("--keep", action="store_true")
    ap.add_argument("--full", action="store_true")
    ap.add_argument("--json", action="store_true", help="one JSON UnitResult per line")
    ap.add_argument("--replay", action="store_true", help="replay every failed obligation under ASan/UBSan")
    ap.add_argument("-j", "--jobs", type=int, default=1)
    ap.add_argument("--tier", default="all", choices=["all", "quick", "thorough"])
    ap.add_argument("--sanity", action="store_true", help="vacuity self-test: every unit must FAIL only the VERIF_SANITY assertion")
    a = ap.parse_args()
    if a.list:
        for k, v in list_units().items():
            print("%-36s %-8s %-12s %s" % (k, v["tier"], ",".join(v["props"]), v["doc"]))
        sys.exit(0)
    from concurrent.futures import ThreadPoolExecutor
    names = a.units or [k for k, v in UNITS.items() if a.tier == "all" or v["tier"] == a.tier]
    with ThreadPoolExecutor(max_workers=a.jobs) as ex:
        futs = [(n, ex.submit(run_unit, n, keep=a.keep, sanity=a.sanity)) for n in names]
    for n, fu in futs:
        r = fu.result()
        if a.replay:
            for f in r["failed"]:
                f["replay"] = replay(f)
        if a.json:
            print(json.dumps(r))
            continue
        if a.full:
            print(json.dumps(r, indent=1))
        else:
            print("%-36s %-9s %4d/%-4d %6.1fs %s" % (n, r["status"], r["discharged"], r["obligations"],
                                                     r["seconds"], r["undecided_reason"] or ""))
            for f in r["failed"]:
                print("     FAIL %s %s @%s :: %s :: inputs=%s" % (f["kind"], f["function"], f["location"],
                                                                 f["clause"] or f["message"], f["inputs"]))
                if f.get("replay"):
                    print("          replay: reproduced=%s :: %s" % (
                        f["replay"]["reproduced"], f["replay"]["output"].strip().splitlines()[-1:] ))
