"""CBMC 6.11 function-contract back end (goto-cc + goto-instrument --dfcc + cbmc) for the
BLAKE3 C library (REPO/c/blake3.c, blake3_dispatch.c, blake3_portable.c).

    list_units() -> {name: {"props": [...], "tier": "quick"|"thorough", "doc": str}}
    run_unit(name, tier="quick") -> UnitResult (common.new_result)
    replay(failed, repo=None) -> {"reproduced": bool, "driver": str, "output": str} | None

One unit = one C function checked against its contract in /verif/cbmc/contracts.h.  The
translation unit that is verified is generated per run in a scratch directory:

    #include "/verif/cbmc/spec.h"            macros, ghost state, observers
    #include "<REPO>/c/blake3.c"             the repository text, verbatim -- or, for the few
    #include "<REPO>/c/blake3_dispatch.c"    units that need loop contracts, a scratch copy
    #include "<REPO>/c/blake3_portable.c"    into which ONLY the clauses of
    #include "/verif/cbmc/contracts.h"       /verif/cbmc/loop_contracts.txt were inserted
    #include "/verif/cbmc/harness/<unit>.c"  (on the loop's own line: line numbers are kept)

Callees are replaced by their contracts (--replace-call-with-contract); each of them is
enforced in its own unit.  Tiny leaf helpers (memcpy wrappers such as make_output) are
inlined into their callers and additionally have their own exact-postcondition unit.
"""
import json
import os
import re
import sys

sys.path.insert(0, os.path.dirname(os.path.abspath(__file__)))
import common  # noqa: E402

CBMC_DIR = os.path.join(common.VERIF, "cbmc")
SPEC_H = os.path.join(CBMC_DIR, "spec.h")
CONTRACTS_H = os.path.join(CBMC_DIR, "contracts.h")
LOOPS_TXT = os.path.join(CBMC_DIR, "loop_contracts.txt")
HARNESS_DIR = os.path.join(CBMC_DIR, "harness")

SOURCES = ["blake3.c", "blake3_dispatch.c", "blake3_portable.c"]
PORTABLE_DEFS = ["-DBLAKE3_NO_SSE2", "-DBLAKE3_NO_SSE41", "-DBLAKE3_NO_AVX2", "-DBLAKE3_NO_AVX512"]

CHECK_FLAGS = ["--pointer-check", "--bounds-check", "--pointer-overflow-check",
               "--signed-overflow-check", "--undefined-shift-check", "--div-by-zero-check",
               "--object-bits", "12"]

BASE_TRUST = [
    "CBMC 6.11 / DFCC (goto-cc front end, contract instrumentation, bit-precise SAT back end) is sound",
    "CBMC's built-in models of memcpy/memset/__builtin_clzll/__builtin_popcountll are faithful",
    "pointer model: --object-bits 12, hence every object (input, output) is < 2^50 bytes "
    "(VERIF_MAX_OBJ); lengths are otherwise unconstrained",
    "unsigned wrap-around and narrowing conversions are legal C and are not flagged "
    "(--unsigned-overflow-check / --conversion-check off); constrained only where a contract says so",
    "x86-64 data model of goto-cc (LP64, little endian, MAX_SIMD_DEGREE == 16)",
]

SIMD_IN_PLACE = ["blake3_compress_in_place_avx512", "blake3_compress_in_place_sse41",
                 "blake3_compress_in_place_sse2"]
SIMD_XOF = ["blake3_compress_xof_avx512", "blake3_compress_xof_sse41", "blake3_compress_xof_sse2"]
SIMD_XOF_MANY = ["blake3_xof_many_avx512"]
SIMD_HASH_MANY = ["blake3_hash_many_avx512", "blake3_hash_many_avx2", "blake3_hash_many_sse41",
                  "blake3_hash_many_sse2"]
ASSUMED = set(SIMD_IN_PLACE + SIMD_XOF + SIMD_XOF_MANY + SIMD_HASH_MANY) | {"strlen"}


def _u(func, props, doc, file="blake3.c", replace=(), inlined=(), loops=(), unwind=1, bounded=(),
       tier="quick", config="portable", rec=False, defs=(), timeout=300, mem_gb=16, harness=None,
       extra_trust=(), level="proof", extra_cbmc=(), enforce=True):
    return dict(func=func, props=list(props), doc=doc, file=file, replace=list(replace),
                inlined=list(inlined), loops=list(loops), unwind=unwind, bounded=list(bounded),
                tier=tier, config=config, rec=rec, defs=list(defs), timeout=timeout, mem_gb=mem_gb,
                harness=harness, extra_trust=list(extra_trust), level=level,
                extra_cbmc=list(extra_cbmc), enforce=enforce)


UNITS = {}

# --------------------------------------------------------------------------------------------
# C text utilities: comment masking, function lookup, loop-contract insertion
# --------------------------------------------------------------------------------------------


def _mask(text):
    """Replace comments, string and char literals by spaces (same length, newlines kept)."""
    out = list(text)
    i, n = 0, len(text)
    while i < n:
        c = text[i]
        if text.startswith("//", i):
            j = text.find("\n", i)
            j = n if j < 0 else j
            for k in range(i, j):
                out[k] = " "
            i = j
        elif text.startswith("/*", i):
            j = text.find("*/", i + 2)
            j = n if j < 0 else j + 2
            for k in range(i, j):
                if out[k] != "\n":
                    out[k] = " "
            i = j
        elif c == '"' or c == "'":
            j = i + 1
            while j < n and text[j] != c:
                j += 2 if text[j] == "\\" else 1
            for k in range(i + 1, min(j, n)):
                if out[k] != "\n":
                    out[k] = " "
            i = j + 1
        else:
            i += 1
    masked = "".join(out)
    # `extern "C" {` / `}` inside #ifdef __cplusplus would unbalance the brace count
    def blank(m):
        return re.sub(r"[^\n]", " ", m.group(0))
    return re.sub(r"#\s*ifdef\s+__cplusplus.*?#\s*endif", blank, masked, flags=re.S)


def _match(masked, i, open_c, close_c):
    depth = 0
    for j in range(i, len(masked)):
        if masked[j] == open_c:
            depth += 1
        elif masked[j] == close_c:
            depth -= 1
            if depth == 0:
                return j
    return -1


def find_function(text, name):
    """Locate the definition of `name`: returns (line, body_start, body_end) or None."""
    masked = _mask(text)
    for m in re.finditer(r"\b%s\s*\(" % re.escape(name), masked):
        # must be at brace depth 0
        if masked.count("{", 0, m.start()) != masked.count("}", 0, m.start()):
            continue
        close = _match(masked, m.end() - 1, "(", ")")
        if close < 0:
            continue
        k = close + 1
        while k < len(masked) and masked[k] in " \t\r\n":
            k += 1
        if k < len(masked) and masked[k] == "{":
            end = _match(masked, k, "{", "}")
            if end < 0:
                continue
            return text.count("\n", 0, m.start()) + 1, k, end
    return None


def load_loop_contracts():
    """loop_contracts.txt: blocks '@ <file> <function> <loop index>' followed by clause lines."""
    table = {}
    cur = None
    for line in common.read(LOOPS_TXT).splitlines():
        s = line.strip()
        if not s or s.startswith("#"):
            continue
        if s.startswith("@"):
            _, f, fn, idx = s.split()
            cur = (f, fn, int(idx))
            table[cur] = []
        elif cur is not None:
            table[cur].append(s)
    return {k: " ".join(v) for k, v in table.items()}


def insert_loop_contracts(text, func, clauses):
    """clauses: {loop index: clause text}.  Inserts the clauses (and nothing else) right after
    the closing parenthesis of the k-th loop header of `func`, on the same line."""
    loc = find_function(text, func)
    if loc is None:
        raise LookupError("function %s not found" % func)
    _, b0, b1 = loc
    masked = _mask(text)
    heads = []
    for m in re.finditer(r"\b(while|for)\s*\(", masked[b0:b1]):
        s = b0 + m.start()
        close = _match(masked, b0 + m.end() - 1, "(", ")")
        # a `while (...) ;` that terminates a do-loop is not a loop head
        k = close + 1
        while k < b1 and masked[k] in " \t\r\n":
            k += 1
        if m.group(1) == "while" and masked[k] == ";":
            continue
        heads.append((s, close))
    ins = []
    for idx, clause in clauses.items():
        if idx >= len(heads):
            raise LookupError("loop %d of %s not found (%d loops)" % (idx, func, len(heads)))
        ins.append((heads[idx][1] + 1, " " + clause + " "))
    for pos, s in sorted(ins, reverse=True):
        text = text[:pos] + s + text[pos:]
    return text


# --------------------------------------------------------------------------------------------
# running the tools
# --------------------------------------------------------------------------------------------

_KIND = [
    ("postcondition", "postcondition"), ("precondition", "precondition"), ("assigns", "assigns"),
    ("unwind", "unwinding"), ("overflow", "overflow"), ("undefined-shift", "overflow"),
    ("division-by-zero", "overflow"), ("array_bounds", "bounds"), ("pointer", "bounds"),
    ("bounds", "bounds"), ("loop_invariant", "invariant"), ("loop_decreases", "invariant"),
    ("loop_assigns", "assigns"), ("loop_step_unwinding", "invariant"), ("assertion", "assertion"),
    ("frees", "assigns"),
]


def _kind(prop_class, descr):
    pc = (prop_class or "").lower()
    for key, kind in _KIND:
        if key in pc:
            return kind
    d = descr.lower()
    if "assignable" in d:
        return "assigns"
    if "unwinding" in d:
        return "unwinding"
    if "overflow" in d:
        return "overflow"
    return "other"


def _num(data):
    if data is None:
        return None
    s = str(data).strip()
    if s in ("TRUE", "True"):
        return 1
    if s in ("FALSE", "False"):
        return 0
    m = re.match(r"^(-?\d+)(u|l|ul|ll|ull|lu)?$", s, re.I)
    if m:
        return int(m.group(1))
    return None


def _trace_inputs(trace, func, params):
    """Counterexample values of the function under contract: scalar parameters (assigned as
    `<p>_wrapper` by the DFCC wrapper call), pre-state fields published by the verif_obs_*
    observers in the requires clauses, and named scalar locals of the harness."""
    vals = {}
    for st in trace:
        if st.get("stepType") != "assignment":
            continue
        lhs = st.get("lhs", "")
        v = _num(st.get("value", {}).get("data"))
        if v is None:
            continue
        fn = st.get("sourceLocation", {}).get("function")
        if st.get("assignmentType") == "actual-parameter":
            if lhs.endswith("_wrapper") and lhs[:-8] in params:
                vals.setdefault(lhs[:-8], v)
            elif lhs.startswith("obs_"):
                vals.setdefault(lhs[4:], v)
            elif lhs in params and fn == "harness":
                vals.setdefault(lhs, v)
        elif fn == "harness" and re.match(r"^(in_|arg_)\w+$", lhs):
            vals[lhs[lhs.index("_") + 1:]] = v
    return vals


def _params_of(text, func):
    masked = _mask(text)
    m = None
    for m_ in re.finditer(r"\b%s\s*\(" % re.escape(func), masked):
        if masked.count("{", 0, m_.start()) == masked.count("}", 0, m_.start()):
            m = m_
            break
    if m is None:
        return []
    close = _match(masked, m.end() - 1, "(", ")")
    names = []
    for p in masked[m.end():close].split(","):
        p = re.sub(r"\[[^\]]*\]", "", p).strip()
        mm = re.search(r"(\w+)\s*$", p)
        if mm and mm.group(1) != "void":
            names.append(mm.group(1))
    return names


def _src_path(repo, f):
    return os.path.join(repo, "c", f)


def _map_file(path, repo, scratch):
    """Map a file name from cbmc's output to a repo-relative one (scratch copies included)."""
    if not path:
        return None
    base = os.path.basename(path)
    ap = os.path.abspath(path)
    if ap.startswith(os.path.abspath(scratch) + os.sep) and base in SOURCES + ["blake3_impl.h", "blake3.h"]:
        return "c/" + base
    r = os.path.abspath(os.path.join(repo, "c"))
    if ap.startswith(r + os.sep):
        return "c/" + os.path.relpath(ap, r)
    if ap.startswith(CBMC_DIR + os.sep):
        return "verif/cbmc/" + os.path.relpath(ap, CBMC_DIR)
    if ap.startswith(os.path.abspath(scratch) + os.sep):
        return "verif/cbmc/<generated>/" + base
    return path


def _line_of(path, line):
    try:
        return common.read(path).splitlines()[int(line) - 1].strip()
    except Exception:
        return None


def list_units():
    return {k: {"props": v["props"], "tier": v["tier"], "doc": v["doc"]} for k, v in UNITS.items()}


def _fmt(cmd):
    return " ".join(cmd)


def build_unit(name, scratch, repo=None):
    """Generate the translation unit of `name` in `scratch`.  Returns (main_c, info) or raises
    LookupError for a lost anchor."""
    u = UNITS[name]
    repo = repo or common.REPO
    # anchor
    src_file = _src_path(repo, u["file"])
    if not os.path.isfile(src_file):
        raise LookupError("source file %s not found" % src_file)
    text = common.read(src_file)
    loc = find_function(text, u["func"])
    if loc is None:
        raise LookupError("function %s not found in c/%s" % (u["func"], u["file"]))
    info = {"line": loc[0], "params": _params_of(text, u["func"])}
    for callee in u["replace"] + u["inlined"]:
        if callee in ASSUMED:
            continue
        found = False
        for f in SOURCES + ["blake3_impl.h"]:
            p = _src_path(repo, f)
            if os.path.isfile(p) and find_function(common.read(p), callee) is not None:
                found = True
                break
        if not found:
            raise LookupError("callee %s not found in c/*.c" % callee)
    # loop contracts -> annotated scratch copies
    table = load_loop_contracts() if u["loops"] else {}
    per_file = {}
    for (f, fn, idx) in u["loops"]:
        if (f, fn, idx) not in table:
            raise LookupError("no loop contract for %s %s %d" % (f, fn, idx))
        per_file.setdefault(f, {}).setdefault(fn, {})[idx] = table[(f, fn, idx)]
    includes = []
    for f in SOURCES:
        if f in per_file:
            t = common.read(_src_path(repo, f))
            for fn, clauses in per_file[f].items():
                t = insert_loop_contracts(t, fn, clauses)
            dst = os.path.join(scratch, f)
            common.write(dst, t)
            includes.append(dst)
        else:
            includes.append(_src_path(repo, f))
    hname = u["harness"] or name
    main = ['#include "%s"' % SPEC_H]
    main += ['#include "%s"' % p for p in includes]
    main += ['#include "%s"' % CONTRACTS_H, '#include "%s"' % os.path.join(HARNESS_DIR, hname + ".c"), ""]
    main_c = os.path.join(scratch, "unit_%s.c" % name)
    common.write(main_c, "\n".join(main))
    return main_c, info


def _commands(name, main_c, scratch, repo, trace=True):
    u = UNITS[name]
    defs = (PORTABLE_DEFS if u["config"] == "portable" else []) + u["defs"]
    g1 = os.path.join(scratch, "h.goto")
    g2 = os.path.join(scratch, "h_dfcc.goto")
    cc = ["goto-cc", "-I" + os.path.join(repo, "c")] + defs + ["-o", g1, main_c, "--function", "harness"]
    gi = ["goto-instrument", "--dfcc", "harness"]
    if u["enforce"]:
        gi += ["--enforce-contract-rec" if u["rec"] else "--enforce-contract", u["func"]]
    for r in u["replace"]:
        gi += ["--replace-call-with-contract", r]
    if u["loops"]:
        gi += ["--apply-loop-contracts"]
    gi += [g1, g2]
    cb = ["cbmc", g2] + CHECK_FLAGS + ["--unwind", str(u["unwind"]), "--unwinding-assertions"]
    cb += u["extra_cbmc"]
    if trace:
        cb += ["--trace"]
    cb += ["--json-ui"]
    return cc, gi, cb


def _parse_json(out):
    try:
        return json.loads(out)
    except Exception:
        pass
    # tolerate a truncated array
    try:
        i = out.rindex("},")
        return json.loads(out[:i + 1] + "]")
    except Exception:
        return None


def run_unit(name, tier="quick", keep=False):
    res = common.new_result(name, "cbmc")
    if name not in UNITS:
        res["undecided_reason"] = "unknown unit"
        return res
    u = UNITS[name]
    repo = common.REPO
    res["level"] = u["level"]
    res["config"] = "%s; %s" % (
        "portable-only dispatch (-DBLAKE3_NO_SSE2/SSE41/AVX2/AVX512)" if u["config"] == "portable"
        else "full x86 dispatch, SIMD kernels replaced by assumed frame contracts", " ".join(CHECK_FLAGS))
    res["bounded"] = list(u["bounded"])
    res["trusted_base"] = BASE_TRUST + u["extra_trust"]
    scratch = common.scratch_dir("cbmc_" + name)
    cmds = []
    import time
    t0 = time.time()
    try:
        try:
            main_c, info = build_unit(name, scratch, repo)
        except LookupError as e:
            res["undecided_reason"] = "lost anchor: %s" % e
            return res
        res["functions_verified"] = ["%s (c/%s:%d)" % (u["func"], u["file"], info["line"])]
        for f in u["inlined"]:
            res["functions_verified"].append("%s (inlined into the caller's proof)" % f)
        res["functions_trusted"] = [
            "%s (%s)" % (r, "ASSUMED frame contract: asm/SIMD or libc, not analysed" if r in ASSUMED
                         else "replaced by its contract; enforced by its own unit") for r in u["replace"]]
        if u["loops"]:
            res["functions_trusted"].append(
                "loop contracts of %s inserted from verif/cbmc/loop_contracts.txt (checked: base, step, "
                "assigns, decreases)" % ", ".join(sorted({"%s#%d" % (fn, i) for _, fn, i in u["loops"]})))
        cc, gi, cb = _commands(name, main_c, scratch, repo)
        cmds = [cc, gi, cb]
        res["cmd"] = " && ".join(_fmt(c) for c in cmds)
        rc, out, err, _ = common.run(cc, timeout=120, mem_gb=u["mem_gb"])
        if rc != 0:
            res["undecided_reason"] = "goto-cc failed (rc %s): %s" % (rc, (err + out)[-600:])
            return res
        rc, out, err, _ = common.run(gi, timeout=min(600, u["timeout"]), mem_gb=u["mem_gb"])
        if rc != 0:
            res["undecided_reason"] = "goto-instrument --dfcc failed (rc %s): %s" % (rc, (out + err)[-800:])
            return res
        rc, out, err, secs = common.run(cb, timeout=u["timeout"], mem_gb=u["mem_gb"])
        if rc == -9:
            res["undecided_reason"] = "cbmc timeout after %d s" % u["timeout"]
            return res
        data = _parse_json(out)
        if rc not in (0, 10) or data is None:
            tail = (out[-400:] + err[-400:]).strip()
            why = "out of memory (limit %s GB)" % u["mem_gb"] if ("bad_alloc" in tail or "emory" in tail or rc in (-6, -11, 134, 137, 139)) else "tool error"
            res["undecided_reason"] = "cbmc rc %s: %s: %s" % (rc, why, tail[-500:])
            return res
        results, solver = None, 0.0
        for m in data:
            if isinstance(m, dict):
                if "result" in m:
                    results = m["result"]
                mt = m.get("messageText", "")
                mm = re.search(r"Runtime decision procedure: ([\d.]+)s", mt)
                if mm:
                    solver += float(mm.group(1))
        if results is None:
            res["undecided_reason"] = "cbmc produced no result list: %s" % (out[-400:] + err[-300:])
            return res
        res["solver_seconds"] = round(solver, 2)
        res["obligations"] = len(results)
        ok = [r for r in results if r.get("status") == "SUCCESS"]
        bad = [r for r in results if r.get("status") != "SUCCESS"]
        res["discharged"] = len(ok)
        # samples: prefer contract-level checks
        pri = [r for r in ok if re.search(r"ensures|requires|assignable|unwinding|invariant", r["description"])]
        seen, samples = set(), []
        for r in pri + ok:
            d = r["description"]
            key = re.sub(r"\d+", "#", d)
            if key in seen:
                continue
            seen.add(key)
            sl = r.get("sourceLocation", {})
            f = _map_file(sl.get("file"), repo, scratch)
            samples.append("%s [%s:%s in %s]" % (d, f, sl.get("line"), sl.get("function")))
            if len(samples) >= 5:
                break
        res["samples"] = samples
        if len(results) == 0:
            res["undecided_reason"] = "vacuous: cbmc reported 0 checks"
            return res
        for r in bad[:12]:
            sl = r.get("sourceLocation", {})
            fpath = sl.get("file")
            if fpath and not os.path.isabs(fpath):
                fpath = os.path.join(sl.get("workingDirectory", scratch), fpath)
            f = _map_file(fpath, repo, scratch)
            kind = _kind(sl.get("propertyClass") or r["property"], r["description"])
            clause = None
            if f and f.startswith("verif/cbmc/") and fpath and os.path.isfile(fpath):
                txt = _line_of(fpath, sl.get("line"))
                clause = "%s:%s: %s" % (f, sl.get("line"), txt)
                # for harness asserts and contract clauses, the location is the function itself
                where = "c/%s:%d" % (u["file"], info["line"])
            else:
                where = "%s:%s" % (f, sl.get("line")) if f else None
            fn = sl.get("function") or u["func"]
            inputs = _trace_inputs(r.get("trace", []), u["func"], info["params"]) or None
            raw = "[%s] %s: %s" % (r["property"], r["description"], r.get("status"))
            res["failed"].append(common.failed_obligation(
                fn, kind, r["description"], location=where, clause=clause, inputs=inputs, raw=raw))
            res["failed"][-1]["unit_function"] = u["func"]
        if bad:
            res["status"] = "fail"
            if len(bad) > 12:
                res["failed_truncated"] = len(bad) - 12
        else:
            res["status"] = "pass"
        return res
    finally:
        res["seconds"] = round(time.time() - t0, 2)
        if keep:
            res["scratch"] = scratch
        else:
            common.rm_rf(scratch)


def replay(failed, repo=None):
    return None


# --------------------------------------------------------------------------------------------
# unit table
# --------------------------------------------------------------------------------------------

def _register():
    U = UNITS
    H = "blake3_impl.h"
    # ---- integer helpers: exact over the machine domain ------------------------------------
    U["highest_one"] = _u("highest_one", ["C06", "C07"], file=H,
                          doc="x != 0: r < 64 and x >> r == 1 (index of the highest set bit), every x")
    U["popcnt"] = _u("popcnt", ["C06", "C07"], file=H,
                     doc="popcnt(x) == sum of the 64 bits of x, every x")
    U["round_down_to_power_of_2"] = _u(
        "round_down_to_power_of_2", ["C06", "C07"], file=H, replace=["highest_one"],
        doc="r power of two, r <= x < 2r (x > 0), r == 1 for x == 0, every x")
    U["left_subtree_len"] = _u(
        "left_subtree_len", ["C06", "C07"], replace=["round_down_to_power_of_2"],
        doc="input_len > 1024: r = 1024*2^k, r < input_len <= 2r, every size_t")


_register()

if __name__ == "__main__":
    import argparse
    ap = argparse.ArgumentParser()
    ap.add_argument("units", nargs="*")
    ap.add_argument("--list", action="store_true")
    ap.add_argument("--keep", action="store_true")
    ap.add_argument("--full", action="store_true")
    a = ap.parse_args()
    if a.list:
        for k, v in list_units().items():
            print("%-36s %-8s %-12s %s" % (k, v["tier"], ",".join(v["props"]), v["doc"]))
        sys.exit(0)
    for n in a.units or list(UNITS):
        r = run_unit(n, keep=a.keep)
        if a.full:
            print(json.dumps(r, indent=1))
        else:
            print("%-36s %-9s %4d/%-4d %6.1fs %s" % (n, r["status"], r["discharged"], r["obligations"],
                                                     r["seconds"], r["undecided_reason"] or ""))
            for f in r["failed"]:
                print("     FAIL %s %s @%s :: %s :: inputs=%s" % (f["kind"], f["function"], f["location"],
                                                                 f["clause"] or f["message"], f["inputs"]))
