"""Guards for ASSUMED code: the SIMD kernels are outside every contract (property C05 is not applicable with the
installed verifiers) and enter the proofs as assumed contracts. That assumption was made for specific source text.
This back end pins that text (sha256 per file, contracts/kernel_fingerprints.json, recorded from the pinned tree):
 - all fingerprints equal  -> pass (nothing is proved: 0 obligations; the unit only reports that the assumed code is
   the code the assumption was made for);
 - a kernel file changed   -> undecided, with a *suspect* obligation per changed file, so that `check` runs the
   directed search (platform-kernel family over all SIMD feature sets) on the real code: a concrete failing input
   is a demonstrated violation, none found stays undecided (exit 2, never an alarm by itself).
"""
import hashlib
import json
import os

import common
from common import failed_obligation, new_result

FP = os.path.join(common.VERIF, "contracts", "kernel_fingerprints.json")


def list_units():
    return {"kernels": {"props": ["C04"], "tier": "quick", "doc": __doc__}}


def _sha(path):
    h = hashlib.sha256()
    with open(path, "rb") as f:
        h.update(f.read())
    return h.hexdigest()


def run_unit(name, tier="quick"):
    res = new_result("guard:" + name, "guard", level="other")
    fps = json.load(open(FP))
    changed, missing = [], []
    for rel, want in sorted(fps.items()):
        p = os.path.join(common.REPO, rel)
        if not os.path.exists(p):
            missing.append(rel)
        elif _sha(p) != want:
            changed.append(rel)
    res["cmd"] = "sha256 of %d assumed kernel source files vs contracts/kernel_fingerprints.json" % len(fps)
    res["functions_trusted"] = ["%s [assumed: SIMD kernel source, property C05]" % r for r in sorted(fps)]
    res["trusted_base"] = ["SIMD kernels (%d files pinned by sha256) are assumed to meet the portable kernels' contracts" % len(fps)]
    res["samples"] = [{"file": r, "sha256": fps[r]} for r in sorted(fps)[:3]]
    if not changed and not missing:
        res["status"] = "pass"
        return res
    res["undecided_reason"] = ("assumed kernel source changed (%s): the assumption 'kernels meet the kernel contracts' "
                               "was made for other text; only a directed search on the real code can say more"
                               % ", ".join(changed + missing))
    fn = {"hash_many": "crate::platform::Platform::hash_many", "xof": "crate::platform::Platform::xof_many"}
    for rel in changed[:3]:
        res.setdefault("suspect", []).append(failed_obligation(
            "crate::platform::Platform::hash_many", "other",
            "assumed kernel source %s differs from the text the kernel contract was assumed for" % rel, location=rel))
    return res
