"""Guards for ASSUMED code: the SIMD kernels are outside every contract (property C05 is not applicable with the
installed verifiers) and enter the proofs as assumed contracts. That assumption was made for specific source text.
This back end pins that text (sha256 per file, contracts/kernel_fingerprints.json, recorded from the pinned tree):
 - all fingerprints equal  -> pass (nothing is proved: 0 obligations; the unit only reports that the assumed code is
   the code the assumption was made for);
 - a kernel file changed   -> the assumption is re-examined inside the unit by the BOUNDED exploration of the directed
   search (platform-kernel, xof and one-shot families over the build flavours that reach the changed file; for C07 the
   C library family under ASan/UBSan with guard pages): a concrete failing input is a demonstrated violation; none, with
   every planned family x flavour run to completion, lets the unit pass at level `bounded` (stated in the evidence, never
   counted as proved); an incomplete exploration leaves it undecided (exit 2).
"""
import hashlib
import json
import os

import common
from common import failed_obligation, new_result

FP = os.path.join(common.VERIF, "contracts", "kernel_fingerprints.json")


def list_units():
    return {"kernels": {"props": ["C04", "C06"], "tier": "quick", "doc": __doc__},
            "kernels_frames": {"props": ["C07"], "tier": "quick", "doc": __doc__ + "\n(C07 variant: the kernels' FRAMES - read "
                               "only the inputs, write only the requested output - are assumed contracts of the CBMC units; a "
                               "changed C / assembly kernel file is searched by the C library family (ASan/UBSan, guard pages), "
                               "a changed Rust kernel file by the platform family.)"},
            "rust_statics": {"props": ["C18"], "tier": "quick", "doc": run_rust_statics.__doc__},
            "c_cache_single_store": {"props": ["C18"], "tier": "quick", "doc": run_c_cache_single_store.__doc__},
            "c_pointer_casts": {"props": ["C07"], "tier": "quick", "doc": run_c_pointer_casts.__doc__},
            "c_statics": {"props": ["C18", "C08"], "tier": "quick", "doc": run_c_statics.__doc__},
            "tbb_seam": {"props": ["C08"], "tier": "quick", "doc": run_tbb_seam.__doc__},
            "hash_serde_derive": {"props": ["C14"], "tier": "quick", "doc": run_hash_serde_derive.__doc__},
            "c_functional_text": {"props": ["C06"], "tier": "quick", "doc": run_c_functional_text.__doc__},
            "zeroize_volatile": {"props": ["C17"], "tier": "quick", "doc": run_zeroize_volatile.__doc__},
            "asm_abi": {"props": ["C07"], "tier": "quick", "doc": run_asm_abi.__doc__}}


def _sha(path):
    h = hashlib.sha256()
    with open(path, "rb") as f:
        h.update(f.read())
    return h.hexdigest()


IMMUTABLE_TY = ("&str", "&'static str", "&[u8]", "&'static [u8]", "u8", "u16", "u32", "u64", "usize", "bool", "i32", "i64")


def run_rust_statics():
    """Frame condition of C18 on the Rust side: the crate's own source (src/*.rs, test modules excluded) declares no
    shared mutable state: no `static mut`, no `static` of a type with interior mutability, no `thread_local!` /
    `lazy_static!`. The only statics are the ones the `cpufeatures::new!` macro of the dependency creates (the
    idempotent feature-detection cache). Exhaustive token-level scan with the framework's own Rust tokenizer
    (comments and string literals are not code); one obligation per source file."""
    import glob
    import sys
    sys.path.insert(0, os.path.join(common.VERIF, "lib"))
    import rstok
    res = new_result("guard:rust_statics", "guard", level="proof")
    files = sorted(glob.glob(os.path.join(common.REPO, "src", "*.rs")))
    files = [f for f in files if os.path.basename(f) != "test.rs"]
    res["cmd"] = "token scan of %d files src/*.rs (except test.rs) for static items" % len(files)
    bad, unsure = [], []
    for f in files:
        rel = os.path.relpath(f, common.REPO)
        try:
            toks = [t for t in rstok.tokenize(open(f, encoding="utf-8").read()) if t.k not in ("ws", "comment")]
        except Exception as e:
            res["undecided_reason"] = "cannot tokenize %s: %s" % (rel, e)
            return res
        # skip `#[cfg(test)] mod ... { }` bodies
        i, n = 0, len(toks)
        skip_until = -1
        while i < n:
            t = toks[i]
            if t.s == "#" and i + 6 < n and [x.s for x in toks[i:i + 7]] == ["#", "[", "cfg", "(", "test", ")", "]"]:
                j = i + 7
                while j < n and toks[j].s not in ("{", ";"):
                    j += 1
                if j < n and toks[j].s == "{":
                    skip_until = rstok.match_close(toks, j)
                    i = skip_until + 1
                    continue
            if t.k == "ident" and t.s == "static" and not (i > 0 and toks[i - 1].k == "lifetime"):
                # `'static` is a lifetime token, never reaches here; this is a static item
                nxt = toks[i + 1].s if i + 1 < n else ""
                j = i + 1
                depth = 0
                while j < n and not (depth == 0 and toks[j].s in ("=", ";")):
                    if toks[j].s in ("[", "(", "<"):
                        depth += 1
                    elif toks[j].s in ("]", ")", ">"):
                        depth -= 1
                    j += 1
                decl = " ".join(x.s for x in toks[i:j])
                ty = decl.split(":", 1)[1].strip().replace(" ", "") if ":" in decl else ""
                import re as _re
                if nxt == "mut":
                    bad.append((rel, t.line, decl))
                elif _re.search(r"Atomic[A-Z]\w*|\b(Cell|RefCell|UnsafeCell|OnceCell|LazyCell|Mutex|RwLock|OnceLock|LazyLock|Once|"
                                r"Condvar|Barrier|SyncUnsafeCell)\b", ty):
                    # interior mutability: shared mutable state even without `mut`
                    bad.append((rel, t.line, decl))
                elif ty.replace("'static", "").replace(" ", "") in [x.replace(" ", "").replace("'static", "") for x in IMMUTABLE_TY] \
                        or ty.startswith("[u8;") or ty.startswith("&[u8;"):
                    pass
                else:
                    unsure.append((rel, t.line, decl, ty))
            if t.k == "ident" and t.s in ("thread_local", "lazy_static") and i + 1 < n and toks[i + 1].s == "!":
                bad.append((rel, t.line, t.s + "!"))
            i += 1
    # statics of a crate-defined type: shared mutable state if that type opts into `Sync` by hand or wraps a cell
    if unsure:
        import re as _re
        alltext = ""
        for f in files:
            try:
                alltext += " ".join(t.s for t in rstok.tokenize(open(f, encoding="utf-8").read())
                                    if t.k not in ("ws", "comment")).replace(": :", "::") + "\n"
            except Exception:
                pass
        still = []
        for rel, line, decl, ty in unsure:
            head = _re.match(r"[&']*(?:static)?([A-Za-z_][A-Za-z0-9_]*)", ty.replace("'static", ""))
            name = head.group(1) if head else ""
            hand_sync = name and _re.search(r"unsafe impl (?:< [^>]* > )?(?:Sync|Send) for %s\b" % _re.escape(name), alltext)
            wraps_cell = name and _re.search(r"struct %s\b[^;{]*[({][^;}]*\b(UnsafeCell|Cell|RefCell|Atomic[A-Z]\w*|Mutex|RwLock)\b"
                                             % _re.escape(name), alltext)
            if hand_sync or wraps_cell:
                bad.append((rel, line, decl + ("  [type opts into Sync by `unsafe impl`]" if hand_sync else "  [type wraps a cell]")))
            else:
                still.append((rel, line, decl))
        unsure = still
    res["obligations"] = len(files)
    badfiles = {b[0] for b in bad}
    res["discharged"] = len(files) - len(badfiles)
    res["functions_verified"] = ["%s (no shared mutable static)" % os.path.relpath(f, common.REPO) for f in files]
    res["trusted_base"] = ["statics created by the dependency macro cpufeatures::new! (the feature-detection cache) are allowed",
                           "the framework's tokenizer (lib/rstok.py)"]
    res["samples"] = [{"file": os.path.relpath(f, common.REPO), "obligation": "declares no `static mut`, no interior-mutable "
                       "static, no thread_local!/lazy_static!"} for f in files[:3]]
    if bad:
        res["status"] = "fail"
        for rel, line, decl in bad[:5]:
            res["failed"].append(failed_obligation("%s (static item)" % rel, "assigns",
                                                   "shared mutable state introduced: `%s`" % decl[:120],
                                                   location="%s:%d" % (rel, line),
                                                   clause="no shared mutable state other than the feature-detection cache"))
    elif unsure:
        res["undecided_reason"] = "static item(s) of a type this scan cannot classify as immutable: " + "; ".join(
            "%s:%d `%s`" % tuple(u[:3]) for u in unsure[:5])
    else:
        res["status"] = "pass"
    return res


def run_c_cache_single_store():
    """The C feature-detection cache is published exactly once per detection: c/blake3_dispatch.c contains exactly one
    write to g_cpu_features (besides its initialiser), the final ATOMIC_STORE of the completed value; concurrent first
    calls can then only observe UNDEFINED or the final value (what makes the cache idempotent under races; the CBMC unit
    get_cpu_features proves the stored value is CPUID-derived, but sequential reasoning cannot see a second, partial
    store). Exhaustive scan of the preprocessed-as-text source (comments removed); one obligation."""
    import re
    res = new_result("guard:c_cache_single_store", "guard", level="proof")
    path = os.path.join(common.REPO, "c", "blake3_dispatch.c")
    res["cmd"] = "scan of c/blake3_dispatch.c for writes to g_cpu_features"
    try:
        src = open(path, encoding="utf-8", errors="replace").read()
    except OSError as e:
        res["undecided_reason"] = str(e)
        return res
    src = re.sub(r"/\*.*?\*/", " ", src, flags=re.S)
    src = re.sub(r"//[^\n]*", " ", src)
    writes = []
    for m in re.finditer(r"ATOMIC_STORE\s*\(\s*g_cpu_features\b|\bg_cpu_features\s*(?:\|=|&=|\^=|\+=|=(?!=))", src):
        line = src.count("\n", 0, m.start()) + 1
        text = src[m.start():src.find("\n", m.start())].strip()
        if re.match(r"g_cpu_features\s*=\s*UNDEFINED", text):   # the initialiser
            continue
        writes.append((line, text))
    res["obligations"] = 1
    res["functions_verified"] = ["get_cpu_features (c/blake3_dispatch.c): single publication of the cache"]
    res["samples"] = [{"obligation": "exactly one store to g_cpu_features", "stores": writes}]
    res["trusted_base"] = ["textual scan (macros other than ATOMIC_STORE that might write the cache are not expanded)"]
    if len(writes) == 1:
        res["status"] = "pass"
        res["discharged"] = 1
    elif len(writes) == 0:
        res["undecided_reason"] = "no store to g_cpu_features found (source shape changed)"
    else:
        res["status"] = "fail"
        res["failed"].append(failed_obligation("get_cpu_features", "assigns",
                                               "the feature cache is stored %d times per detection: %s" % (len(writes), writes[:3]),
                                               location="c/blake3_dispatch.c:%d" % writes[0][0],
                                               clause="g_cpu_features is published once, with the completed value"))
    return res


BYTE_TYPES = {"void", "char", "unsigned char", "signed char", "uint8_t", "int8_t"}
C_CAST_FILES = ["blake3.c", "blake3_dispatch.c", "blake3_portable.c", "blake3_impl.h", "blake3_sse2.c", "blake3_sse41.c",
                "blake3_avx2.c", "blake3_avx512.c", "blake3_neon.c"]
# a cast to a wider pointee is harmless as the direct argument of an unaligned load/store intrinsic (or cpuid's int[4])
ALLOWED_CAST_CALLEE = r"(?:_mm\d*_(?:mask_|maskz_)?(?:loadu|storeu|i32gather|i64gather)\w*|__cpuid(?:ex)?|vld1q?_\w+|vst1q?_\w+|_mm_prefetch)$"


def c_pointer_casts(src):
    """-> [(line, text, pointee, allowed)] for every cast expression to a pointer type in comment-free C text"""
    import re
    src = re.sub(r"/\*.*?\*/", lambda m: re.sub(r"[^\n]", " ", m.group(0)), src, flags=re.S)
    src = re.sub(r"//[^\n]*", lambda m: " " * len(m.group(0)), src)
    out = []
    rx = re.compile(r"\(\s*((?:const\s+|volatile\s+|unsigned\s+|signed\s+|struct\s+)*[A-Za-z_]\w*)\s*((?:const\s*|volatile\s*)?\*[\s*const]*)\)\s*(?=[A-Za-z_(&*])")
    for m in rx.finditer(src):
        base = re.sub(r"\b(const|volatile)\b", "", m.group(1)).strip()
        base = re.sub(r"\s+", " ", base)
        # `sizeof (T *)` and parameter lists `f(const T *)` are not casts: a cast is followed by an operand, and is not
        # itself preceded by an identifier (call / declaration) -- keywords return/sizeof aside
        before = src[:m.start()].rstrip()
        prev = re.search(r"([A-Za-z_]\w*)$", before)
        if prev and prev.group(1) not in ("return", "case", "else"):
            continue
        if base in ("return", "sizeof"):
            continue
        ptr_depth = m.group(2).count("*")
        pointee_is_byte = (base in BYTE_TYPES and ptr_depth == 1)
        if pointee_is_byte:
            continue
        # the innermost enclosing call
        depth, i, callee = 0, m.start() - 1, None
        while i >= 0:
            ch = src[i]
            if ch == ")":
                depth += 1
            elif ch == "(":
                if depth == 0:
                    mm = re.search(r"([A-Za-z_]\w*)\s*$", src[:i])
                    callee = mm.group(1) if mm else ""
                    break
                depth -= 1
            elif ch in ";{}":
                break
            i -= 1
        allowed = bool(callee and re.match(ALLOWED_CAST_CALLEE, callee))
        line = src.count("\n", 0, m.start()) + 1
        text = src[src.rfind("\n", 0, m.start()) + 1: src.find("\n", m.start())].strip()
        out.append((line, text, base + " " + "*" * ptr_depth, allowed))
    return out


def _c_enclosing_function(src, line):
    import re
    best = None
    for m in re.finditer(r"^[A-Za-z_][^\n;{}()]*?\b([A-Za-z_]\w*)\s*\([^;{}]*?\)\s*\{", src, flags=re.M | re.S):
        if src.count("\n", 0, m.end()) + 1 <= line + 0 and m.group(1) not in ("if", "while", "for", "switch"):
            best = m.group(1)
    return best


def run_c_pointer_casts():
    """Alignment / effective-type half of C07's "no undefined behaviour" that CBMC's memory model does not have
    (objects are byte arrays without alignment): the C sources never reinterpret a pointer as a pointer to a WIDER
    object type, except as the direct operand of an unaligned load/store intrinsic (or cpuid's int[4]); all word
    access to caller bytes goes through load32/store32/memcpy. One obligation per C source file, exhaustive over its
    cast expressions. A cast outside the discipline is not by itself UB (the pointer may be aligned), so it makes the
    unit undecided with a suspect obligation: the directed search on the real C library under UBSan/ASan with
    misaligned, guard-page-flush buffers (lib/search_c.py) decides it with a concrete failing input or not at all."""
    res = new_result("guard:c_pointer_casts", "guard", level="proof")
    res["cmd"] = "scan of the cast expressions of c/{%s}" % ",".join(C_CAST_FILES)
    res["trusted_base"] = ["textual scan of cast expressions (macro-generated casts are seen only at the macro definition)"]
    bad = []
    for f in C_CAST_FILES:
        path = os.path.join(common.REPO, "c", f)
        if not os.path.exists(path):
            continue
        src = open(path, encoding="utf-8", errors="replace").read()
        casts = c_pointer_casts(src)
        res["obligations"] += 1
        wrong = [c for c in casts if not c[3]]
        if not wrong:
            res["discharged"] += 1
        for line, text, ty, _ in wrong:
            bad.append((f, line, text, ty, _c_enclosing_function(src, line)))
        res["functions_verified"].append("c/%s: %d pointer casts to non-byte pointees, all operands of unaligned load/store intrinsics"
                                         % (f, len(casts)))
        if casts and len(res["samples"]) < 4:
            res["samples"].append({"file": "c/" + f, "cast": casts[0][1], "line": casts[0][0]})
    if not bad:
        res["status"] = "pass"
        return res
    res["undecided_reason"] = "pointer cast(s) to a wider pointee outside the unaligned-access discipline: " + \
        "; ".join("c/%s:%d `%s`" % (b[0], b[1], b[2][:80]) for b in bad[:4]) + \
        " -- not UB by itself; decided only by a failing input on the real C library"
    for f, line, text, ty, fn in bad[:3]:
        fo = failed_obligation(fn or ("c/" + f), "other",
                               "cast to `%s` outside an unaligned load/store intrinsic: `%s`" % (ty, text[:120]),
                               location="c/%s:%d" % (f, line),
                               clause="no pointer is reinterpreted as a pointer to a wider object type (alignment, effective type)")
        fo["search"] = "c_api"
        fo["variants"] = ["portable", "intrinsics", "asm"] if f in ("blake3.c", "blake3_portable.c", "blake3_impl.h", "blake3_dispatch.c") \
            else ["intrinsics", "portable", "asm"]
        res.setdefault("suspect", []).append(fo)
    return res


C_STATIC_FILES = ["blake3.c", "blake3_dispatch.c", "blake3_portable.c", "blake3_impl.h", "blake3_tbb.cpp", "blake3_sse2.c",
                  "blake3_sse41.c", "blake3_avx2.c", "blake3_avx512.c", "blake3_neon.c"]


def c_static_objects(src):
    """-> [(line, declaration text)] of objects with static storage duration that are not const-qualified:
    `static` (or file-scope) VARIABLE declarations; function definitions / declarations are skipped"""
    import re
    src = re.sub(r"/\*.*?\*/", lambda m: re.sub(r"[^\n]", " ", m.group(0)), src, flags=re.S)
    src = re.sub(r"//[^\n]*", lambda m: " " * len(m.group(0)), src)
    src = re.sub(r'"(?:\\.|[^"\\])*"', '""', src)
    out = []
    for m in re.finditer(r"\bstatic\b", src):
        # the declaration runs to the first `;`, `=` or `{` at depth 0; a `(` before that (outside [] ) = function
        i, depth, is_fn = m.end(), 0, False
        while i < len(src):
            ch = src[i]
            if ch == "[":
                depth += 1
            elif ch == "]":
                depth -= 1
            elif depth == 0 and ch == "(":
                # `__attribute__((..))` / `__declspec(..)` / ALIGNAS-like macros are not declarators
                head = src[m.end():i]
                if re.search(r"(__attribute__|__declspec|alignas|_Alignas)\s*$", head):
                    d2 = 0
                    while i < len(src):
                        if src[i] == "(":
                            d2 += 1
                        elif src[i] == ")":
                            d2 -= 1
                            if d2 == 0:
                                break
                        i += 1
                    i += 1
                    continue
                is_fn = True
                break
            elif depth == 0 and ch in ";={":
                break
            i += 1
        if is_fn:
            continue
        decl = re.sub(r"\s+", " ", src[m.start():i]).strip()
        # preprocessor conditionals inside the declaration (blake3_dispatch.c's g_cpu_features) are dropped
        decl = re.sub(r"#\s*(if|ifdef|ifndef|else|elif|endif|define)[^#]*?(?=\b[A-Za-z_]+\s+[A-Za-z_]|$)", " ", decl)
        # const OBJECT: without a pointer declarator any `const` qualifies the object; with one, only a `const`
        # after the last `*` does (`static const uint8_t *tbl[4]` is a mutable array of pointers to const)
        tail = decl.rsplit("*", 1)[1] if "*" in decl else decl
        if re.search(r"\bconst\b", tail):
            continue
        out.append((src.count("\n", 0, m.start()) + 1, decl[:160]))
    return out


def run_c_statics():
    """Frame condition of C18 ("independent hashers are isolated") and of C08's "no data race" on the C side, for what
    the sequential CBMC units cannot see when a callee is replaced by its contract or a file is outside CBMC's reach
    (the SIMD intrinsics files, blake3_tbb.cpp): the C/C++ sources declare no object with static storage duration that
    is not const - no `static` local scratch buffer, no memo, no file-scope variable - except the CPU feature cache
    g_cpu_features of blake3_dispatch.c. (Objects that look thread-local through a macro count as shared: the macro
    may expand to nothing.) Exhaustive scan of the comment-free text; one obligation per file."""
    res = new_result("guard:c_statics", "guard", level="proof")
    res["cmd"] = "scan of c/{%s} for non-const objects with static storage duration" % ",".join(C_STATIC_FILES)
    res["trusted_base"] = ["textual scan (declarations hidden behind macros are seen only at the macro definition)"]
    bad = []
    for f in C_STATIC_FILES:
        path = os.path.join(common.REPO, "c", f)
        if not os.path.exists(path):
            continue
        objs = c_static_objects(open(path, encoding="utf-8", errors="replace").read())
        objs = [o for o in objs if not (f == "blake3_dispatch.c" and "g_cpu_features" in o[1])]
        res["obligations"] += 1
        if not objs:
            res["discharged"] += 1
        bad += [(f, l, d) for l, d in objs]
        res["functions_verified"].append("c/%s: no mutable object with static storage duration%s" % (
            f, " other than g_cpu_features" if f == "blake3_dispatch.c" else ""))
    res["samples"] = [{"obligation": "no non-const static object", "files": len(res["functions_verified"])}]
    if not bad:
        res["status"] = "pass"
        return res
    res["status"] = "fail"
    for f, line, decl in bad[:5]:
        res["failed"].append(failed_obligation("c/%s (static object)" % f, "assigns",
                                               "shared mutable state introduced: `%s`" % decl[:120],
                                               location="c/%s:%d" % (f, line),
                                               clause="no shared mutable state other than the feature-detection cache"))
    return res


TBB_SEAM_FP = os.path.join(common.VERIF, "contracts", "tbb_seam_fingerprint.json")


def run_tbb_seam():
    """The oneTBB join seam (c/blake3_tbb.cpp, C++) is outside every contract verifier here: the C units use an ASSUMED
    contract of blake3_compress_subtree_wide_join_tbb (each half hashed as by blake3_compress_subtree_wide into its own
    window, both counts stored, nothing else written, no sharing between the two tasks). That assumption was made for
    specific source text, pinned here by sha256. Changed text -> undecided with a suspect obligation; the directed
    search decides it on the real code: the real blake3_tbb.cpp against a parallel_invoke stand-in in three orders
    under ASan/UBSan and, for the data-race clause, concurrently under ThreadSanitizer."""
    res = new_result("guard:tbb_seam", "guard", level="other")
    fps = json.load(open(TBB_SEAM_FP))
    changed = [rel for rel, want in sorted(fps.items())
               if not os.path.exists(os.path.join(common.REPO, rel)) or _sha(os.path.join(common.REPO, rel)) != want]
    res["cmd"] = "sha256 of %s vs contracts/tbb_seam_fingerprint.json" % ", ".join(sorted(fps))
    res["functions_trusted"] = ["%s [assumed: oneTBB join seam]" % r for r in sorted(fps)]
    res["trusted_base"] = ["c/blake3_tbb.cpp (pinned by sha256) is assumed to meet the seam contract of cbmc/contracts.h"]
    if not changed:
        res["status"] = "pass"
        return res
    res["undecided_reason"] = ("the oneTBB seam source changed (%s): its assumed contract was made for other text; only a "
                               "directed search on the real code can say more" % ", ".join(changed))
    for rel in changed[:2]:
        fo = failed_obligation("blake3_compress_subtree_wide_join_tbb", "other",
                               "assumed seam source %s differs from the text its contract was assumed for" % rel, location=rel)
        fo["search"] = "c_api"
        fo["variants"] = ["tbb_tsan", "tbb_portable", "tbb_asm"]
        res.setdefault("suspect", []).append(fo)
    return res


C_TEXT_FP = os.path.join(common.VERIF, "contracts", "c_text_fingerprint.json")
C_TEXT_FILES = ["c/blake3.c", "c/blake3_portable.c", "c/blake3_dispatch.c", "c/blake3_impl.h", "c/blake3.h"]


def _c_norm_sha(path):
    """sha256 of the C text with comments removed and white space collapsed (formatting is not code)"""
    import re
    src = open(path, encoding="utf-8", errors="replace").read()
    src = re.sub(r"/\*.*?\*/", " ", src, flags=re.S)
    src = re.sub(r"//[^\n]*", " ", src)
    src = re.sub(r"\s+", " ", src).strip()
    return hashlib.sha256(src.encode("utf-8")).hexdigest()


def run_c_functional_text():
    """C06's END-TO-END functional equality (finalize_seek writes S[seek..seek+out_len] of the concatenated input) is
    not decided by contracts: the one-level *_fn contracts do not compose across chunk_state_update, the CV stack and
    the subtree recursion. What stands in for it is an assumption about specific source text, pinned here (sha256 of
    the comment- and whitespace-free text of blake3.c, blake3_portable.c, blake3_dispatch.c, blake3_impl.h, blake3.h).
    Unchanged text: pass, nothing to do. Changed text: the assumption is re-examined on the real code by the BOUNDED
    exploration of lib/search_c.py (all initialisers, ~1570 update/finalize/seek histories x up to 11 build flavours and
    feature levels, ASan/UBSan, against oracle/b3spec.py): a disagreement is a violation with its failing input; none,
    with every flavour run to completion, lets the unit pass at level BOUNDED (stated in the evidence, never counted as
    proved); an incomplete exploration leaves it undecided."""
    res = new_result("guard:c_functional_text", "guard", level="other")
    fps = json.load(open(C_TEXT_FP))
    changed = [rel for rel, want in sorted(fps.items())
               if not os.path.exists(os.path.join(common.REPO, rel)) or _c_norm_sha(os.path.join(common.REPO, rel)) != want]
    res["cmd"] = "sha256 of the normalised text of %s vs contracts/c_text_fingerprint.json" % ", ".join(sorted(fps))
    res["trusted_base"] = ["end-to-end functional equality of the C library with the specification is assumed for the pinned "
                           "text (re-examined by bounded exploration when the text changes)"]
    if not changed:
        res["status"] = "pass"
        return res
    import time
    import search_c
    seed = int(os.environ.get("VERIF_SEED", "0") or 0)
    hit = search_c.find("C06", {"function": "blake3_hasher_update", "variants": ["portable", "asm", "intrinsics"]}, seed,
                        deadline=time.time() + 420)
    log = hit.get("log") or {}
    res["level"] = "bounded"
    n = log.get("scenarios_run", 0)
    res["bounded"] = ["C text changed (%s): %d C API histories explored on the real library (%s)" % (
        ", ".join(changed), n, ", ".join("%s/%s:%s" % (p["flavour"], p["feature_level"], p["checked"]) for p in log.get("per_flavour", [])))]
    if hit.get("found"):
        f = hit["found"]
        fo = failed_obligation("blake3_hasher_finalize_seek", "other",
                               "the changed C library disagrees with the specification (%s)" % str(f.get("field"))[:160],
                               location=changed[0], clause=str(f.get("scenario"))[:300])
        fo["found"] = f
        fo["found_from"] = "search_c"
        fo["search_log"] = log
        res["failed"].append(fo)
        res["status"] = "fail"
    elif log.get("per_flavour") and all(p.get("complete") for p in log["per_flavour"]) and n > 0:
        res["status"] = "pass"
    else:
        res["undecided_reason"] = "C text changed (%s) and the bounded exploration did not run to completion" % ", ".join(changed)
    return res


def run_zeroize_volatile():
    """C17's "zeroize leaves nothing behind" rests on the zeroize crate's VOLATILE writes; an ordinary store to an object
    that is never read again is dead and optimised builds delete it - invisible to a postcondition, which is about the
    abstract state right after the call. What the contracts assume is therefore pinned as a discipline of the source: the
    body of every `impl Zeroize for T` in src/lib.rs is one destructuring `let Self {..} = self;` / `let Self(..) = self;`
    followed only by `<field>.zeroize();` statements - no assignment, no `fill`, no `ptr::write`, no early return, no
    condition. One obligation per impl; a breach fails the clause (`no-failing-input-found`: dead-store elimination has
    no input)."""
    import re
    import sys
    sys.path.insert(0, os.path.join(common.VERIF, "lib"))
    import rstok
    res = new_result("guard:zeroize_volatile", "guard", level="proof")
    path = os.path.join(common.REPO, "src", "lib.rs")
    res["cmd"] = "token scan of the Zeroize impls in src/lib.rs"
    try:
        toks = [t for t in rstok.tokenize(open(path, encoding="utf-8").read()) if t.k not in ("ws", "comment")]
    except Exception as e:
        res["undecided_reason"] = "cannot tokenize src/lib.rs: %s" % e
        return res
    i, n = 0, len(toks)
    bad, unknown = [], []
    while i < n:
        if toks[i].s == "impl" and i + 3 < n and toks[i + 1].s == "Zeroize" and toks[i + 2].s == "for":
            ty = toks[i + 3].s
            j = i + 4
            while j < n and toks[j].s != "{":
                j += 1
            end = rstok.match_close(toks, j)
            body = toks[j + 1:end]
            # the fn body
            k = next((x for x, t in enumerate(body) if t.s == "fn"), None)
            o = next((x for x in range(k or 0, len(body)) if body[x].s == "{"), None)
            res["obligations"] += 1
            why = None
            if k is None or o is None:
                why = "no fn zeroize body found"
            else:
                c = rstok.match_close(body, o)
                text = " ".join(t.s for t in body[o + 1:c]).replace(": :", "::")
                stmts = [x.strip() for x in text.split(";") if x.strip()]
                first_ok = bool(stmts) and re.match(r"^let Self (\{[^}]*\}|\([^)]*\)) = self$", stmts[0])
                rest = stmts[1:] if first_ok else stmts
                for st in rest:
                    if not re.match(r"^(self \. )?[0-9A-Za-z_]+( \. [0-9A-Za-z_]+)* \. zeroize \( \)$", st):
                        why = "statement other than `<field>.zeroize()`: `%s`" % st[:100]
                        # an ordinary store, a conditional or an early exit is the breach; anything else (a new `let`,
                        # an assertion ...) is only unknown
                        if not re.search(r"(^| )(=|if|return|match|fill|write|write_bytes|copy_from_slice|clear|truncate)( |$)", st):
                            unknown.append((ty, toks[i].line, why))
                            why = "?"
                        break
                if why is None and not rest:
                    why = "no field is zeroized"
            if why == "?":
                pass
            elif why:
                bad.append((ty, toks[i].line, why))
            else:
                res["discharged"] += 1
            res["functions_verified"].append("crate::%s::Zeroize__zeroize: only volatile `<field>.zeroize()` wipes (src/lib.rs:%d)" % (ty, toks[i].line))
            i = end
        i += 1
    res["trusted_base"] = ["zeroize::Zeroize for primitives / arrays / ArrayVec writes volatile zeros (the crate's guarantee)"]
    res["samples"] = [{"obligation": "impl Zeroize bodies consist of a destructuring and `<field>.zeroize()` statements only"}]
    if res["obligations"] == 0:
        res["undecided_reason"] = "no `impl Zeroize for` found in src/lib.rs"
        return res
    if not bad and unknown:
        res["undecided_reason"] = "Zeroize impl of a shape this scan does not know: " + "; ".join(
            "%s (src/lib.rs:%d): %s" % u for u in unknown[:3])
        return res
    if not bad:
        res["status"] = "pass"
        return res
    res["status"] = "fail"
    for ty, line, why in bad[:5]:
        res["failed"].append(failed_obligation("crate::%s::Zeroize__zeroize" % ty, "other",
                                               "the wipe is not made of volatile `.zeroize()` calls only: %s" % why,
                                               location="src/lib.rs:%d" % line,
                                               clause="after zeroize() nothing is left behind (volatile writes that the optimiser cannot drop)"))
    return res


def run_hash_serde_derive():
    """serde clause of C14 ("conversions through serde are lossless"): the Serialize / Deserialize impls of `Hash` are
    macro-generated and outside the contracts; what is ASSUMED is serde_derive's behaviour for a newtype over
    [u8; 32] (a 32-element tuple; the byte-string form through serde's array impl in self-describing formats). This
    guard pins that assumption to the source: `pub struct Hash([u8; OUT_LEN])` still carries
    `#[cfg_attr(feature = "serde", derive(serde::Deserialize, serde::Serialize))]` and there is no hand-written
    `impl ... Serialize/Deserialize ... for Hash`. Otherwise undecided, with a suspect obligation decided by the
    directed search (serde_json arrays and CBOR arrays / byte strings of 0..64 bytes through the real impls)."""
    import re
    import sys
    sys.path.insert(0, os.path.join(common.VERIF, "lib"))
    import rstok
    res = new_result("guard:hash_serde_derive", "guard", level="proof")
    path = os.path.join(common.REPO, "src", "lib.rs")
    res["cmd"] = "token scan of src/lib.rs for the serde impls of Hash"
    try:
        toks = [t for t in rstok.tokenize(open(path, encoding="utf-8").read()) if t.k not in ("ws", "comment")]
    except Exception as e:
        res["undecided_reason"] = "cannot tokenize src/lib.rs: %s" % e
        return res
    text = " ".join(t.s for t in toks).replace(": :", "::")
    res["obligations"] = 2
    why = []
    m = re.search(r"((?:# \[ [^\]]*? \] )*)pub struct Hash \( \[ u8 ; OUT_LEN \] \) ;", text)
    if not m:
        why.append("`pub struct Hash([u8; OUT_LEN]);` not found (shape of the type changed)")
    elif not re.search(r"cfg_attr \( feature = \"serde\" , derive \( serde :: Deserialize , serde :: Serialize \) \)", m.group(1)):
        why.append("the serde derives are no longer on `Hash`")
    else:
        res["discharged"] += 1
    manual = re.findall(r"impl (?:< [^>]* > )?(?:serde :: )?(?:Serialize|Deserialize)(?: < [^>]* >)? for Hash\b", text)
    if manual:
        why.append("hand-written serde impl(s) for Hash: %s" % manual[:2])
    else:
        res["discharged"] += 1
    res["functions_verified"] = ["crate::Hash: serde impls are the derived ones (src/lib.rs)"]
    res["trusted_base"] = ["serde_derive / serde's [T; N] impls behave as documented (tuple of 32 u8; byte strings accepted "
                           "through the sequence visitor in self-describing formats)"]
    res["samples"] = [{"obligation": "Hash keeps #[cfg_attr(feature = \"serde\", derive(serde::Deserialize, serde::Serialize))]; "
                                     "no manual impl"}]
    if not why:
        res["status"] = "pass"
        return res
    res["undecided_reason"] = "assumption about the serde impls of Hash lost: " + "; ".join(why)
    fo = failed_obligation("crate::Hash::Deserialize__deserialize", "other", "; ".join(why)[:300], location="src/lib.rs")
    fo["families"] = ["serde", "hex"]
    res["suspect"] = [fo]
    return res


def run_asm_abi(only=None):
    """bounded: every assembly file this machine can assemble and run, through the calling-convention harness"""
    import asm_abi
    res = new_result("guard:asm_abi", "guard", level="bounded")
    res["cmd"] = "lib/asm_abi.py: clang abi_driver.c abi_call.S <one .S file> blake3_portable.c; run"
    res["trusted_base"] = ["lib/abi_driver/abi_call.S (trampoline: patterns in all callee-saved registers, checked after "
                           "return), clang's assembler, this CPU", "bounded: finitely many calls per kernel (lib/asm_abi.py)"]
    ran = 0
    for isa in asm_abi.ISAS:
        for win in (False, True):
            rel = asm_abi.file_of(isa, win)
            if only and rel not in only:
                continue
            if not os.path.exists(os.path.join(common.REPO, rel)):
                res["undecided_reason"] = "assembly file %s not found" % rel
                continue
            r = asm_abi.run_one(isa, win)
            res["bounded"].append("%s: %s %s" % (rel, r["status"], "; ".join(r["lines"])[:200]))
            if r["status"] == "fail":
                fo = failed_obligation("blake3_hash_many", "other",
                                       "assembly file %s: %s" % (rel, "; ".join(r["lines"][:3])[:400]), location=rel,
                                       clause="callee-saved registers, direction flag, output frame and result of every "
                                              "kernel of the file (calling convention: %s)" % ("Win64" if win else "System V"))
                fo["found"] = {"scenario": {"kind": "asm_abi", "isa": isa, "win": win}, "observed": r["lines"][:10],
                               "family": "asm_abi", "field": r["lines"][0] if r["lines"] else None}
                fo["found_from"] = "asm_abi"
                res["failed"].append(fo)
            elif r["status"] == "pass":
                ran += 1
            elif r["status"] == "error":
                res["undecided_reason"] = "harness build failed for %s: %s" % (rel, r["lines"][-1][-300:])
    res["samples"] = res["bounded"][:3]
    if res["failed"]:
        res["status"] = "fail"
        res["undecided_reason"] = None
    elif ran and not res.get("undecided_reason"):
        res["status"] = "pass"
    elif not ran and not res.get("undecided_reason"):
        res["undecided_reason"] = "no assembly file could be run on this CPU"
    return res


def run_unit(name, tier="quick"):
    if name == "zeroize_volatile":
        return run_zeroize_volatile()
    if name == "c_functional_text":
        return run_c_functional_text()
    if name == "hash_serde_derive":
        return run_hash_serde_derive()
    if name == "c_statics":
        return run_c_statics()
    if name == "tbb_seam":
        return run_tbb_seam()
    if name == "c_pointer_casts":
        return run_c_pointer_casts()
    if name == "rust_statics":
        return run_rust_statics()
    if name == "c_cache_single_store":
        return run_c_cache_single_store()
    if name == "asm_abi":
        return run_asm_abi()
    if name not in ("kernels", "kernels_frames"):
        raise KeyError(name)
    res = new_result("guard:" + name, "guard", level="other")
    fps = json.load(open(FP))
    changed, missing = [], []
    for rel, want in sorted(fps.items()):
        p = os.path.join(common.REPO, rel)
        if not os.path.exists(p):
            missing.append(rel)
        elif _sha(p) != want:
            changed.append(rel)
    res["cmd"] = "sha256 of %d assumed kernel source files vs contracts/kernel_fingerprints.json" % len(fps)
    res["functions_trusted"] = ["%s [assumed: SIMD kernel source, property C05]" % r for r in sorted(fps)]
    res["trusted_base"] = ["SIMD kernels (%d files pinned by sha256) are assumed to meet the portable kernels' contracts" % len(fps)]
    res["samples"] = [{"file": r, "sha256": fps[r]} for r in sorted(fps)[:3]]
    if not changed and not missing:
        res["status"] = "pass"
        return res
    res["undecided_reason"] = ("assumed kernel source changed (%s): the assumption 'kernels meet the kernel contracts' "
                               "was made for other text; only a directed search on the real code can say more"
                               % ", ".join(changed + missing))
    fn = {"hash_many": "crate::platform::Platform::hash_many", "xof": "crate::platform::Platform::xof_many"}
    for rel in changed[:3]:
        fo = failed_obligation(
            "crate::platform::Platform::hash_many", "other",
            "assumed kernel source %s differs from the text the kernel contract was assumed for" % rel, location=rel)
        # which build flavours compile / reach this file
        b = os.path.basename(rel)
        if b.startswith("rust_"):
            fo["variants"] = ["pure", "pure_no_avx2", "pure_no_sse41"]
        elif rel.startswith("c/") and b.endswith(".c"):
            fo["variants"] = ["prefer_intrinsics", "pi_no_avx512", "pi_no_avx2"]
        elif rel.startswith("c/"):
            fo["variants"] = ["default", "no_avx512", "no_avx2", "no_sse41"]
        else:
            fo["variants"] = ["default", "prefer_intrinsics", "pure"]
        fo["families"] = ["platform", "xof", "oneshot"]
        if name == "kernels_frames" and rel.startswith("c/"):
            # memory-safety side: the C library family with the flavour that compiles this file first
            fo["function"] = "blake3_hash_many"
            fo["search"] = "c_api"
            fo["variants"] = (["intrinsics", "asm", "portable"] if b.endswith(".c") else ["asm", "intrinsics", "portable"])
        res.setdefault("suspect", []).append(fo)
    # the assumption is re-examined right here by the bounded exploration: a disagreement is a violation with its failing
    # input; none, with every planned family x build flavour run to completion, lets the unit pass at level BOUNDED (so
    # stated in the evidence); an incomplete exploration leaves it undecided
    import time
    seed = int(os.environ.get("VERIF_SEED", "0") or 0)
    prop = "C07" if name == "kernels_frames" else "C04"
    complete = True
    res["level"] = "bounded"
    import asm_abi
    for fo in res.pop("suspect", []):
        rel = fo.get("location") or ""
        b = os.path.basename(rel)
        if b.endswith("_windows_msvc.asm"):
            # MASM syntax: nothing here can assemble it; no build flavour of this machine reaches it
            res["bounded"].append("%s changed: cannot be assembled or run here (MASM syntax)" % rel)
            res["undecided_reason"] = ("assumed kernel source %s changed and nothing on this machine can assemble or run it"
                                       % rel)
            complete = False
            continue
        if asm_abi.classify(rel):
            isa, win = asm_abi.classify(rel)
            r = asm_abi.run_one(isa, win)
            res["bounded"].append("%s changed: calling-convention / frame / result harness: %s %s"
                                  % (rel, r["status"], "; ".join(r["lines"])[:200]))
            if r["status"] == "fail":
                fo2 = dict(fo)
                fo2["function"] = "blake3_hash_many" if name == "kernels_frames" else fo["function"]
                fo2["message"] = "changed assembly file %s: %s" % (rel, "; ".join(r["lines"][:3])[:400])
                fo2["clause"] = ("callee-saved registers, direction flag, output frame and result of every kernel of the "
                                 "file (calling convention: %s)" % ("Win64" if win else "System V"))
                fo2["found"] = {"scenario": {"kind": "asm_abi", "isa": isa, "win": win}, "observed": r["lines"][:10],
                                "family": "asm_abi", "field": r["lines"][0] if r["lines"] else None}
                fo2["found_from"] = "asm_abi"
                fo2.pop("search", None)
                res["failed"].append(fo2)
                break
            if r["status"] != "pass":
                complete = False
                res["undecided_reason"] = "changed assembly file %s could not be run here (%s)" % (rel, r["status"])
            if win:
                continue      # no build flavour of this machine links the Windows file: the harness is all there is
        if fo.get("search") == "c_api":
            import search_c
            hit = search_c.find(prop, fo, seed, deadline=time.time() + 420)
            log = hit.get("log") or {}
            ok = bool(log.get("per_flavour")) and all(p.get("complete") for p in log["per_flavour"])
            n = log.get("scenarios_run", 0)
        else:
            import search_impl
            hit = search_impl.find(prop, dict(fo, budget=420), seed)
            log = hit.get("log") or {}
            ok = not log.get("note") and not log.get("build_errors") and log.get("scenarios_run", 0) > 0
            n = log.get("scenarios_run", 0)
        res["bounded"].append("%s changed: %d scenarios explored on the real code (%s)" % (fo.get("location"), n,
                              "complete" if ok else "incomplete: " + str(log.get("note") or log.get("build_errors") or "")[:200]))
        if hit.get("found"):
            f = hit["found"]
            fo2 = dict(fo)
            fo2["message"] = "changed kernel source %s: the real code disagrees with the oracle (%s)" % (
                fo.get("location"), str(f.get("field") or f.get("panic"))[:160])
            fo2["clause"] = str(f.get("scenario"))[:300]
            fo2["found"] = f
            fo2["search_log"] = log
            if fo.get("search") == "c_api":
                fo2["found_from"] = "search_c"
            res["failed"].append(fo2)
            break
        complete = complete and ok
    if res["failed"]:
        res["status"] = "fail"
        res["undecided_reason"] = None
    elif complete:
        res["status"] = "pass"
        res["undecided_reason"] = None
    return res
