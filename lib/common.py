"""Shared plumbing for the /verif checks: unit results, subprocess guards, paths.

Every back end (verus_backend, cbmc_backend, kani_backend) exposes

    list_units() -> dict[str, dict]      # name -> {"props": [...], "tier": "quick"|"thorough", "doc": str}
    run_unit(name, tier) -> dict         # a UnitResult, see new_result()

and never prints a verdict itself: `check` aggregates UnitResults per property.

All back ends read the repository from REPO (env VERIF_REPO, default /repo) so that the
mutation self-tests can point them at a scratch copy.
"""
import hashlib
import json
import os
import resource
import shutil
import subprocess
import tempfile
import time

VERIF = os.path.dirname(os.path.dirname(os.path.abspath(__file__)))
REPO = os.environ.get("VERIF_REPO", "/repo")
NCPU = os.cpu_count() or 4
# scratch space must live outside /repo and /verif; removed after each run
SCRATCH_ROOT = os.environ.get("VERIF_SCRATCH", "/tmp")


def scratch_dir(prefix):
    return tempfile.mkdtemp(prefix="verif_" + prefix + "_", dir=SCRATCH_ROOT)


def rm_rf(path):
    shutil.rmtree(path, ignore_errors=True)


def new_result(unit, backend, level="proof"):
    """A UnitResult. status: pass | fail | undecided.
    fail      = at least one *semantic* obligation (postcondition, precondition at a call,
                assertion, invariant, overflow, bounds, assigns, unwinding assertion ...) failed.
    undecided = tool limit, timeout, memory, unsupported construct, lost anchor: never an alarm.
    """
    return {
        "unit": unit,
        "backend": backend,
        "level": level,            # "proof" or "bounded"
        "status": "undecided",
        "obligations": 0,          # measured, never a constant
        "discharged": 0,
        "failed": [],              # list of failed-obligation dicts, see failed_obligation()
        "undecided_reason": None,
        "cmd": "",
        "seconds": 0.0,
        "solver_seconds": None,
        "functions_verified": [],  # "path (repo file:line)"
        "functions_trusted": [],   # assumed contracts (external_body / replaced by contract / stubbed)
        "trusted_base": [],        # every assumption this unit rests on, human readable
        "bounded": [],             # stated bounds, if level == "bounded" (or for parts of the unit)
        "samples": [],             # a few discharged obligations written out
        "config": None,
    }


def failed_obligation(function, kind, message, location=None, clause=None, inputs=None, raw=None):
    """kind: postcondition | precondition | assertion | invariant | overflow | bounds | assigns |
    unwinding | unwrap | other.  inputs: the verifier's counterexample values if it gave one."""
    d = {
        "function": function,
        "kind": kind,
        "message": message,
        "location": location,   # repo-relative file:line when known
        "clause": clause,       # contract clause text / id when known
        "inputs": inputs,       # dict or None
        "raw": raw,             # verifier output excerpt
    }
    d["id"] = hashlib.sha1(
        json.dumps([function, kind, clause or message, location and location.split(":")[0]]).encode()
    ).hexdigest()[:12]
    return d


def _limits(mem_gb):
    def f():
        if mem_gb:
            b = int(mem_gb * (1 << 30))
            resource.setrlimit(resource.RLIMIT_AS, (b, b))
        os.setsid()
    return f


def run(cmd, timeout=600, mem_gb=16, cwd=None, env=None, input=None):
    """Run cmd (list) under a wall-clock timeout and an address-space limit.
    Returns (rc, stdout, stderr, seconds); rc = -9 on timeout (the whole process group is killed)."""
    e = dict(os.environ)
    e.setdefault("CARGO_NET_OFFLINE", "true")
    if env:
        e.update(env)
    t0 = time.time()
    p = subprocess.Popen(cmd, stdout=subprocess.PIPE, stderr=subprocess.PIPE, cwd=cwd, env=e,
                         stdin=subprocess.PIPE if input is not None else subprocess.DEVNULL,
                         preexec_fn=_limits(mem_gb), text=True, errors="replace")
    try:
        out, err = p.communicate(input=input, timeout=timeout)
        rc = p.returncode
    except subprocess.TimeoutExpired:
        try:
            os.killpg(p.pid, 9)
        except Exception:
            pass
        out, err = p.communicate()
        rc = -9
    return rc, out, err, time.time() - t0


def repo_rel(path):
    path = os.path.abspath(path)
    r = os.path.abspath(REPO)
    return os.path.relpath(path, r) if path.startswith(r + os.sep) else path


def read(path):
    with open(path, encoding="utf-8") as f:
        return f.read()


def write(path, text):
    os.makedirs(os.path.dirname(path), exist_ok=True)
    with open(path, "w", encoding="utf-8") as f:
        f.write(text)
