"""Back end `search`: BOUNDED differential exploration of the real code, thorough tier only.

This is not a proof and is never counted as one (level "bounded": its scenarios do not enter the obligation
counts). It runs the directed-search families that otherwise only serve the replay stage (lib/search_impl.py over the
real crate in up to seven build flavours, lib/search_c.py over the real C library under ASan/UBSan in up to five
flavours, lib/search_b3sum.py over the real b3sum) as a sweep from each property's root functions, against the
independent oracles (oracle/b3spec.py transcribed from the paper, oracle/checkfile.py from what_does_check_do.md).
It exists for the parts the contracts ASSUME rather than prove (SIMD kernels = property C05, rayon/oneTBB joins,
std/dependency models, functional equality of the C library): a change there that keeps every contract-level
obligation intact can still be caught by a concrete failing input, which is replayed against the real code.
    pass       no scenario disagreed with the oracle (stated bound: the scenario counts in `bounded`)
    fail       a scenario disagrees: the failing input is the replay
    undecided  builds failed / nothing could be run"""
import os
import time

import common
from common import failed_obligation, new_result

# property -> [(root function used to select families / variants, extra hints)]
SWEEPS = {
    "C01": [("crate::hash", {})],
    "C02": [("crate::Hasher::update", {}), ("crate::Hasher::count", {})],
    "C03": [("crate::OutputReader::fill", {})],
    "C04": [("crate::platform::Platform::hash_many", {}), ("crate::hash", {})],
    "C08": [("crate::Hasher::update_rayon", {}), ("c:blake3_hasher_update_tbb", {})],
    "C09": [("crate::hazmat::merge_subtrees_root", {}), ("crate::hazmat::left_subtree_len", {})],
    "C10": [("crate::Hasher::reset", {})],
    "C11": [("crate::io::copy_wide", {})],
    "C13": [("crate::parse_check_line", {}), ("crate::hash_one_input", {})],
    "C12": [("crate::check_one_line", {})],
    "C14": [("crate::Hash::from_hex", {})],
    "C15": [("reference_impl::Hasher::update", {})],
    "C16": [("crate::traits::Hasher::Update__update", {}), ("crate::guts::ChunkState::new", {})],
    "C17": [("crate::Hasher::Zeroize__zeroize", {}), ("crate::Hasher::Debug__fmt", {})],
    "C06": [("c:blake3_hasher_update", {})],
    "C07": [("c:blake3_hasher_update", {})],
}
BUDGET_S = 420


def list_units():
    return {p: {"props": [p], "tier": "thorough", "doc": __doc__} for p in SWEEPS}


def run_unit(name, tier="thorough"):
    prop = name
    res = new_result("search:" + name, "search", level="bounded")
    res["cmd"] = "directed-search sweep from %s" % ", ".join(r for r, _ in SWEEPS[prop])
    res["trusted_base"] = ["oracle/b3spec.py / oracle/checkfile.py (independent transcriptions of the paper / of "
                           "what_does_check_do.md, validated on the published vectors)", "bounded: finitely many scenarios"]
    seed = int(os.environ.get("VERIF_SEED", "0") or 0)
    t0 = time.time()
    ran = 0
    for root, extra in SWEEPS[prop]:
        fo = dict({"function": root[2:] if root.startswith("c:") else root, "budget": BUDGET_S}, **extra)
        if root.startswith("c:"):
            import search_c
            hit = search_c.find(prop, fo, seed, deadline=time.time() + BUDGET_S)
        else:
            import search_impl
            if prop == "C15":
                fo["unit"] = "refimpl"
            hit = search_impl.find(prop, fo, seed)
        log = hit.get("log") or {}
        n = log.get("scenarios_run", 0) or sum(p.get("checked", 0) for p in log.get("per_family", []) + log.get("per_flavour", []))
        ran += n
        res["bounded"].append("%s: %d scenarios over families %s%s" % (
            root, n, log.get("families"), (" variants %s" % log.get("variants")) if log.get("variants") else ""))
        if hit.get("found"):
            f = hit["found"]
            fo2 = failed_obligation(fo["function"], "other",
                                    "bounded exploration: the real code disagrees with the oracle (%s)" % (f.get("field") or f.get("panic") or "")[:200],
                                    clause=str(f.get("scenario"))[:300])
            fo2["found"] = f
            fo2["search_log"] = log
            if root.startswith("c:"):
                fo2["found_from"] = "search_c"
            res["failed"].append(fo2)
            break
    res["seconds"] = round(time.time() - t0, 1)
    res["samples"] = [{"bounded_exploration": b} for b in res["bounded"][:3]]
    if res["failed"]:
        res["status"] = "fail"
    elif ran > 0:
        res["status"] = "pass"
    else:
        res["undecided_reason"] = "no scenario could be run (build failure?)"
    return res


if __name__ == "__main__":
    import json
    import sys
    r = run_unit(sys.argv[1])
    print(json.dumps({k: r[k] for k in ("unit", "status", "bounded", "seconds", "undecided_reason")}, indent=1))
    for f in r["failed"]:
        print(f["message"], f["clause"])
