//! Replay driver: executes *scenarios* against the real `blake3` crate (built from the working
//! tree) and prints what it observed, one JSON object per line.  It never judges anything: the
//! Python side (lib/search_impl.py) compares the observations with oracle/b3spec.py.
//!
//! stdin : a JSON list of scenario objects (see lib/search_impl.py / oracle/README.md)
//! stdout: one line per scenario: {"id":..,"ok":bool,"panic":msg|null,"panic_loc":..,<observations>}
//!
//! Every scenario runs under catch_unwind with a silent panic hook; observations made before a
//! panic are kept.  A watchdog thread aborts the process (after printing a "hang" result) if a
//! single scenario runs longer than REPLAY_SCENARIO_TIMEOUT_MS (default 20000).
#![allow(deprecated)]
#![allow(clippy::all)]

use std::cell::RefCell;
use std::collections::BTreeMap;
use std::io::{Read, Seek, SeekFrom, Write};
use std::panic::{catch_unwind, AssertUnwindSafe};
use std::sync::atomic::{AtomicU64, Ordering};
use std::sync::Mutex;

use blake3::hazmat::{self, HasherExt, Mode};
use blake3::platform::Platform;
use blake3::Hasher;

// ------------------------------------------------------------------------------------------
// minimal JSON
// ------------------------------------------------------------------------------------------
#[derive(Clone, Debug)]
enum J {
    Null,
    Bool(bool),
    Num(i128),
    Str(String),
    Arr(Vec<J>),
    Obj(Vec<(String, J)>),
}

struct P<'a> {
    s: &'a [u8],
    i: usize,
}

impl<'a> P<'a> {
    fn ws(&mut self) {
        while self.i < self.s.len() && (self.s[self.i] as char).is_ascii_whitespace() {
            self.i += 1;
        }
    }
    fn expect(&mut self, c: u8) {
        self.ws();
        if self.i >= self.s.len() || self.s[self.i] != c {
            panic!("json: expected {:?} at {}", c as char, self.i);
        }
        self.i += 1;
    }
    fn hex4(&mut self) -> u32 {
        let t = std::str::from_utf8(&self.s[self.i..self.i + 4]).unwrap();
        self.i += 4;
        u32::from_str_radix(t, 16).unwrap()
    }
    fn string(&mut self) -> String {
        self.expect(b'"');
        let mut out: Vec<u8> = Vec::new();
        loop {
            let c = self.s[self.i];
            self.i += 1;
            match c {
                b'"' => break,
                b'\\' => {
                    let e = self.s[self.i];
                    self.i += 1;
                    match e {
                        b'"' => out.push(b'"'),
                        b'\\' => out.push(b'\\'),
                        b'/' => out.push(b'/'),
                        b'b' => out.push(8),
                        b'f' => out.push(12),
                        b'n' => out.push(b'\n'),
                        b'r' => out.push(b'\r'),
                        b't' => out.push(b'\t'),
                        b'u' => {
                            let mut cp = self.hex4();
                            if (0xD800..0xDC00).contains(&cp) {
                                // surrogate pair
                                assert_eq!(self.s[self.i], b'\\');
                                assert_eq!(self.s[self.i + 1], b'u');
                                self.i += 2;
                                let lo = self.hex4();
                                cp = 0x10000 + ((cp - 0xD800) << 10) + (lo - 0xDC00);
                            }
                            let ch = char::from_u32(cp).expect("json: bad code point");
                            let mut b = [0u8; 4];
                            out.extend_from_slice(ch.encode_utf8(&mut b).as_bytes());
                        }
                        _ => panic!("json: bad escape"),
                    }
                }
                _ => out.push(c),
            }
        }
        String::from_utf8(out).expect("json: utf8")
    }
    fn value(&mut self) -> J {
        self.ws();
        match self.s[self.i] {
            b'{' => {
                self.i += 1;
                let mut v = Vec::new();
                self.ws();
                if self.s[self.i] == b'}' {
                    self.i += 1;
                    return J::Obj(v);
                }
                loop {
                    self.ws();
                    let k = self.string();
                    self.expect(b':');
                    let x = self.value();
                    v.push((k, x));
                    self.ws();
                    if self.s[self.i] == b',' {
                        self.i += 1;
                    } else {
                        self.expect(b'}');
                        return J::Obj(v);
                    }
                }
            }
            b'[' => {
                self.i += 1;
                let mut v = Vec::new();
                self.ws();
                if self.s[self.i] == b']' {
                    self.i += 1;
                    return J::Arr(v);
                }
                loop {
                    v.push(self.value());
                    self.ws();
                    if self.s[self.i] == b',' {
                        self.i += 1;
                    } else {
                        self.expect(b']');
                        return J::Arr(v);
                    }
                }
            }
            b'"' => J::Str(self.string()),
            b't' => {
                self.i += 4;
                J::Bool(true)
            }
            b'f' => {
                self.i += 5;
                J::Bool(false)
            }
            b'n' => {
                self.i += 4;
                J::Null
            }
            _ => {
                let st = self.i;
                while self.i < self.s.len() && (self.s[self.i] == b'-' || self.s[self.i].is_ascii_digit()) {
                    self.i += 1;
                }
                let t = std::str::from_utf8(&self.s[st..self.i]).unwrap();
                J::Num(t.parse::<i128>().unwrap_or_else(|_| panic!("json: bad number {:?} at {}", t, st)))
            }
        }
    }
}

static NULL: J = J::Null;

impl J {
    fn get(&self, k: &str) -> &J {
        if let J::Obj(v) = self {
            for (kk, x) in v {
                if kk == k {
                    return x;
                }
            }
        }
        &NULL
    }
    fn has(&self, k: &str) -> bool {
        !matches!(self.get(k), J::Null)
    }
    fn as_str(&self) -> Option<&str> {
        if let J::Str(s) = self {
            Some(s)
        } else {
            None
        }
    }
    fn s(&self, k: &str) -> &str {
        self.get(k).as_str().unwrap_or("")
    }
    fn as_i128(&self) -> Option<i128> {
        if let J::Num(n) = self {
            Some(*n)
        } else {
            None
        }
    }
    fn u64(&self, k: &str) -> u64 {
        match self.get(k) {
            J::Num(n) => u64::try_from(*n).unwrap_or_else(|_| panic!("driver: {} out of u64 range", k)),
            J::Null => 0,
            _ => panic!("driver: field {} is not a number", k),
        }
    }
    fn usize(&self, k: &str) -> usize {
        self.u64(k) as usize
    }
    fn bool(&self, k: &str) -> bool {
        matches!(self.get(k), J::Bool(true))
    }
    fn arr(&self, k: &str) -> &[J] {
        if let J::Arr(v) = self.get(k) {
            v
        } else {
            &[]
        }
    }
}

fn esc(s: &str) -> String {
    let mut o = String::with_capacity(s.len() + 2);
    o.push('"');
    for c in s.chars() {
        match c {
            '"' => o.push_str("\\\""),
            '\\' => o.push_str("\\\\"),
            '\n' => o.push_str("\\n"),
            '\r' => o.push_str("\\r"),
            '\t' => o.push_str("\\t"),
            c if (c as u32) < 0x20 || (c as u32) > 0x7e => {
                let mut b = [0u16; 2];
                for u in c.encode_utf16(&mut b) {
                    o.push_str(&format!("\\u{:04x}", u));
                }
            }
            c => o.push(c),
        }
    }
    o.push('"');
    o
}

fn hex(b: &[u8]) -> String {
    let t = b"0123456789abcdef";
    let mut s = String::with_capacity(b.len() * 2);
    for &x in b {
        s.push(t[(x >> 4) as usize] as char);
        s.push(t[(x & 15) as usize] as char);
    }
    s
}

fn unhex(s: &str) -> Vec<u8> {
    let b = s.as_bytes();
    assert!(b.len() % 2 == 0, "driver: odd hex");
    let v = |c: u8| -> u8 {
        match c {
            b'0'..=b'9' => c - b'0',
            b'a'..=b'f' => c - b'a' + 10,
            b'A'..=b'F' => c - b'A' + 10,
            _ => panic!("driver: bad hex"),
        }
    };
    (0..b.len() / 2).map(|i| v(b[2 * i]) * 16 + v(b[2 * i + 1])).collect()
}

fn hex32(s: &str) -> [u8; 32] {
    let v = unhex(s);
    assert_eq!(v.len(), 32, "driver: need 32 bytes");
    let mut a = [0u8; 32];
    a.copy_from_slice(&v);
    a
}

/// JSON object under construction.
struct O(String);
impl O {
    fn new() -> Self {
        O(String::from("{"))
    }
    fn raw(&mut self, k: &str, raw: &str) -> &mut Self {
        if self.0.len() > 1 {
            self.0.push(',');
        }
        self.0.push_str(&esc(k));
        self.0.push(':');
        self.0.push_str(raw);
        self
    }
    fn st(&mut self, k: &str, v: &str) -> &mut Self {
        let e = esc(v);
        self.raw(k, &e)
    }
    fn hx(&mut self, k: &str, v: &[u8]) -> &mut Self {
        let e = format!("\"{}\"", hex(v));
        self.raw(k, &e)
    }
    fn n(&mut self, k: &str, v: u64) -> &mut Self {
        self.raw(k, &v.to_string())
    }
    fn b(&mut self, k: &str, v: bool) -> &mut Self {
        self.raw(k, if v { "true" } else { "false" })
    }
    fn fin(&self) -> String {
        format!("{}}}", self.0)
    }
}

fn jlist(v: &[String]) -> String {
    format!("[{}]", v.join(","))
}

// ------------------------------------------------------------------------------------------
// recorder that survives panics
// ------------------------------------------------------------------------------------------
#[derive(Default)]
struct Rec {
    fields: Vec<(String, String)>,
    lists: BTreeMap<String, Vec<String>>,
}
type R = RefCell<Rec>;

fn set(r: &R, k: &str, raw: String) {
    let mut g = r.borrow_mut();
    if let Some(e) = g.fields.iter_mut().find(|e| e.0 == k) {
        e.1 = raw;
    } else {
        g.fields.push((k.to_string(), raw));
    }
}
fn set_hex(r: &R, k: &str, b: &[u8]) {
    set(r, k, format!("\"{}\"", hex(b)));
}
fn push(r: &R, list: &str, raw: String) {
    r.borrow_mut().lists.entry(list.to_string()).or_default().push(raw);
}

// ------------------------------------------------------------------------------------------
// inputs and modes
// ------------------------------------------------------------------------------------------
fn gen_input(spec: &J) -> Vec<u8> {
    if spec.has("hex") {
        return unhex(spec.s("hex"));
    }
    let len = spec.usize("len");
    let seed = spec.u64("seed");
    match spec.s("pattern") {
        "" | "inc251" => (0..len).map(|i| (i % 251) as u8).collect(),
        "zero" => vec![0u8; len],
        "xorshift" => {
            let mut s = seed.wrapping_mul(0x9E37_79B9_7F4A_7C15) ^ 0xD1B5_4A32_D192_ED03;
            if s == 0 {
                s = 1;
            }
            let mut v = Vec::with_capacity(len + 8);
            while v.len() < len {
                s ^= s << 13;
                s ^= s >> 7;
                s ^= s << 17;
                v.extend_from_slice(&s.to_le_bytes());
            }
            v.truncate(len);
            v
        }
        p => panic!("driver: unknown pattern {}", p),
    }
}

#[derive(Clone)]
enum M {
    Hash,
    Keyed([u8; 32]),
    Derive(String),
    Ck([u8; 32]),
}

fn parse_mode(sc: &J) -> M {
    match sc.s("mode") {
        "" | "hash" => M::Hash,
        "keyed" => M::Keyed(hex32(sc.s("key_hex"))),
        "derive" => M::Derive(sc.s("context").to_string()),
        "derive_from_context_key" => M::Ck(hex32(sc.s("key_hex"))),
        m => panic!("driver: unknown mode {}", m),
    }
}

fn new_hasher(m: &M) -> Hasher {
    match m {
        M::Hash => Hasher::new(),
        M::Keyed(k) => Hasher::new_keyed(k),
        M::Derive(c) => Hasher::new_derive_key(c),
        M::Ck(k) => <Hasher as HasherExt>::new_from_context_key(k),
    }
}

fn with_mode<T>(m: &M, f: impl FnOnce(Mode) -> T) -> T {
    match m {
        M::Hash => f(Mode::Hash),
        M::Keyed(k) => f(Mode::KeyedHash(k)),
        M::Derive(c) => {
            let ck = hazmat::hash_derive_key_context(c);
            f(Mode::DeriveKeyMaterial(&ck))
        }
        M::Ck(k) => f(Mode::DeriveKeyMaterial(k)),
    }
}

fn oneshot(m: &M, data: &[u8]) -> [u8; 32] {
    match m {
        M::Hash => *blake3::hash(data).as_bytes(),
        M::Keyed(k) => *blake3::keyed_hash(k, data).as_bytes(),
        M::Derive(c) => blake3::derive_key(c, data),
        M::Ck(k) => {
            let mut h = <Hasher as HasherExt>::new_from_context_key(k);
            h.update(data);
            *h.finalize().as_bytes()
        }
    }
}

// ------------------------------------------------------------------------------------------
// a Read implementation that follows a script
// ------------------------------------------------------------------------------------------
#[derive(Clone, Copy)]
enum Step {
    N(usize),
    Interrupt,
    Error,
}

struct PatReader<'a> {
    data: &'a [u8],
    pos: usize,
    pat: Vec<Step>,
    i: usize,
    err_fired: bool,
    max_buf: usize,
    calls: u64,
}

impl<'a> Read for PatReader<'a> {
    fn read(&mut self, buf: &mut [u8]) -> std::io::Result<usize> {
        self.calls += 1;
        if buf.len() > self.max_buf {
            self.max_buf = buf.len();
        }
        let mut idle = 0usize;
        loop {
            if self.pos >= self.data.len() {
                return Ok(0);
            }
            // a script without any (remaining) data step delivers everything that is left
            let st = if self.pat.is_empty() || idle > self.pat.len() { Step::N(usize::MAX) } else { self.pat[self.i % self.pat.len()] };
            self.i += 1;
            idle += 1;
            match st {
                Step::N(n) => {
                    let k = n.min(buf.len()).min(self.data.len() - self.pos);
                    buf[..k].copy_from_slice(&self.data[self.pos..self.pos + k]);
                    self.pos += k;
                    return Ok(k);
                }
                Step::Interrupt => {
                    return Err(std::io::Error::new(std::io::ErrorKind::Interrupted, "injected interrupt"));
                }
                Step::Error => {
                    if !self.err_fired {
                        self.err_fired = true;
                        return Err(std::io::Error::new(std::io::ErrorKind::Other, "injected error"));
                    }
                }
            }
        }
    }
}

// ------------------------------------------------------------------------------------------
// scenario kinds
// ------------------------------------------------------------------------------------------
fn k_oneshot(sc: &J, r: &R) {
    let m = parse_mode(sc);
    let data = gen_input(sc.get("input"));
    let out = oneshot(&m, &data);
    set_hex(r, "out_hex", &out);
}

/// One operation on a Hasher; returns the observation.
fn do_op(h: &mut Hasher, m: &M, data: &[u8], op: &J, scratch: &str, sid: &str) -> String {
    let name = op.s("op");
    let mut o = O::new();
    o.st("op", name);
    match name {
        "update" => {
            let a = op.usize("a");
            let b = op.usize("b");
            let d = &data[a..b];
            match op.s("via") {
                "" | "update" => {
                    h.update(d);
                }
                "write" => {
                    let n = Write::write(h, d).expect("Write::write returned Err");
                    o.n("written", n as u64);
                    Write::flush(h).expect("Write::flush returned Err");
                }
                "reader" => {
                    let res = h.update_reader(d);
                    o.b("reader_ok", res.is_ok());
                }
                "rayon" => {
                    #[cfg(feature = "rayon")]
                    {
                        h.update_rayon(d);
                    }
                    #[cfg(not(feature = "rayon"))]
                    {
                        o.b("unsupported", true);
                        h.update(d);
                    }
                }
                "mmap" | "mmap_rayon" => {
                    #[cfg(feature = "mmap")]
                    {
                        let path = format!("{}/mm_{}_{}_{}", scratch, sid, a, b);
                        std::fs::write(&path, d).expect("driver: cannot write temp file");
                        let res = if op.s("via") == "mmap" {
                            h.update_mmap(&path).map(|_| ())
                        } else {
                            #[cfg(feature = "rayon")]
                            {
                                h.update_mmap_rayon(&path).map(|_| ())
                            }
                            #[cfg(not(feature = "rayon"))]
                            {
                                h.update_mmap(&path).map(|_| ())
                            }
                        };
                        let _ = std::fs::remove_file(&path);
                        o.b("mmap_ok", res.is_ok());
                    }
                    #[cfg(not(feature = "mmap"))]
                    {
                        let _ = (scratch, sid);
                        o.b("unsupported", true);
                        h.update(d);
                    }
                }
                "digest" => {
                    #[cfg(feature = "traits")]
                    {
                        blake3::traits::digest::Update::update(h, d);
                    }
                    #[cfg(not(feature = "traits"))]
                    {
                        o.b("unsupported", true);
                        h.update(d);
                    }
                }
                v => panic!("driver: unknown via {}", v),
            }
            o.n("count", h.count());
        }
        "count" => {
            o.n("count", h.count());
        }
        "finalize" => {
            o.hx("hex", h.finalize().as_bytes());
        }
        "finalize_xof" => {
            let mut rd = h.finalize_xof();
            if op.has("seek") {
                rd.set_position(op.u64("seek"));
            }
            let mut buf = vec![0u8; op.usize("n")];
            rd.fill(&mut buf);
            o.hx("hex", &buf);
            o.n("pos", rd.position());
        }
        "finalize_non_root" => {
            o.hx("hex", &h.finalize_non_root());
        }
        "set_input_offset" => {
            h.set_input_offset(op.u64("v"));
        }
        "clone_from_other" => {
            // continue on a copy made by clone_from into a hasher of another mode, offset and history
            let mut other = blake3::Hasher::new_keyed(&[0x5a; 32]);
            other.set_input_offset(8192);
            other.update(&[7u8; 1500]);
            other.clone_from(h);
            *h = other;
            o.n("count", h.count());
        }
        "reset" => {
            h.reset();
        }
        "pure_check" => {
            // finalize()/finalize_xof() are queries: repeated calls and calls on a clone agree and
            // do not disturb count()
            let c0 = h.count();
            let f1 = *h.finalize().as_bytes();
            let f2 = *h.finalize().as_bytes();
            let mut x = vec![0u8; op.usize("n").max(32)];
            h.finalize_xof().fill(&mut x);
            let cl = h.clone();
            let f3 = *cl.finalize().as_bytes();
            let f4 = *h.finalize().as_bytes();
            let c1 = h.count();
            // clone_from into a hasher of another mode and history must give an equal, independent copy
            let mut other = blake3::Hasher::new_keyed(&[0x5a; 32]);
            other.update(&[7u8; 1500]);
            other.clone_from(&h);
            let f5 = *other.finalize().as_bytes();
            let (mut a, mut b) = (h.clone(), other.clone());
            a.update(&[9u8; 2100]);
            b.update(&[9u8; 2100]);
            let same_after = a.finalize() == b.finalize();
            let (mut r1, mut r2) = (h.clone(), other);
            r1.reset();
            r1.update(b"xyz");
            r2.reset();
            r2.update(b"xyz");
            let same_reset = r1.finalize() == r2.finalize();
            o.hx("hex", &f1);
            o.hx("xof_hex", &x);
            o.b("stable", f1 == f2 && f1 == f3 && f1 == f4 && x[..32] == f1[..] && c0 == c1 && cl.count() == c0
                && f5 == f1 && same_after && same_reset && h.count() == c0);
            o.n("count", c1);
        }
        "debug_fmt" => {
            o.st("text", &format!("{:?}", h));
        }
        // ---- RustCrypto traits (feature traits-preview)
        "t_reset" | "t_fixed" | "t_fixed_reset" | "t_xof" | "t_xof_reset" | "t_mac_finalize" | "t_xof_into" | "t_xof_reset_into" => {
            #[cfg(feature = "traits")]
            {
                use blake3::traits::digest;
                match name {
                    "t_reset" => digest::Reset::reset(h),
                    "t_fixed" => {
                        let out = digest::FixedOutput::finalize_fixed(h.clone());
                        o.hx("hex", &out[..]);
                    }
                    "t_fixed_reset" => {
                        let out = digest::FixedOutputReset::finalize_fixed_reset(h);
                        o.hx("hex", &out[..]);
                    }
                    "t_xof" => {
                        let mut rd = digest::ExtendableOutput::finalize_xof(h.clone());
                        let mut buf = vec![0u8; op.usize("n")];
                        digest::XofReader::read(&mut rd, &mut buf);
                        o.hx("hex", &buf);
                    }
                    "t_xof_reset" => {
                        let mut rd = digest::ExtendableOutputReset::finalize_xof_reset(h);
                        let mut buf = vec![0u8; op.usize("n")];
                        digest::XofReader::read(&mut rd, &mut buf);
                        o.hx("hex", &buf);
                    }
                    // the digest crate's provided methods (an impl may override them)
                    "t_xof_into" => {
                        let mut buf = vec![0u8; op.usize("n")];
                        digest::ExtendableOutput::finalize_xof_into(h.clone(), &mut buf);
                        o.hx("hex", &buf);
                    }
                    "t_xof_reset_into" => {
                        let mut buf = vec![0u8; op.usize("n")];
                        digest::ExtendableOutputReset::finalize_xof_reset_into(h, &mut buf);
                        o.hx("hex", &buf);
                    }
                    "t_mac_finalize" => {
                        let out = digest::Mac::finalize(h.clone());
                        o.hx("hex", out.into_bytes().as_slice());
                    }
                    _ => unreachable!(),
                }
                o.n("count", h.count());
            }
            #[cfg(not(feature = "traits"))]
            {
                o.b("unsupported", true);
            }
        }
        x => panic!("driver: unknown op {}", x),
    }
    let _ = m;
    o.fin()
}

fn k_ops(sc: &J, r: &R, scratch: &str) {
    let m = parse_mode(sc);
    let data = gen_input(sc.get("input"));
    let ops = sc.arr("ops");
    let sid = sc.get("id").as_i128().map(|n| n.to_string()).unwrap_or_default();
    let mut h = if sc.bool("keyinit") {
        #[cfg(feature = "traits")]
        {
            let k = match &m {
                M::Keyed(k) => *k,
                _ => panic!("driver: keyinit needs keyed mode"),
            };
            let gk = k.into();
            let h: Hasher = blake3::traits::digest::KeyInit::new(&gk);
            h
        }
        #[cfg(not(feature = "traits"))]
        {
            set(r, "unsupported", "true".into());
            new_hasher(&m)
        }
    } else {
        new_hasher(&m)
    };
    for (i, op) in ops.iter().enumerate() {
        set(r, "at", i.to_string());
        let obs = do_op(&mut h, &m, &data, op, scratch, &sid);
        push(r, "trace", obs);
    }
    set(r, "at", "null".into());
    // the same tail of operations on a fresh hasher of the same mode
    if sc.has("fresh_from") {
        let from = sc.usize("fresh_from");
        let mut f = new_hasher(&m);
        for (i, op) in ops.iter().enumerate().skip(from) {
            set(r, "fresh_at", i.to_string());
            let obs = do_op(&mut f, &m, &data, op, scratch, &sid);
            push(r, "fresh_trace", obs);
        }
        set(r, "fresh_at", "null".into());
    }
}

fn k_xof(sc: &J, r: &R) {
    let m = parse_mode(sc);
    let data = gen_input(sc.get("input"));
    let mut rd = match sc.s("via") {
        "" | "hasher" => {
            let mut h = new_hasher(&m);
            h.update(&data);
            h.finalize_xof()
        }
        "merge_root_xof" => {
            // two subtrees split at `left` bytes, merged with hazmat::merge_subtrees_root_xof
            let left = sc.usize("left");
            let mut hl = new_hasher(&m);
            hl.update(&data[..left]);
            let l = hl.finalize_non_root();
            let mut hr = new_hasher(&m);
            hr.set_input_offset(left as u64);
            hr.update(&data[left..]);
            let rr = hr.finalize_non_root();
            with_mode(&m, |mode| hazmat::merge_subtrees_root_xof(&l, &rr, mode))
        }
        v => panic!("driver: unknown xof via {}", v),
    };
    for (i, op) in sc.arr("ops").iter().enumerate() {
        set(r, "at", i.to_string());
        let name = op.s("op");
        let mut o = O::new();
        o.st("op", name);
        match name {
            "fill" => {
                let mut buf = vec![0xA5u8; op.usize("n")];
                rd.fill(&mut buf);
                o.hx("hex", &buf);
            }
            "read" => {
                let mut buf = vec![0xA5u8; op.usize("n")];
                let res = Read::read(&mut rd, &mut buf);
                match res {
                    Ok(n) => {
                        o.n("n", n as u64);
                        o.hx("hex", &buf);
                    }
                    Err(e) => {
                        o.st("err", &format!("{:?}", e.kind()));
                    }
                }
            }
            "xofread" => {
                #[cfg(feature = "traits")]
                {
                    let mut buf = vec![0xA5u8; op.usize("n")];
                    blake3::traits::digest::XofReader::read(&mut rd, &mut buf);
                    o.hx("hex", &buf);
                }
                #[cfg(not(feature = "traits"))]
                {
                    let mut buf = vec![0xA5u8; op.usize("n")];
                    rd.fill(&mut buf);
                    o.hx("hex", &buf);
                    o.b("unsupported", true);
                }
            }
            "seek_relative" => {
                // provided method of std::io::Seek (an impl may override it): == seek(Current(v)) without the position
                let v = op.get("v").as_i128().unwrap_or(0);
                match rd.seek_relative(i64::try_from(v).expect("driver: offset out of range")) {
                    Ok(()) => {
                        o.raw("err", "null");
                    }
                    Err(e) => {
                        o.st("err", &format!("{:?}", e.kind()));
                    }
                }
                o.n("pos", rd.position());
            }
            "seek" => {
                let v = op.get("v").as_i128().unwrap_or(0);
                let sf = match op.s("kind") {
                    "start" => SeekFrom::Start(u64::try_from(v).expect("driver: start out of range")),
                    "current" => SeekFrom::Current(i64::try_from(v).expect("driver: current out of range")),
                    "end" => SeekFrom::End(i64::try_from(v).expect("driver: end out of range")),
                    k => panic!("driver: unknown seek kind {}", k),
                };
                match rd.seek(sf) {
                    Ok(p) => {
                        o.n("ok", p);
                    }
                    Err(e) => {
                        o.st("err", &format!("{:?}", e.kind()));
                    }
                }
            }
            "stream_position" => match rd.stream_position() {
                Ok(p) => {
                    o.n("ok", p);
                }
                Err(e) => {
                    o.st("err", &format!("{:?}", e.kind()));
                }
            },
            "set" => {
                rd.set_position(op.u64("v"));
            }
            "position" => {}
            "clone" => {
                // continue on a clone; the original must not be affected (checked by reading it)
                let mut orig = rd.clone();
                let c = rd.clone();
                let mut b1 = [0u8; 70];
                orig.fill(&mut b1);
                rd = c;
                let mut probe = rd.clone();
                let mut b2 = [0u8; 70];
                probe.fill(&mut b2);
                o.b("same", b1 == b2);
            }
            x => panic!("driver: unknown xof op {}", x),
        }
        o.n("pos", rd.position());
        push(r, "trace", o.fin());
    }
    set(r, "at", "null".into());
}

struct TreeCtx<'a> {
    m: &'a M,
    data: &'a [u8],
    base: u64,
    piece: usize,
    r: &'a R,
}

fn leaf_cv(c: &TreeCtx, off: usize, len: usize) -> [u8; 32] {
    let mut h = new_hasher(c.m);
    h.set_input_offset(c.base + off as u64);
    let d = &c.data[off..off + len];
    if c.piece == 0 {
        h.update(d);
    } else {
        for p in d.chunks(c.piece) {
            h.update(p);
        }
    }
    let cnt = h.count();
    let cv = h.finalize_non_root();
    let mut o = O::new();
    o.n("off", off as u64).n("len", len as u64).n("count", cnt).hx("cv", &cv);
    push(c.r, "leaves", o.fin());
    cv
}

enum Top {
    Leaf([u8; 32]),
    Pair([u8; 32], [u8; 32]),
}

fn tree_children(c: &TreeCtx, t: &J) -> Top {
    if t.has("l") {
        Top::Pair(tree_cv(c, t.get("l")), tree_cv(c, t.get("r")))
    } else {
        Top::Leaf(leaf_cv(c, t.usize("off"), t.usize("len")))
    }
}

fn tree_cv(c: &TreeCtx, t: &J) -> [u8; 32] {
    match tree_children(c, t) {
        Top::Leaf(cv) => cv,
        Top::Pair(l, rr) => with_mode(c.m, |mode| hazmat::merge_subtrees_non_root(&l, &rr, mode)),
    }
}

fn crate_left_len(len: usize) -> usize {
    let l = hazmat::left_subtree_len(len as u64);
    if l == 0 || l >= len as u64 || l % 1024 != 0 {
        panic!("observed: hazmat::left_subtree_len({}) returned {} which cannot split the input", len, l);
    }
    l as usize
}

fn rec_children(c: &TreeCtx, off: usize, len: usize, leaf_max: usize) -> Top {
    if len <= leaf_max {
        Top::Leaf(leaf_cv(c, off, len))
    } else {
        let l = crate_left_len(len);
        Top::Pair(rec_cv(c, off, l, leaf_max), rec_cv(c, off + l, len - l, leaf_max))
    }
}

fn rec_cv(c: &TreeCtx, off: usize, len: usize, leaf_max: usize) -> [u8; 32] {
    match rec_children(c, off, len, leaf_max) {
        Top::Leaf(cv) => cv,
        Top::Pair(l, rr) => with_mode(c.m, |mode| hazmat::merge_subtrees_non_root(&l, &rr, mode)),
    }
}

fn k_hazmat_tree(sc: &J, r: &R) {
    let m = parse_mode(sc);
    let data = gen_input(sc.get("input"));
    let c = TreeCtx { m: &m, data: &data, base: sc.u64("base"), piece: sc.usize("piece"), r };
    let top = if sc.s("decomposition") == "recursive" {
        rec_children(&c, 0, data.len(), sc.usize("leaf_max").max(1024))
    } else {
        tree_children(&c, sc.get("tree"))
    };
    match top {
        Top::Leaf(cv) => {
            set_hex(r, "out_hex", &cv);
            set(r, "top", "\"leaf\"".into());
        }
        Top::Pair(l, rr) => match sc.s("top") {
            "" | "root" => {
                let h = with_mode(&m, |mode| hazmat::merge_subtrees_root(&l, &rr, mode));
                set_hex(r, "out_hex", h.as_bytes());
                set(r, "top", "\"root\"".into());
            }
            "root_xof" => {
                let mut rd = with_mode(&m, |mode| hazmat::merge_subtrees_root_xof(&l, &rr, mode));
                rd.set_position(sc.u64("seek"));
                let mut buf = vec![0u8; sc.usize("n")];
                rd.fill(&mut buf);
                set_hex(r, "out_hex", &buf);
                set(r, "top", "\"root_xof\"".into());
            }
            "non_root" => {
                let cv = with_mode(&m, |mode| hazmat::merge_subtrees_non_root(&l, &rr, mode));
                set_hex(r, "out_hex", &cv);
                set(r, "top", "\"non_root\"".into());
            }
            t => panic!("driver: unknown top {}", t),
        },
    }
}

fn k_hazmat_fn(sc: &J, r: &R) {
    let v = sc.u64("v");
    match sc.s("fn") {
        "left_subtree_len" => {
            let x = hazmat::left_subtree_len(v);
            set(r, "ret", x.to_string());
        }
        "max_subtree_len" => match hazmat::max_subtree_len(v) {
            Some(x) => set(r, "ret", x.to_string()),
            None => set(r, "ret", "null".into()),
        },
        "hash_derive_key_context" => {
            let ck = hazmat::hash_derive_key_context(sc.s("context"));
            set_hex(r, "out_hex", &ck);
        }
        f => panic!("driver: unknown hazmat fn {}", f),
    }
}

fn k_hex(sc: &J, r: &R) {
    match sc.s("op") {
        "from_hex" => {
            let bytes: Vec<u8> = if sc.has("bytes_hex") { unhex(sc.s("bytes_hex")) } else { sc.s("s").as_bytes().to_vec() };
            match blake3::Hash::from_hex(&bytes) {
                Ok(h) => {
                    set(r, "accepted", "true".into());
                    set_hex(r, "out_hex", h.as_bytes());
                }
                Err(e) => {
                    set(r, "accepted", "false".into());
                    set(r, "err", esc(&e.to_string()));
                }
            }
            if let Ok(s) = std::str::from_utf8(&bytes) {
                let a = s.parse::<blake3::Hash>();
                let b = blake3::Hash::from_hex(s);
                let same = match (&a, &b) {
                    (Ok(x), Ok(y)) => x == y,
                    (Err(_), Err(_)) => true,
                    _ => false,
                };
                set(r, "from_str_same", (if same { "true" } else { "false" }).into());
            }
        }
        "roundtrip" => {
            let b = hex32(sc.s("bytes_hex"));
            let h = blake3::Hash::from_bytes(b);
            let hx = h.to_hex();
            set(r, "to_hex", esc(hx.as_str()));
            set(r, "display", esc(&format!("{}", h)));
            set(r, "debug", esc(&format!("{:?}", h)));
            // Display under formatter settings: the text is the 64 hex digits whatever width / precision / fill /
            // alignment / flags the caller's format string carries
            let specs: Vec<String> = vec![
                format!("{:.8}", h), format!("{:.0}", h), format!("{:>72}", h), format!("{:0>80}", h), format!("{:<70}", h),
                format!("{:^66}", h), format!("{:#}", h), format!("{:+}", h), format!("{:100.70}", h), format!("{:1}", h),
                h.to_string(),
            ];
            let all_same = specs.iter().all(|t| t.as_str() == hx.as_str());
            set(r, "display_specs_same", all_same.to_string());
            if !all_same {
                set(r, "display_specs", esc(&specs.join("|")));
            }
            set_hex(r, "as_bytes", h.as_bytes());
            set_hex(r, "as_slice", h.as_slice());
            let arr: [u8; 32] = h.into();
            set_hex(r, "into_array", &arr);
            let h2: blake3::Hash = b.into();
            let back = blake3::Hash::from_hex(hx.as_str());
            let upper = blake3::Hash::from_hex(hx.as_str().to_uppercase());
            set(r, "back_same", (matches!(&back, Ok(x) if *x == h && x.as_bytes() == &b)).to_string());
            set(r, "upper_same", (matches!(&upper, Ok(x) if *x == h && x.as_bytes() == &b)).to_string());
            set(r, "from_same", (h2 == h).to_string());
        }
        "from_slice" => {
            let b = unhex(sc.s("bytes_hex"));
            match blake3::Hash::from_slice(&b) {
                Ok(h) => {
                    set(r, "accepted", "true".into());
                    set_hex(r, "out_hex", h.as_bytes());
                }
                Err(_) => set(r, "accepted", "false".into()),
            }
        }
        "eq" => {
            let a = blake3::Hash::from_bytes(hex32(sc.s("a_hex")));
            let b = unhex(sc.s("b_hex"));
            set(r, "eq_slice", (a == b[..]).to_string());
            if b.len() == 32 {
                let mut ba = [0u8; 32];
                ba.copy_from_slice(&b);
                set(r, "eq_array", (a == ba).to_string());
                set(r, "eq_hash", (a == blake3::Hash::from_bytes(ba)).to_string());
                set(r, "ne_hash", (a != blake3::Hash::from_bytes(ba)).to_string());
            }
        }
        "serde" => {
            // C14: "Conversions through ... serde (sequence form, plus the legacy byte-string form in self-describing
            // formats) are lossless": a sequence / byte string of exactly 32 bytes is accepted and gives those bytes,
            // everything else is rejected; serializing gives the 32-element sequence back
            #[cfg(feature = "serde")]
            {
                let b = unhex(sc.s("bytes_hex"));
                let json = format!("[{}]", b.iter().map(|x| x.to_string()).collect::<Vec<_>>().join(","));
                match serde_json::from_str::<blake3::Hash>(&json) {
                    Ok(h) => {
                        set(r, "json_accepted", "true".into());
                        set_hex(r, "json_out_hex", h.as_bytes());
                    }
                    Err(_) => set(r, "json_accepted", "false".into()),
                }
                // CBOR array of small ints and CBOR byte string (legacy form)
                let mut arr = Vec::<u8>::new();
                ciborium::into_writer(&b.iter().map(|x| *x as u64).collect::<Vec<u64>>(), &mut arr).unwrap();
                match ciborium::from_reader::<blake3::Hash, _>(&arr[..]) {
                    Ok(h) => {
                        set(r, "cbor_accepted", "true".into());
                        set_hex(r, "cbor_out_hex", h.as_bytes());
                    }
                    Err(_) => set(r, "cbor_accepted", "false".into()),
                }
                let mut bs = Vec::<u8>::new();
                ciborium::into_writer(&ciborium::Value::Bytes(b.clone()), &mut bs).unwrap();
                match ciborium::from_reader::<blake3::Hash, _>(&bs[..]) {
                    Ok(h) => {
                        set(r, "bytes_accepted", "true".into());
                        set_hex(r, "bytes_out_hex", h.as_bytes());
                    }
                    Err(_) => set(r, "bytes_accepted", "false".into()),
                }
                if b.len() == 32 {
                    let mut a32 = [0u8; 32];
                    a32.copy_from_slice(&b);
                    let h = blake3::Hash::from_bytes(a32);
                    set(r, "to_json", esc(&serde_json::to_string(&h).unwrap()));
                }
                set(r, "skipped", "false".into());
            }
            #[cfg(not(feature = "serde"))]
            {
                set(r, "skipped", "true".into());
            }
        }
        o => panic!("driver: unknown hex op {}", o),
    }
}

fn k_guts(sc: &J, r: &R) {
    use blake3::guts;
    match sc.s("op") {
        "" | "chunk" => {
            let data = gen_input(sc.get("input"));
            let mut cs = guts::ChunkState::new(sc.u64("chunk_counter"));
            push(r, "lens", cs.len().to_string());
            let mut prev = 0usize;
            for s in sc.arr("splits") {
                let s = s.as_i128().unwrap() as usize;
                cs.update(&data[prev..s]);
                push(r, "lens", cs.len().to_string());
                prev = s;
            }
            cs.update(&data[prev..]);
            push(r, "lens", cs.len().to_string());
            let h = cs.finalize(sc.bool("is_root"));
            set_hex(r, "out_hex", h.as_bytes());
            let h2 = cs.clone().finalize(sc.bool("is_root"));
            set(r, "stable", (h == h2).to_string());
        }
        "parent_cv" => {
            let l = blake3::Hash::from_bytes(hex32(sc.s("left_hex")));
            let rr = blake3::Hash::from_bytes(hex32(sc.s("right_hex")));
            let h = guts::parent_cv(&l, &rr, sc.bool("is_root"));
            set_hex(r, "out_hex", h.as_bytes());
        }
        "consts" => {
            set(r, "block_len", guts::BLOCK_LEN.to_string());
            set(r, "chunk_len", guts::CHUNK_LEN.to_string());
            set(r, "out_len", blake3::OUT_LEN.to_string());
            set(r, "key_len", blake3::KEY_LEN.to_string());
        }
        o => panic!("driver: unknown guts op {}", o),
    }
}

fn k_reader(sc: &J, r: &R) {
    let m = parse_mode(sc);
    let data = gen_input(sc.get("input"));
    let mut pat = Vec::new();
    for p in sc.arr("read_pattern") {
        match p {
            J::Num(n) => pat.push(Step::N(*n as usize)),
            J::Str(s) if s == "interrupt" => pat.push(Step::Interrupt),
            J::Str(s) if s == "error" => pat.push(Step::Error),
            _ => panic!("driver: bad read_pattern element"),
        }
    }
    let mut rd = PatReader { data: &data, pos: 0, pat, i: 0, err_fired: false, max_buf: 0, calls: 0 };
    let mut h = new_hasher(&m);
    let pre = sc.usize("pre_update");
    if pre > 0 {
        // some bytes are absorbed with update() first, then the reader supplies the rest
        h.update(&data[..pre]);
        rd.pos = pre;
    }
    let rounds = if sc.bool("resume") { 2 } else { 1 };
    for _ in 0..rounds {
        let res = h.update_reader(&mut rd);
        let mut o = O::new();
        match res {
            Ok(_) => {
                o.st("result", "ok");
            }
            Err(e) => {
                o.st("result", &format!("err:{:?}", e.kind()));
            }
        }
        o.n("delivered", rd.pos as u64);
        o.n("count", h.count());
        o.hx("hex", h.finalize().as_bytes());
        o.n("max_buf", rd.max_buf as u64);
        push(r, "rounds", o.fin());
    }
}

fn parse_platform(name: &str) -> Option<Platform> {
    match name {
        "portable" => Some(Platform::portable()),
        "detect" | "" => Some(Platform::detect()),
        #[cfg(any(target_arch = "x86", target_arch = "x86_64"))]
        "sse2" => Platform::sse2(),
        #[cfg(any(target_arch = "x86", target_arch = "x86_64"))]
        "sse41" => Platform::sse41(),
        #[cfg(any(target_arch = "x86", target_arch = "x86_64"))]
        "avx2" => Platform::avx2(),
        _ => None,
    }
}

fn hash_many_n<const N: usize>(p: Platform, data: &[u8], sc: &J, key: &[u32; 8], r: &R) {
    let n = data.len() / N;
    let mut refs: Vec<&[u8; N]> = Vec::new();
    for i in 0..n {
        refs.push(data[i * N..(i + 1) * N].try_into().unwrap());
    }
    let mut out = vec![0u8; n * 32 + 32];
    let guard = 0xC3u8;
    for b in out.iter_mut() {
        *b = guard;
    }
    let inc = if sc.bool("increment") { blake3::IncrementCounter::Yes } else { blake3::IncrementCounter::No };
    p.hash_many(
        &refs,
        key,
        sc.u64("counter"),
        inc,
        sc.u64("flags") as u8,
        sc.u64("flags_start") as u8,
        sc.u64("flags_end") as u8,
        &mut out[..n * 32],
    );
    set_hex(r, "out_hex", &out[..n * 32]);
    set(r, "guard_intact", out[n * 32..].iter().all(|&b| b == guard).to_string());
}

fn k_platform(sc: &J, r: &R) {
    let p = match parse_platform(sc.s("platform")) {
        Some(p) => p,
        None => {
            set(r, "unsupported", "true".into());
            return;
        }
    };
    set(r, "platform", esc(&format!("{:?}", p)));
    set(r, "simd_degree", p.simd_degree().to_string());
    let cvb = hex32(sc.s("cv_hex"));
    let cv = blake3::platform::words_from_le_bytes_32(&cvb);
    match sc.s("fn") {
        "compress_in_place" | "compress_xof" => {
            let bl = unhex(sc.s("block_hex"));
            let mut block = [0u8; 64];
            block.copy_from_slice(&bl);
            let block_len = sc.u64("block_len") as u8;
            let counter = sc.u64("counter");
            let flags = sc.u64("flags") as u8;
            if sc.s("fn") == "compress_in_place" {
                let mut c = cv;
                p.compress_in_place(&mut c, &block, block_len, counter, flags);
                set_hex(r, "out_hex", &blake3::platform::le_bytes_from_words_32(&c));
            } else {
                let out = p.compress_xof(&cv, &block, block_len, counter, flags);
                set_hex(r, "out_hex", &out);
            }
        }
        "xof_many" => {
            let bl = unhex(sc.s("block_hex"));
            let mut block = [0u8; 64];
            block.copy_from_slice(&bl);
            let nblocks = sc.usize("blocks");
            let mut out = vec![0xC3u8; nblocks * 64 + 64];
            p.xof_many(&cv, &block, sc.u64("block_len") as u8, sc.u64("counter"), sc.u64("flags") as u8, &mut out[..nblocks * 64]);
            set_hex(r, "out_hex", &out[..nblocks * 64]);
            set(r, "guard_intact", out[nblocks * 64..].iter().all(|&b| b == 0xC3).to_string());
        }
        "hash_many" => {
            let data = gen_input(sc.get("input"));
            match sc.usize("n") {
                64 => hash_many_n::<64>(p, &data, sc, &cv, r),
                1024 => hash_many_n::<1024>(p, &data, sc, &cv, r),
                2048 => hash_many_n::<2048>(p, &data, sc, &cv, r),
                128 => hash_many_n::<128>(p, &data, sc, &cv, r),
                n => panic!("driver: hash_many n={} not instantiated", n),
            }
        }
        "words" => {
            // byte/word conversion helpers
            let b64 = unhex(sc.s("block_hex"));
            let mut block = [0u8; 64];
            block.copy_from_slice(&b64);
            let w32 = blake3::platform::words_from_le_bytes_32(&cvb);
            let w64 = blake3::platform::words_from_le_bytes_64(&block);
            set(r, "w32", jlist(&w32.iter().map(|w| w.to_string()).collect::<Vec<_>>()));
            set(r, "w64", jlist(&w64.iter().map(|w| w.to_string()).collect::<Vec<_>>()));
            set_hex(r, "b32", &blake3::platform::le_bytes_from_words_32(&w32));
            set_hex(r, "b64", &blake3::platform::le_bytes_from_words_64(&w64));
        }
        f => panic!("driver: unknown platform fn {}", f),
    }
}

// update_mmap / update_mmap_rayon on a file that can be opened, seeked and read but (possibly) not mapped
// must give what update_reader gives on a freshly opened handle
// an unseekable source (named pipe) fed with `n` bytes by a writer thread: update_mmap / update_mmap_rayon must
// fall back to ordinary reads and give the hash of those bytes
#[cfg(feature = "mmap")]
fn fifo_case(n: usize, rayon: bool) -> Result<(u64, blake3::Hash), String> {
    // inside the scratch directory of this search run (removed with it), never in /tmp itself
    let base = std::env::var("REPLAY_SCRATCH").map(std::path::PathBuf::from).unwrap_or_else(|_| std::env::temp_dir());
    let dir = base.join(format!("vf_fifo_{}_{}_{}", std::process::id(), n, rayon));
    let _ = std::fs::remove_file(&dir);
    let st = std::process::Command::new("mkfifo").arg(&dir).status().map_err(|e| e.to_string())?;
    if !st.success() {
        return Err("mkfifo failed".into());
    }
    let p2 = dir.clone();
    let w = std::thread::spawn(move || {
        let mut f = std::fs::OpenOptions::new().write(true).open(&p2).expect("driver: open fifo for writing");
        let data: Vec<u8> = (0..n).map(|i| (i % 251) as u8).collect();
        let _ = f.write_all(&data);
    });
    let mut h = Hasher::new();
    let res = if rayon {
        #[cfg(feature = "rayon")]
        {
            h.update_mmap_rayon(&dir).map(|_| ())
        }
        #[cfg(not(feature = "rayon"))]
        {
            h.update_mmap(&dir).map(|_| ())
        }
    } else {
        h.update_mmap(&dir).map(|_| ())
    };
    // (the reader side was open while the call ran, so the writer is past its open(); once the call has dropped
    // the file a blocked write fails with EPIPE and the thread ends)
    let _ = w.join();
    let _ = std::fs::remove_file(&dir);
    match res {
        Ok(()) => Ok((h.count(), h.finalize())),
        Err(e) => Err(format!("error: {}", e)),
    }
}

fn k_mmap_special(sc: &J, r: &R) {
    let path = sc.s("path");
    // a block device (loop device over a scratch file; needs root and losetup, skipped otherwise): its length is
    // visible to seek but not to fstat
    #[cfg(feature = "mmap")]
    if path.starts_with("loop:") {
        let n: usize = path[5..].parse().unwrap_or(0);
        let base = std::env::var("REPLAY_SCRATCH").map(std::path::PathBuf::from).unwrap_or_else(|_| std::env::temp_dir());
        let img = base.join(format!("vf_loop_{}_{}.img", std::process::id(), n));
        let data: Vec<u8> = (0..n).map(|i| (i % 251) as u8).collect();
        std::fs::write(&img, &data).expect("driver: cannot write loop image");
        let out = std::process::Command::new("losetup").args(["-f", "--show", "-r"]).arg(&img).output();
        let dev = match out {
            Ok(o) if o.status.success() => String::from_utf8_lossy(&o.stdout).trim().to_string(),
            _ => String::new(),
        };
        if dev.is_empty() || !std::path::Path::new(&dev).exists() {
            let _ = std::fs::remove_file(&img);
            set(r, "skipped", "true".into());
            set(r, "same", "true".into());
            return;
        }
        let want = blake3::hash(&data);
        let mut same = true;
        let mut what = String::new();
        let mut h2 = Hasher::new();
        let r2 = h2.update_mmap(&dev).is_ok();
        if !r2 || h2.count() != n as u64 || h2.finalize() != want {
            same = false;
            what = format!("block device of {} bytes: update_mmap ok={} count={}", n, r2, h2.count());
        }
        #[cfg(feature = "rayon")]
        {
            let mut h3 = Hasher::new();
            let r3 = h3.update_mmap_rayon(&dev).is_ok();
            if !r3 || h3.count() != n as u64 || h3.finalize() != want {
                same = false;
                what = format!("block device of {} bytes: update_mmap_rayon ok={} count={}", n, r3, h3.count());
            }
        }
        let _ = std::process::Command::new("losetup").arg("-d").arg(&dev).status();
        let _ = std::fs::remove_file(&img);
        set(r, "skipped", "false".into());
        set(r, "same", same.to_string());
        set(r, "detail", esc(&what));
        return;
    }
    #[cfg(feature = "mmap")]
    if path.starts_with("fifo:") {
        let n: usize = path[5..].parse().unwrap_or(0);
        let data: Vec<u8> = (0..n).map(|i| (i % 251) as u8).collect();
        let want = blake3::hash(&data);
        let mut same = true;
        let mut what = String::new();
        for rayon in [false, true] {
            match fifo_case(n, rayon) {
                Ok((c, h)) => {
                    if c != n as u64 || h != want {
                        same = false;
                        what = format!("named pipe with {} bytes: count {} hash {}", n, c, h.to_hex());
                    }
                }
                Err(e) => {
                    if e != "mkfifo failed" {
                        same = false;
                        what = format!("named pipe with {} bytes (rayon={}): {}", n, rayon, e);
                    }
                }
            }
        }
        set(r, "skipped", "false".into());
        set(r, "same", same.to_string());
        set(r, "detail", esc(&what));
        return;
    }
    #[cfg(feature = "mmap")]
    {
        let meta = std::fs::metadata(path);
        let usable = match &meta {
            Ok(m) => m.is_file() && m.len() >= 16384,
            Err(_) => false,
        };
        if !usable {
            set(r, "skipped", "true".into());
            set(r, "same", "true".into());
            return;
        }
        let mut h1 = Hasher::new();
        let f = std::fs::File::open(path).expect("driver: open");
        let r1 = h1.update_reader(f).is_ok();
        let mut h2 = Hasher::new();
        let r2 = h2.update_mmap(path).is_ok();
        let mut same = r1 == r2 && h1.count() == h2.count() && h1.finalize() == h2.finalize();
        #[cfg(feature = "rayon")]
        {
            let mut h3 = Hasher::new();
            let r3 = h3.update_mmap_rayon(path).is_ok();
            same = same && r1 == r3 && h1.count() == h3.count() && h1.finalize() == h3.finalize();
        }
        set(r, "skipped", "false".into());
        set(r, "same", same.to_string());
        set(r, "reader_count", h1.count().to_string());
        set(r, "mmap_count", h2.count().to_string());
    }
    #[cfg(not(feature = "mmap"))]
    {
        let _ = path;
        set(r, "skipped", "true".into());
        set(r, "same", "true".into());
    }
}

// After zeroize() no byte of the object may still hold key-, chaining-value- or input-derived data: the object
// is driven through `updates` (sizes), every secret 32-byte value that can have lived in it is recomputed through
// the public API (key / context key, the chaining value of every aligned power-of-two block of complete chunks,
// the last buffered bytes), zeroize() is called, and the raw object bytes are searched for those values.
fn k_zeroize_probe(sc: &J, r: &R) {
    #[cfg(feature = "zeroize")]
    {
        use zeroize::Zeroize;
        let m = parse_mode(sc);
        let data = gen_input(sc.get("input"));
        let mut h = new_hasher(&m);
        let mut pos = 0usize;
        for u in sc.arr("updates") {
            let n = (u.as_i128().unwrap_or(0) as usize).min(data.len() - pos);
            h.update(&data[pos..pos + n]);
            pos += n;
        }
        if sc.bool("reset_after") {
            h.reset();
        }
        let mut secrets: Vec<(String, Vec<u8>)> = Vec::new();
        match &m {
            M::Keyed(k) | M::Ck(k) => secrets.push(("key".into(), k.to_vec())),
            M::Derive(c) => secrets.push(("context key".into(), hazmat::hash_derive_key_context(c).to_vec())),
            M::Hash => {}
        }
        let chunks = pos / 1024;
        let mut s = 1usize;
        while s <= chunks {
            let mut o = 0usize;
            while o + s <= chunks {
                let mut sub = new_hasher(&m);
                sub.set_input_offset((o * 1024) as u64);
                sub.update(&data[o * 1024..(o + s) * 1024]);
                secrets.push((format!("cv of chunks {}..{}", o, o + s), sub.finalize_non_root().to_vec()));
                o += s;
            }
            s *= 2;
        }
        let tail = &data[..pos];
        if tail.len() % 64 >= 16 || (tail.len() >= 64 && tail.len() % 64 == 0) {
            let start = if tail.len() % 64 == 0 { tail.len() - 64 } else { tail.len() - tail.len() % 64 };
            secrets.push(("buffered input bytes".into(), tail[start..start + 16].to_vec()));
        }
        // an OutputReader of the same state, and the hash
        let mut rd = h.finalize_xof();
        let mut first = [0u8; 64];
        rd.fill(&mut first);
        // optional reader script before the wipe: [["fill", n] | ["set", position]]*
        for step in sc.arr("reader_ops") {
            let what = step.s("op");
            let v = step.get("v").as_i128().unwrap_or(0);
            if what == "fill" {
                let mut b = vec![0u8; v as usize];
                rd.fill(&mut b);
            } else if what == "set" {
                rd.set_position(v as u64);
            }
        }
        // the first 256 bytes of the output stream are secret too (block 0 starts with the hash / MAC / derived key)
        let mut stream = [0u8; 256];
        {
            let mut rd2 = h.finalize_xof();
            rd2.fill(&mut stream);
        }
        let mut hash = h.finalize();
        secrets.push(("hash".into(), hash.as_bytes().to_vec()));
        h.zeroize();
        rd.zeroize();
        hash.zeroize();
        fn raw<T>(x: &T) -> &[u8] {
            unsafe { std::slice::from_raw_parts(x as *const T as *const u8, std::mem::size_of::<T>()) }
        }
        let mut residue = String::new();
        for (what, obj) in [("Hasher", raw(&h)), ("OutputReader", raw(&rd)), ("Hash", raw(&hash))] {
            for (name, pat) in &secrets {
                if pat.iter().all(|b| *b == 0) {
                    continue;
                }
                if obj.windows(pat.len()).any(|w| w == &pat[..]) {
                    residue = format!("{}: {}", what, name);
                }
            }
        }
        // raw input: ANY 8 consecutive bytes of what was absorbed (the block buffer may keep stale tails)
        if residue.is_empty() && pos >= 8 {
            let mut wins: std::collections::HashSet<[u8; 8]> = std::collections::HashSet::new();
            for w in data[..pos].windows(8).chain(stream.windows(8)) {
                if w.iter().any(|b| *b != 0) {
                    let mut a = [0u8; 8];
                    a.copy_from_slice(w);
                    wins.insert(a);
                }
            }
            for (what, obj) in [("Hasher", raw(&h)), ("OutputReader", raw(&rd)), ("Hash", raw(&hash))] {
                for (i, w) in obj.windows(8).enumerate() {
                    let mut a = [0u8; 8];
                    a.copy_from_slice(w);
                    if wins.contains(&a) {
                        residue = format!("{}: 8 input or output-stream bytes at object offset {}", what, i);
                        break;
                    }
                }
            }
        }
        set(r, "residue", (!residue.is_empty()).to_string());
        set(r, "residue_what", esc(&residue));
        set(r, "skipped", "false".into());
    }
    #[cfg(not(feature = "zeroize"))]
    {
        let _ = sc;
        set(r, "residue", "false".into());
        set(r, "skipped", "true".into());
    }
}

// C17, Debug side: two states of the same shape (same mode constructor, same number of input bytes fed with the same
// splits, same output position) that differ only in secret data (key / context, input bytes) must render the same
// `{:?}` and `{:#?}` text, for Hasher, OutputReader and guts::ChunkState.
fn k_debug_pair(sc: &J, r: &R) {
    let ma = parse_mode(sc.get("a"));
    let mb = parse_mode(sc.get("b"));
    let da = gen_input(sc.get("a").get("input"));
    let db = gen_input(sc.get("b").get("input"));
    let mut ha = new_hasher(&ma);
    let mut hb = new_hasher(&mb);
    let (mut pa, mut pb) = (0usize, 0usize);
    for u in sc.arr("updates") {
        let n = u.as_i128().unwrap_or(0) as usize;
        let na = n.min(da.len() - pa);
        let nb = n.min(db.len() - pb);
        ha.update(&da[pa..pa + na]);
        hb.update(&db[pb..pb + nb]);
        pa += na;
        pb += nb;
    }
    let mut diff = String::new();
    let (a1, b1) = (format!("{:?}", ha), format!("{:?}", hb));
    let (a2, b2) = (format!("{:#?}", ha), format!("{:#?}", hb));
    if a1 != b1 || a2 != b2 {
        diff = format!("Hasher: {} <> {}", a1, b1);
    }
    let mut ra = ha.finalize_xof();
    let mut rb = hb.finalize_xof();
    let skip = sc.usize("read");
    let mut buf = vec![0u8; skip];
    ra.fill(&mut buf);
    rb.fill(&mut buf);
    let (a1, b1) = (format!("{:?}", ra), format!("{:?}", rb));
    let (a2, b2) = (format!("{:#?}", ra), format!("{:#?}", rb));
    if diff.is_empty() && (a1 != b1 || a2 != b2) {
        diff = format!("OutputReader: {} <> {}", a1, b1);
    }
    {
        use blake3::guts;
        let mut ca = guts::ChunkState::new(sc.u64("chunk_counter"));
        let mut cb = guts::ChunkState::new(sc.u64("chunk_counter"));
        let n = da.len().min(db.len()).min(1024);
        ca.update(&da[..n]);
        cb.update(&db[..n]);
        let (a1, b1) = (format!("{:?}", ca), format!("{:?}", cb));
        let (a2, b2) = (format!("{:#?}", ca), format!("{:#?}", cb));
        if diff.is_empty() && (a1 != b1 || a2 != b2) {
            diff = format!("guts::ChunkState: {} <> {}", a1, b1);
        }
    }
    set(r, "debug_same", diff.is_empty().to_string());
    set(r, "debug_diff", esc(&diff));
}

fn k_info(r: &R) {
    set(r, "hasher_debug", esc(&format!("{:?}", Hasher::new())));
    set(r, "detect", esc(&format!("{:?}", Platform::detect())));
    set(r, "debug_assertions", cfg!(debug_assertions).to_string());
    let mut f: Vec<String> = Vec::new();
    if cfg!(feature = "traits") {
        f.push("\"traits\"".into());
    }
    if cfg!(feature = "rayon") {
        f.push("\"rayon\"".into());
    }
    if cfg!(feature = "mmap") {
        f.push("\"mmap\"".into());
    }
    set(r, "driver_features", jlist(&f));
    // are overflow checks on?  (computed at run time so the compiler cannot fold it)
    let x: u8 = std::env::args().count() as u8;
    let ov = catch_unwind(|| {
        let y = x.wrapping_add(254);
        #[allow(arithmetic_overflow)]
        let z = y + 2;
        z
    });
    set(r, "overflow_checks", ov.is_err().to_string());
}

// ------------------------------------------------------------------------------------------
static PANIC_LOC: Mutex<Option<String>> = Mutex::new(None);
static CUR_START_MS: AtomicU64 = AtomicU64::new(0);
static CUR_ID: AtomicU64 = AtomicU64::new(0);

fn now_ms() -> u64 {
    std::time::SystemTime::now().duration_since(std::time::UNIX_EPOCH).unwrap().as_millis() as u64
}

fn main() {
    let mut inp = String::new();
    std::io::stdin().read_to_string(&mut inp).expect("stdin");
    let scenarios = {
        let mut p = P { s: inp.as_bytes(), i: 0 };
        match p.value() {
            J::Arr(v) => v,
            _ => panic!("driver: expected a JSON list"),
        }
    };
    let scratch = std::env::var("REPLAY_SCRATCH").unwrap_or_else(|_| ".".into());
    let limit_ms: u64 = std::env::var("REPLAY_SCENARIO_TIMEOUT_MS").ok().and_then(|s| s.parse().ok()).unwrap_or(20000);

    std::panic::set_hook(Box::new(|info| {
        let loc = info.location().map(|l| format!("{}:{}", l.file(), l.line()));
        if let Ok(mut g) = PANIC_LOC.lock() {
            if g.is_none() {
                *g = loc;
            }
        }
    }));

    std::thread::spawn(move || loop {
        std::thread::sleep(std::time::Duration::from_millis(100));
        let st = CUR_START_MS.load(Ordering::SeqCst);
        if st != 0 && now_ms().saturating_sub(st) > limit_ms {
            let id = CUR_ID.load(Ordering::SeqCst);
            let out = std::io::stdout();
            let mut lk = out.lock();
            let _ = writeln!(lk, "{{\"id\":{},\"ok\":false,\"hang\":true,\"panic\":null}}", id);
            let _ = lk.flush();
            std::process::exit(3);
        }
    });

    let stdout = std::io::stdout();
    for sc in &scenarios {
        let id = sc.u64("id");
        CUR_ID.store(id, Ordering::SeqCst);
        CUR_START_MS.store(now_ms(), Ordering::SeqCst);
        *PANIC_LOC.lock().unwrap() = None;
        let rec: R = RefCell::new(Rec::default());
        let res = catch_unwind(AssertUnwindSafe(|| match sc.s("kind") {
            "oneshot" => k_oneshot(sc, &rec),
            "ops" => k_ops(sc, &rec, &scratch),
            "xof" => k_xof(sc, &rec),
            "hazmat_tree" => k_hazmat_tree(sc, &rec),
            "hazmat_fn" => k_hazmat_fn(sc, &rec),
            "hex" => k_hex(sc, &rec),
            "guts" => k_guts(sc, &rec),
            "reader" => k_reader(sc, &rec),
            "platform" => k_platform(sc, &rec),
            "info" => k_info(&rec),
            "mmap_special" => k_mmap_special(sc, &rec),
            "zeroize_probe" => k_zeroize_probe(sc, &rec),
            "debug_pair" => k_debug_pair(sc, &rec),
            k => panic!("driver: unknown kind {:?}", k),
        }));
        CUR_START_MS.store(0, Ordering::SeqCst);
        let mut o = O::new();
        o.n("id", id);
        match &res {
            Ok(()) => {
                o.b("ok", true);
                o.raw("panic", "null");
            }
            Err(p) => {
                let msg = if let Some(s) = p.downcast_ref::<&str>() {
                    s.to_string()
                } else if let Some(s) = p.downcast_ref::<String>() {
                    s.clone()
                } else {
                    "<non-string panic payload>".to_string()
                };
                o.b("ok", false);
                o.st("panic", &msg);
                let loc = PANIC_LOC.lock().unwrap().clone().unwrap_or_default();
                o.st("panic_loc", &loc);
            }
        }
        let rec = match rec.try_borrow_mut() {
            Ok(mut g) => std::mem::take(&mut *g),
            Err(_) => Rec::default(),
        };
        for (k, v) in &rec.fields {
            o.raw(k, v);
        }
        for (k, v) in &rec.lists {
            o.raw(k, &jlist(v));
        }
        let mut lk = stdout.lock();
        writeln!(lk, "{}", o.fin()).unwrap();
        lk.flush().unwrap();
    }
}
