"""Which verification units decide which property, at which tier; static parts of the evidence."""

V = ("verus",)


def v(unit, config="A", **opts):
    kw = {"config": config}
    if opts:
        kw["opts"] = opts
    return ("verus", unit, kw)


def c(unit):
    return ("cbmc", unit, {})


def k(unit):
    return ("kani", unit, {})


SIMD_ASSUMPTION = ("SIMD kernels (sse2/sse41/avx2/avx512/neon: assembly, C and Rust intrinsics) are ASSUMED to equal "
                   "the specification's compression function with the frames of their signatures (this is property "
                   "C05, not decidable by this family here); proved unconditionally for Platform::Portable")
TYPE_ASSUMPTION = ("Rust's type system for what it guarantees by construction: &self methods do not mutate, &mut "
                   "borrows are exclusive, derive(Clone) copies field-wise")
EXTRACTION = ("the extraction rules R1-R19 of DESIGN.md 3.1 (token-level rewrites applied to the real source on every "
              "run) preserve meaning; `use` declarations, attributes and visibility are dropped")

PROPS = {
    "C01": {
        "level": "proof",
        "design_ref": "4.1",
        "technique": "Verus function contracts against a spec-function transcription of the BLAKE3 paper",
        "level_text": "unbounded deductive proof (Verus/z3) that the real portable compression function and the "
                      "byte/word helpers equal the paper's G/round/permutation definition for all arguments",
        "level_note": "trusted: Verus+z3, extraction rules, std intrinsics (rotate_right, from/to_le_bytes), SIMD "
                      "kernels assumed (C05)",
        "units": {"quick": [v("compress")], "thorough": []},
        "explanation": "Verus discharges, for all inputs, the postconditions that tie the real (mechanically "
                       "extracted) functions of src/lib.rs, src/portable.rs, src/platform.rs, src/hazmat.rs to a "
                       "BLAKE3 specification written as spec functions from the paper; every arithmetic operation, "
                       "index, slice, unwrap, ArrayVec::push and (debug_)assert in those functions is an obligation.",
        "uncovered": [],
        "assumptions": [SIMD_ASSUMPTION, EXTRACTION],
    },
}

NOT_APPLICABLE = {
    "C05": "SIMD kernels == portable kernel: no installed contract verifier reaches them (assembly has no front end; "
           "CBMC crashes on the C vector intrinsics; Kani's ARX equivalence query did not terminate in 25 min on four "
           "solvers). It is the stated assumption under C01-C04/C09.",
    "C12": "b3sum end-to-end behaviour is a property of a process (argv, stdin/stdout text, exit status, file system) "
           "of a binary that cannot be built offline unmodified; function contracts reach only fragments, which are "
           "decided under C03/C11/C13/C14.",
}
for _p in ["C02", "C03", "C04", "C06", "C07", "C08", "C09", "C10", "C11", "C13", "C14", "C15", "C16", "C17", "C18"]:
    NOT_APPLICABLE.setdefault(_p, "check not built yet (work in progress; see DESIGN.md for the plan)")
