"""Which verification units decide which property, at which tier; static parts of the evidence."""

V = ("verus",)


def v(unit, config="A", **opts):
    kw = {"config": config}
    if opts:
        kw["opts"] = opts
    return ("verus", unit, kw)


def c(unit):
    return ("cbmc", unit, {})


def k(unit):
    return ("kani", unit, {})


def e(unit):
    return ("eval", unit, {})


def g(unit):
    return ("guard", unit, {})


def s(unit):
    """bounded differential exploration (thorough tier only, never counted as proved): lib/search_backend.py"""
    return ("search", unit, {})


SIMD_ASSUMPTION = ("SIMD kernels (sse2/sse41/avx2/avx512/neon: assembly, C and Rust intrinsics) are ASSUMED to equal "
                   "the specification's compression function with the frames of their signatures (this is property "
                   "C05, not decidable by this family here); proved unconditionally for Platform::Portable")
TYPE_ASSUMPTION = ("Rust's type system for what it guarantees by construction: &self methods do not mutate, &mut "
                   "borrows are exclusive, derive(Clone) copies field-wise")
EXTRACTION = ("the extraction rules R1-R19 of DESIGN.md 3.1 (token-level rewrites applied to the real source on every "
              "run) preserve meaning; `use` declarations, attributes and visibility are dropped")

PROPS = {}
NOT_APPLICABLE = {}
import glob as _glob
import importlib.util as _ilu
import os as _os

_here = _os.path.dirname(_os.path.abspath(__file__))
for _f in sorted(_glob.glob(_os.path.join(_here, "propdefs", "*.py"))):
    _s = _ilu.spec_from_file_location("propdefs_" + _os.path.basename(_f)[:-3], _f)
    _m = _ilu.module_from_spec(_s)
    for _n in ("v", "c", "k", "e", "g", "s", "SIMD_ASSUMPTION", "TYPE_ASSUMPTION", "EXTRACTION"):
        setattr(_m, _n, globals()[_n])
    _s.loader.exec_module(_m)
    PROPS.update(getattr(_m, "PROPS", {}))

NOT_APPLICABLE.update({
    "C05": "SIMD kernels == portable kernel: no installed contract verifier reaches them (assembly has no front end; "
           "CBMC crashes on the C vector intrinsics; Kani's ARX equivalence query did not terminate in 25 min on four "
           "solvers). It is the stated assumption under C01-C04/C09.",
})
