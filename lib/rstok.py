"""A small Rust tokenizer and item cutter (no dependency on rustc).

It understands just enough of Rust's lexical structure to cut a source file into items and
to rewrite function bodies at token level: line/block (nested) comments, string / raw string /
byte string / char / byte literals, lifetimes, identifiers, numbers, punctuation (one char
per token), balanced delimiters.
"""
import re


class Tok:
    __slots__ = ("k", "s", "pos", "line", "src")

    def __init__(self, k, s, pos, line):
        self.k, self.s, self.pos, self.line, self.src = k, s, pos, line, None

    def __repr__(self):
        return "%s:%r@%d" % (self.k, self.s, self.line)


_ident = re.compile(r"[A-Za-z_][A-Za-z0-9_]*")
_num = re.compile(r"[0-9][A-Za-z0-9_]*(\.[0-9][A-Za-z0-9_]*)?")
_ws = re.compile(r"\s+")


class LexError(Exception):
    pass


def tokenize(src):
    toks = []
    i, n, line = 0, len(src), 1

    def add(k, j):
        nonlocal i, line
        s = src[i:j]
        toks.append(Tok(k, s, i, line))
        line += s.count("\n")
        i = j

    while i < n:
        c = src[i]
        m = _ws.match(src, i)
        if m:
            add("ws", m.end())
            continue
        if src.startswith("//", i):
            j = src.find("\n", i)
            add("comment", n if j < 0 else j)
            continue
        if src.startswith("/*", i):
            depth, j = 1, i + 2
            while j < n and depth:
                if src.startswith("/*", j):
                    depth += 1
                    j += 2
                elif src.startswith("*/", j):
                    depth -= 1
                    j += 2
                else:
                    j += 1
            add("comment", j)
            continue
        # raw strings r"..", r#".."#, br#".."#
        m = re.match(r"b?r(#*)\"", src[i:i + 40])
        if m:
            hashes = m.group(1)
            end = src.find('"' + hashes, i + m.end())
            if end < 0:
                raise LexError("unterminated raw string at line %d" % line)
            add("str", end + 1 + len(hashes))
            continue
        if c == '"' or (c == "b" and src.startswith('b"', i)):
            j = i + (2 if c == "b" else 1)
            while j < n and src[j] != '"':
                j += 2 if src[j] == "\\" else 1
            add("str", j + 1)
            continue
        if c == "'" or (c == "b" and src.startswith("b'", i)):
            j = i + (1 if c == "b" else 0)
            # char literal or lifetime
            if src[j + 1] == "\\":
                k = j + 2
                while src[k] != "'":
                    k += 1
                add("char", k + 1)
                continue
            # 'x' (any single char incl. multibyte) closes at j+2
            if j + 2 < n and src[j + 2] == "'":
                add("char", j + 3)
                continue
            m = _ident.match(src, j + 1)
            if m:
                add("lifetime", m.end())
                continue
            raise LexError("bad quote at line %d" % line)
        m = _ident.match(src, i)
        if m:
            add("ident", m.end())
            continue
        m = _num.match(src, i)
        if m:
            # don't swallow the `..` of a range like `0..8`
            e = m.end()
            if m.group(1) and src[m.start(1):m.start(1) + 2] == "..":
                e = m.start(1)
            add("num", e)
            continue
        add("p", i + 1)
    return toks


OPEN = {"(": ")", "[": "]", "{": "}"}
CLOSE = {")": "(", "]": "[", "}": "{"}


def sig(toks):
    """indices of significant tokens"""
    return [i for i, t in enumerate(toks) if t.k not in ("ws", "comment")]


def match_close(toks, i):
    """toks[i] is an opening delimiter (significant token index into toks); return index of its closer"""
    depth = 0
    j = i
    n = len(toks)
    while j < n:
        t = toks[j]
        if t.k == "p":
            if t.s in OPEN:
                depth += 1
            elif t.s in CLOSE:
                depth -= 1
                if depth == 0:
                    return j
        j += 1
    raise LexError("unbalanced delimiter opened at line %d" % toks[i].line)


def text(toks, a, b):
    return "".join(t.s for t in toks[a:b])


def strip_ws(toks):
    return [t for t in toks if t.k not in ("ws", "comment")]


def split_args(toks):
    """split a token list at depth-0 commas -> list of token lists"""
    out, cur, depth = [], [], 0
    for t in toks:
        if t.k == "p":
            if t.s in OPEN:
                depth += 1
            elif t.s in CLOSE:
                depth -= 1
            elif t.s == "," and depth == 0:
                out.append(cur)
                cur = []
                continue
        cur.append(t)
    if strip_ws(cur):
        out.append(cur)
    return out
