"""Evaluation back end: runs VERIFIED code (the repository's real reference_impl crate, proved equal to the
specification by the Verus unit `refimpl`) on the published test vectors and compares. This is evaluation,
not proof: results are reported with level "bounded" and the exact number of evaluations.

  unit `vectors`: every case of <REPO>/test_vectors/test_vectors.json (input byte i = i % 251, the JSON's `key`
  and `context_string`, hash / keyed_hash / derive_key, the JSON's output length) is
    (a) recomputed with <REPO>/reference_impl (tiny std-only runner, lib/vectors_runner/, built in a scratch
        directory with `cargo build --offline --release`) and compared with the JSON entry, and
    (b) compared with the independent executable transcription of the paper, /verif/oracle/b3spec.py.
"""
import json
import os
import shutil
import sys
import time

import common
from common import failed_obligation, new_result, rm_rf, run, scratch_dir

RUNNER = os.path.join(common.VERIF, "lib", "vectors_runner")
MODES = (("hash", "hash"), ("keyed_hash", "keyed"), ("derive_key", "derive"))   # JSON field, oracle mode name
EXPECTED_CASES = 35
EXPECTED_OUT_LEN = 131
RUN_TIMEOUT_S = 90      # the unchanged runner needs < 1 s for all 105 cases

UNITS = {
    "vectors": {"props": ["C15"], "tier": "quick",
                "doc": "test_vectors.json recomputed with the real reference_impl crate and with oracle/b3spec.py"},
}


def list_units():
    return dict(UNITS)


def _load_oracle():
    import importlib.util
    p = os.path.join(common.VERIF, "oracle", "b3spec.py")
    s = importlib.util.spec_from_file_location("b3spec_oracle", p)
    m = importlib.util.module_from_spec(s)
    s.loader.exec_module(m)
    return m


def _build_runner(d, repo):
    """copy the runner template into scratch dir d, point it at <repo>/reference_impl, build. returns
    (binary path | None, cmd text, diagnostic)"""
    proj = os.path.join(d, "vectors_runner")
    os.makedirs(os.path.join(proj, "src"))
    shutil.copy(os.path.join(RUNNER, "src", "main.rs"), os.path.join(proj, "src", "main.rs"))
    ref = os.path.abspath(os.path.join(repo, "reference_impl"))
    toml = common.read(os.path.join(RUNNER, "Cargo.toml.in")).replace("@REFERENCE_IMPL@", ref.replace("\\", "/"))
    common.write(os.path.join(proj, "Cargo.toml"), toml)
    # the private module for the directed search: the real source text minus its inner doc comments
    try:
        src = common.read(os.path.join(ref, "reference_impl.rs"))
        common.write(os.path.join(proj, "src", "ri_private.rs"),
                     "".join(l for l in src.splitlines(True) if not l.lstrip().startswith("//!")) +
                     "\n// appended by verif/lib/eval_backend.py: the only way into the private function from outside the module\n"
                     "pub fn vf_compress(cv: &[u32; 8], bw: &[u32; 16], counter: u64, block_len: u32, flags: u32) -> [u32; 16] {\n"
                     "    compress(cv, bw, counter, block_len, flags)\n}\n")
    except OSError:
        pass
    target = os.path.join(d, "target")
    cmd = ["cargo", "build", "--offline", "--release", "--quiet"]
    rc, out, err, secs = run(cmd, timeout=900, mem_gb=None, cwd=proj,
                             env={"CARGO_TARGET_DIR": target, "CARGO_NET_OFFLINE": "true"})
    if rc != 0 and rc != -9:
        # the private module does not compile against this tree (renamed / re-typed compress): build without it
        cmd = cmd + ["--no-default-features"]
        rc, out, err, secs = run(cmd, timeout=900, mem_gb=None, cwd=proj,
                                 env={"CARGO_TARGET_DIR": target, "CARGO_NET_OFFLINE": "true"})
    text = "cd <scratch>/vectors_runner && CARGO_TARGET_DIR=<scratch>/target " + " ".join(cmd)
    binp = os.path.join(target, "release", "vectors_runner")
    if rc != 0 or not os.path.exists(binp):
        return None, text, "cargo build failed (rc=%s): %s" % (rc, (err or out)[-1500:])
    return binp, text, None


def run_unit(name, tier="quick", **_kw):
    if name != "vectors":
        raise KeyError("unknown eval unit " + name)
    res = new_result("eval:vectors", "eval", level="bounded")
    t0 = time.time()
    repo = common.REPO
    jpath = os.path.join(repo, "test_vectors", "test_vectors.json")
    res["functions_verified"] = []
    res["trusted_base"] = [
        "eval: rustc/cargo compile reference_impl/reference_impl.rs faithfully (release profile with "
        "debug-assertions and overflow-checks on); the runner lib/vectors_runner/src/main.rs only paints the input "
        "pattern, calls Hasher::{new,new_keyed,new_derive_key,update,finalize} and prints hex",
        "eval: oracle/b3spec.py (independent executable transcription of the paper) is used as a second opinion only",
    ]
    d = scratch_dir("eval_vectors")
    try:
        # ---- the published vectors
        try:
            tv = json.loads(common.read(jpath))
            key = tv["key"].encode("utf-8")
            ctx = tv["context_string"].encode("utf-8")
            cases = [(int(c["input_len"]), {f: bytes.fromhex(c[f]) for f, _ in MODES}) for c in tv["cases"]]
        except (OSError, ValueError, KeyError, TypeError) as e:
            res["undecided_reason"] = "test_vectors.json not readable in the expected layout: %s: %s" % (type(e).__name__, e)
            return res
        if len(key) != 32:
            res["undecided_reason"] = "test_vectors.json: `key` is not 32 bytes"
            return res
        # ---- the real reference implementation
        binp, cmdtext, diag = _build_runner(d, repo)
        res["cmd"] = cmdtext + " && <scratch>/target/release/vectors_runner < cases"
        if binp is None:
            res["undecided_reason"] = diag
            return res
        req = []
        for ln, outs in cases:
            for field, _ in MODES:
                req.append("%s %s %s %d %d 0" % (field, key.hex(), ctx.hex() or "-", ln, len(outs[field])))
        rc, out, err, secs = run([binp], timeout=RUN_TIMEOUT_S, mem_gb=4, input="\n".join(req) + "\n")
        lines = out.split()
        if rc != 0 or len(lines) != len(req):
            res["undecided_reason"] = ("vectors_runner gave no complete answer (rc=%s%s, %d of %d lines; stuck at `%s`): %s"
                                       % (rc, " = timeout after %d s" % RUN_TIMEOUT_S if rc == -9 else "", len(lines),
                                          len(req), req[len(lines)] if len(lines) < len(req) else "", err[-500:]))
            return res
        oracle = _load_oracle()
        n, ok, k = 0, 0, 0
        bad_ref, bad_spec = [], []      # (input_len, field, observed hex, expected hex, note)
        for ln, outs in cases:
            data = bytes(i % 251 for i in range(ln))
            for field, omode in MODES:
                want = outs[field]
                got = lines[k]
                k += 1
                # (a) reference_impl == test_vectors.json
                n += 1
                if got == want.hex():
                    ok += 1
                else:
                    wh = want.hex()
                    note = "reference_impl panicked" if got == "PANIC" else "first differing byte %d" % next(
                        (i for i in range(min(len(got), len(wh)) // 2) if got[2 * i:2 * i + 2] != wh[2 * i:2 * i + 2]),
                        min(len(got), len(wh)) // 2)
                    bad_ref.append((ln, field, got, wh, note))
                # (b) test_vectors.json == the paper's transcription (oracle)
                n += 1
                spec = oracle.blake3(data, omode, key=key, context=ctx, out_len=len(want))
                if spec == want:
                    ok += 1
                else:
                    sh, wh = spec.hex(), want.hex()
                    note = "first differing byte %d" % next(
                        (i for i in range(len(wh) // 2) if sh[2 * i:2 * i + 2] != wh[2 * i:2 * i + 2]), len(wh) // 2)
                    bad_spec.append((ln, field, wh, sh, note))
        # one failed obligation per comparison kind (the first failing case is the replayable input, the others are listed)
        failed = []
        for bad, clause, what, against in (
                (bad_ref, "every case of test_vectors.json == output of reference_impl::Hasher (real crate, same key / "
                          "context / input pattern / output length)",
                 "reference_impl output differs from test_vectors.json", "reference_impl"),
                (bad_spec, "every case of test_vectors.json == specification output (oracle/b3spec.py)",
                 "test_vectors.json differs from the specification oracle", "oracle")):
            if not bad:
                continue
            ln, field, obs, exp, note = bad[0]
            failed.append(failed_obligation(
                "test_vectors.json", "postcondition",
                "%s in %d of %d (case, mode) pairs; first: input_len=%d mode=%s (%s); all: %s" % (
                    what, len(bad), 3 * len(cases), ln, field, note,
                    ", ".join("%d/%s" % (a, b) for a, b, _, _, _ in bad[:40]) + (" ..." if len(bad) > 40 else "")),
                location="test_vectors/test_vectors.json", clause=clause,
                inputs={"input_len": ln, "mode": field, "out_len": len(exp) // 2, "key": tv["key"],
                        "context_string": tv["context_string"], "input_pattern": "byte i = i % 251",
                        "observed": obs, "expected": exp, "against": against},
                raw="\n".join("input_len=%d mode=%s %s\n  observed %s\n  expected %s" % (a, b, e2, o[:262], x[:262])
                              for a, b, o, x, e2 in bad[:6])))
        res["obligations"], res["discharged"], res["failed"] = n, ok, failed
        ncase = len(cases)
        res["bounded"] = ["%d evaluations: %d lengths x 3 modes, %s output bytes each; each compared with "
                          "test_vectors.json (reference_impl, built from the working tree) and with oracle/b3spec.py"
                          % (3 * ncase, ncase, "/".join(sorted({str(len(o[f])) for _, o in cases for f, _ in MODES})))]
        # nothing is *verified* here: the functions are evaluated (see `bounded`); the proof is the Verus unit `refimpl`
        res["functions_verified"] = []
        res["evaluated"] = ("reference_impl::Hasher::{new,new_keyed,new_derive_key,update,finalize} "
                            "(reference_impl/reference_impl.rs) on %d published cases" % (3 * ncase))
        res["samples"] = [{"function": "test_vectors.json", "clauses": "cases[input_len=%d].%s == reference_impl == oracle"
                           % (cases[i][0], f)} for i, f in ((0, "hash"), (len(cases) - 1, "derive_key")) if cases]
        shape_ok = (ncase == EXPECTED_CASES and all(len(o[f]) == EXPECTED_OUT_LEN for _, o in cases for f, _ in MODES))
        if failed:
            res["status"] = "fail"
        elif not shape_ok:
            res["undecided_reason"] = ("test_vectors.json no longer has the published shape (%d cases x 3 modes x %d "
                                       "bytes): found %d cases" % (EXPECTED_CASES, EXPECTED_OUT_LEN, ncase))
        else:
            res["status"] = "pass"
        return res
    finally:
        res["seconds"] = round(time.time() - t0, 2)
        rm_rf(d)


if __name__ == "__main__":
    r = run_unit(sys.argv[1] if len(sys.argv) > 1 else "vectors")
    print(json.dumps({k: v for k, v in r.items() if k != "failed"}, indent=1)[:4000])
    for fo in r["failed"][:5]:
        print(json.dumps(fo, indent=1)[:1500])
