//! Evaluates the repository's reference implementation (the real `reference_impl` crate) on the cases
//! given on stdin, one per line:
//!     <mode> <key hex | -> <context hex | -> <input_len> <out_len> <split>
//! mode = hash | keyed_hash | derive_key; the input is the published pattern byte i = i % 251; `split` > 0
//! feeds the input in pieces of that many bytes (0: one update call). Prints one line per case: the
//! output in hex, or `PANIC` if the reference implementation panicked. Comparison happens in
//! lib/eval_backend.py. std only.
use std::io::{self, BufRead, Write};

#[cfg(feature = "ri_private")]
#[allow(dead_code, unused)]
mod ri_private;

fn unhex(s: &str) -> Vec<u8> {
    if s == "-" {
        return Vec::new();
    }
    let b = s.as_bytes();
    assert!(b.len() % 2 == 0, "odd hex length");
    let nib = |c: u8| -> u8 {
        match c {
            b'0'..=b'9' => c - b'0',
            b'a'..=b'f' => c - b'a' + 10,
            b'A'..=b'F' => c - b'A' + 10,
            _ => panic!("bad hex digit"),
        }
    };
    (0..b.len() / 2).map(|i| nib(b[2 * i]) << 4 | nib(b[2 * i + 1])).collect()
}

fn hex(b: &[u8]) -> String {
    let mut s = String::with_capacity(2 * b.len());
    for x in b {
        s.push_str(&format!("{:02x}", x));
    }
    s
}

// extra != 0 (directed search only): a zero-length update after the input and a throw-away finalize before the
// real one - both must be no-ops ("finalize is a pure query", "zero-length updates are no-ops")
fn eval(mode: &str, key: &[u8], context: &[u8], input_len: usize, out_len: usize, split: usize, extra: usize) -> Vec<u8> {
    let input: Vec<u8> = (0..input_len).map(|i| (i % 251) as u8).collect();
    let mut hasher = match mode {
        "hash" => reference_impl::Hasher::new(),
        "keyed_hash" => {
            let k: &[u8; 32] = key.try_into().expect("key must be 32 bytes");
            reference_impl::Hasher::new_keyed(k)
        }
        "derive_key" => reference_impl::Hasher::new_derive_key(std::str::from_utf8(context).expect("context must be UTF-8")),
        _ => panic!("unknown mode"),
    };
    if split == 0 {
        hasher.update(&input);
    } else {
        for piece in input.chunks(split) {
            hasher.update(piece);
        }
    }
    if extra != 0 {
        hasher.update(&[]);
        let mut pre = vec![0u8; 1 + (input_len % 67)];
        hasher.finalize(&mut pre);
        if extra == 2 {
            // a prefix digest taken, then more input: the stream continues as if nothing had happened
            let more: Vec<u8> = (input_len..input_len + 700).map(|i| (i % 251) as u8).collect();
            hasher.update(&more);
        }
    }
    let mut out = vec![0u8; out_len];
    hasher.finalize(&mut out);
    out
}

fn main() {
    std::panic::set_hook(Box::new(|_| {}));
    let stdin = io::stdin();
    let stdout = io::stdout();
    let mut w = stdout.lock();
    for line in stdin.lock().lines() {
        let line = line.expect("stdin");
        let f: Vec<&str> = line.split_whitespace().collect();
        if f.is_empty() {
            continue;
        }
        if f[0] == "compress" {
            // compress <cv 32 bytes hex> <block 64 bytes hex> <counter> <block_len> <flags>  (directed search only)
            #[cfg(feature = "ri_private")]
            {
                let (cvb, blk) = (unhex(f[1]), unhex(f[2]));
                let (counter, block_len, flags): (u64, u32, u32) = (f[3].parse().unwrap(), f[4].parse().unwrap(), f[5].parse().unwrap());
                let r = std::panic::catch_unwind(move || {
                    let mut cv = [0u32; 8];
                    let mut bw = [0u32; 16];
                    for i in 0..8 {
                        cv[i] = u32::from_le_bytes([cvb[4 * i], cvb[4 * i + 1], cvb[4 * i + 2], cvb[4 * i + 3]]);
                    }
                    for i in 0..16 {
                        bw[i] = u32::from_le_bytes([blk[4 * i], blk[4 * i + 1], blk[4 * i + 2], blk[4 * i + 3]]);
                    }
                    let out = ri_private::vf_compress(&cv, &bw, counter, block_len, flags);
                    let mut bytes = Vec::new();
                    for w in out.iter() {
                        bytes.extend_from_slice(&w.to_le_bytes());
                    }
                    bytes
                });
                match r {
                    Ok(out) => writeln!(w, "{}", hex(&out)).unwrap(),
                    Err(_) => writeln!(w, "PANIC").unwrap(),
                }
            }
            #[cfg(not(feature = "ri_private"))]
            writeln!(w, "UNSUPPORTED").unwrap();
            continue;
        }
        assert!(f.len() == 6 || f.len() == 7, "bad request line");
        let extra: usize = if f.len() == 7 { f[6].parse().unwrap() } else { 0 };
        let (mode, key, context) = (f[0].to_string(), unhex(f[1]), unhex(f[2]));
        let (input_len, out_len, split): (usize, usize, usize) =
            (f[3].parse().unwrap(), f[4].parse().unwrap(), f[5].parse().unwrap());
        let r = std::panic::catch_unwind(move || eval(&mode, &key, &context, input_len, out_len, split, extra));
        match r {
            Ok(out) => writeln!(w, "{}", hex(&out)).unwrap(),
            Err(_) => writeln!(w, "PANIC").unwrap(),
        }
    }
}
