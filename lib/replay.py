"""Replay stage: turn a failed obligation into a replay file, with a failing input where one can be
found (verifier counterexample replayed on the real code, or a directed search on the real crate)."""
import json
import os
import time

import common

HERE = common.VERIF


def make_replay(prop, result, fo, seed):
    """returns (path, found_failing_input)"""
    d = os.path.join(HERE, "replay", prop)
    os.makedirs(d, exist_ok=True)
    path = os.path.join(d, fo["id"] + ".json")
    rec = {
        "property": prop,
        "unit": result["unit"],
        "backend": result["backend"],
        "obligation": {k: fo.get(k) for k in ("id", "function", "kind", "clause", "location", "message",
                                               "contract_origin")},
        "verifier_output": fo.get("raw"),
        "verifier_inputs": fo.get("inputs"),
        "failing_input": None,
        "search": None,
        "created": time.strftime("%Y-%m-%dT%H:%M:%S"),
        "repo": common.REPO,
    }
    found = False
    try:
        if fo.get("found"):
            # the bounded exploration unit already holds the failing input
            rec["failing_input"] = fo["found"]
            rec["search"] = fo.get("search_log")
            if fo.get("found_from"):
                rec["failing_input_from"] = fo["found_from"]
            found = True
        elif result["backend"] == "cbmc" or fo.get("search") == "c_api":
            rp = None
            if result["backend"] == "cbmc":
                import cbmc_backend
                rp = cbmc_backend.replay(fo, common.REPO)
            if rp:
                rec["search"] = {"method": "cbmc trace re-executed on the real C sources under ASan/UBSan",
                                 "output": rp.get("output", "")[-3000:], "driver": rp.get("driver")}
                if rp.get("reproduced"):
                    rec["failing_input"] = fo.get("inputs")
                    found = True
            if not found and prop in ("C06", "C07", "C08"):
                # no (reproducible) verifier counterexample: directed search over C API histories on the real library
                import search_c
                hit = search_c.find(prop, fo, seed)
                rec["search_c"] = hit.get("log")
                if hit.get("found"):
                    rec["failing_input"] = hit["found"]
                    rec["failing_input_from"] = "search_c"
                    found = True
        else:
            import search
            hit = search.find(prop, fo, seed)
            rec["search"] = hit.get("log")
            if hit.get("found"):
                rec["failing_input"] = hit["found"]
                found = True
    except Exception as e:  # the replay search is best effort; the violation is reported regardless
        rec["search"] = {"error": "%s: %s" % (type(e).__name__, e)}
    common.write(path, json.dumps(rec, indent=1) + "\n")
    return path, found


def rerun(path):
    rec = json.load(open(path))
    print("replay of %s: obligation %s [%s] in %s" % (rec["property"], rec["obligation"]["id"],
                                                     rec["obligation"]["kind"], rec["obligation"]["function"]))
    fi = rec.get("failing_input")
    if not fi:
        print("no failing input recorded (verifier gave no model and the directed search found none);")
        print("verifier output:\n" + (rec.get("verifier_output") or ""))
        return 1
    if rec.get("failing_input_from") == "asm_abi":
        import asm_abi
        r = asm_abi.rerun(fi)
        print(json.dumps(r, indent=1)[:4000])
        return 1 if r.get("reproduced") else 0
    if rec.get("failing_input_from") == "search_c":
        import search_c
        r = search_c.rerun(fi)
        print(json.dumps(r, indent=1)[:4000])
        return 1 if r.get("reproduced") else 0
    if rec["backend"] == "cbmc":
        import cbmc_backend
        rp = cbmc_backend.replay({"function": rec["obligation"]["function"], "kind": rec["obligation"]["kind"],
                                  "inputs": fi, "clause": rec["obligation"].get("clause"),
                                  "message": rec["obligation"].get("message")}, common.REPO)
        print(json.dumps(rp, indent=1)[:4000])
        return 1 if rp and rp.get("reproduced") else 0
    import search
    r = search.rerun(fi)
    print(json.dumps(r, indent=1)[:4000])
    return 1 if r.get("reproduced") else 0
