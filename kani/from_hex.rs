// Appended to a scratch copy of src/lib.rs.
// Property (C14): Hash::from_hex on ANY 64 bytes: Ok iff every byte is an ASCII hex digit
// ([0-9a-fA-F]); then byte i of the hash == 16 * val(hex[2i]) + val(hex[2i+1]).
// Any length other than 64 (0..=130 here, arbitrary content) -> Err.
#[cfg(kani)]
mod vf_kani_from_hex {
    use super::*;

    fn val(b: u8) -> Option<u8> {
        if b >= b'0' && b <= b'9' {
            Some(b - b'0')
        } else if b >= b'a' && b <= b'f' {
            Some(b - b'a' + 10)
        } else if b >= b'A' && b <= b'F' {
            Some(b - b'A' + 10)
        } else {
            None
        }
    }

    #[kani::proof]
    #[kani::unwind(66)]
    fn vf_from_hex_64() {
        let hex: [u8; 64] = kani::any();
        let r = Hash::from_hex(&hex);
        let mut any_bad = false;
        let mut i = 0;
        while i < 64 {
            if val(hex[i]).is_none() {
                any_bad = true;
            }
            i += 1;
        }
        match r {
            Ok(h) => {
                assert!(!any_bad, "Ok only if all 64 bytes are hex digits");
                let bytes = h.as_bytes();
                let mut j = 0;
                while j < 32 {
                    let hi = val(hex[2 * j]).unwrap();
                    let lo = val(hex[2 * j + 1]).unwrap();
                    assert!(bytes[j] == 16 * hi + lo, "byte j == 16 * val(hex[2j]) + val(hex[2j+1])");
                    j += 1;
                }
            }
            Err(_) => {
                assert!(any_bad, "Err only if some byte is not a hex digit");
            }
        }
        kani::cover!(true, "harness end reachable");
    }

    #[kani::proof]
    #[kani::unwind(66)]
    fn vf_from_hex_len() {
        let buf: [u8; 130] = kani::any();
        let len: usize = kani::any();
        kani::assume(len <= 130 && len != 64);
        assert!(Hash::from_hex(&buf[..len]).is_err(), "a length other than 64 is refused");
        kani::cover!(true, "harness end reachable");
    }
}
