// Appended to a scratch copy of src/lib.rs.
// Property (C01): counter_low / counter_high split the 64-bit counter into its two 32-bit words.
#[cfg(kani)]
mod vf_kani_counter_words {
    use super::*;

    #[kani::proof]
    fn vf_counter_low() {
        let counter: u64 = kani::any();
        assert!(counter_low(counter) as u64 == counter % (1u64 << 32), "low == counter mod 2^32");
        kani::cover!(true, "harness end reachable");
    }

    #[kani::proof]
    fn vf_counter_high() {
        let counter: u64 = kani::any();
        assert!(counter_high(counter) as u64 == counter / (1u64 << 32), "high == counter div 2^32");
        kani::cover!(true, "harness end reachable");
    }

    #[kani::proof]
    fn vf_counter_words() {
        let counter: u64 = kani::any();
        let lo = counter_low(counter);
        let hi = counter_high(counter);
        assert!(((hi as u64) << 32) | (lo as u64) == counter, "(high << 32) | low == counter");
        kani::cover!(true, "harness end reachable");
    }
}
