// Appended to a scratch copy of src/hazmat.rs.
// Property (C09): for every chunk-aligned offset o: o == 0 -> None; otherwise
// Some(CHUNK_LEN * 2^tz(o / CHUNK_LEN)) = the largest power of two dividing o; no panic, no overflow.
#[cfg(kani)]
mod vf_kani_max_subtree_len {
    use super::*;

    #[kani::proof]
    fn vf_max_subtree_len() {
        let o: u64 = kani::any();
        kani::assume(o % (CHUNK_LEN as u64) == 0);
        match max_subtree_len(o) {
            None => assert!(o == 0, "None only for offset 0"),
            Some(m) => {
                assert!(o != 0, "offset 0 has no maximum");
                // largest power of two dividing o (lowest set bit), written without trailing_zeros
                assert!(m == (o & o.wrapping_neg()), "result is the largest power of two dividing the offset");
                assert!(m >= CHUNK_LEN as u64, "result is at least one chunk");
                // the documented formula
                let tz = (o / CHUNK_LEN as u64).trailing_zeros();
                assert!(tz <= 53);
                assert!(m == (CHUNK_LEN as u64) << tz, "result == CHUNK_LEN * 2^tz(o / CHUNK_LEN)");
            }
        }
        kani::cover!(true, "harness end reachable");
    }
}
