// Appended to a scratch copy of src/lib.rs (uses nothing of the crate).
// Audit of the specifications of `core` that the Verus units ASSUME (/verif/prelude/core.rs):
// every assume_specification / trusted wrapper is checked here against the real `core` for the
// full machine domain.  The recursive spec functions (sp_popcount64, sp_is_pow2, sp_tz64) are
// transcribed as loops whose bound is the type width (at most 64 halvings of a u64), so the
// unwinding bound 66 is exhaustive: Kani's unwinding assertions are part of the obligations.
#[cfg(kani)]
mod vf_kani_std_specs {
    // sp_rotr(x, n) = (x >> n) | (x << (32 - n))
    #[kani::proof]
    fn vf_spec_u32_rotate_right() {
        let x: u32 = kani::any();
        let n: u32 = kani::any();
        kani::assume(0 < n && n < 32);
        assert!(x.rotate_right(n) == (x >> n) | (x << (32 - n)), "u32::rotate_right == sp_rotr on 0 < n < 32");
        kani::cover!(true, "harness end reachable");
    }

    // sp_le32(b) = b0 | b1 << 8 | b2 << 16 | b3 << 24
    #[kani::proof]
    fn vf_spec_u32_from_le_bytes() {
        let b: [u8; 4] = kani::any();
        let want = (b[0] as u32) | ((b[1] as u32) << 8) | ((b[2] as u32) << 16) | ((b[3] as u32) << 24);
        assert!(u32::from_le_bytes(b) == want, "u32::from_le_bytes == sp_le32");
        kani::cover!(true, "harness end reachable");
    }

    // sp_u32_le(w) = [w & 0xff, (w >> 8) & 0xff, (w >> 16) & 0xff, (w >> 24) & 0xff]
    #[kani::proof]
    fn vf_spec_u32_to_le_bytes() {
        let w: u32 = kani::any();
        let want = [(w & 0xff) as u8, ((w >> 8) & 0xff) as u8, ((w >> 16) & 0xff) as u8, ((w >> 24) & 0xff) as u8];
        assert!(w.to_le_bytes() == want, "u32::to_le_bytes == sp_u32_le");
        assert!(u32::from_le_bytes(w.to_le_bytes()) == w, "from_le_bytes inverts to_le_bytes");
        kani::cover!(true, "harness end reachable");
    }

    // sp_popcount64(x) = if x == 0 { 0 } else { (x & 1) + sp_popcount64(x / 2) }
    fn sp_popcount64(mut x: u64) -> u32 {
        let mut r = 0u32;
        while x != 0 {
            r += (x & 1) as u32;
            x /= 2;
        }
        r
    }

    #[kani::proof]
    #[kani::unwind(66)]
    fn vf_spec_u64_count_ones() {
        let x: u64 = kani::any();
        let r = x.count_ones();
        assert!(r == sp_popcount64(x), "u64::count_ones == sp_popcount64");
        assert!(r <= 64, "u64::count_ones <= 64");
        kani::cover!(true, "harness end reachable");
    }

    #[kani::proof]
    #[kani::unwind(66)]
    fn vf_spec_usize_count_ones() {
        let x: usize = kani::any();
        let r = x.count_ones();
        assert!(r == sp_popcount64(x as u64), "usize::count_ones == sp_popcount64(x as u64)");
        assert!(r <= 64, "usize::count_ones <= 64");
        kani::cover!(true, "harness end reachable");
    }

    // sp_is_pow2(n) = if n <= 0 { false } else if n == 1 { true } else { n % 2 == 0 && sp_is_pow2(n / 2) }
    fn sp_is_pow2(mut n: u128) -> bool {
        loop {
            if n == 0 {
                return false;
            }
            if n == 1 {
                return true;
            }
            if n % 2 != 0 {
                return false;
            }
            n /= 2;
        }
    }

    #[kani::proof]
    #[kani::unwind(66)]
    fn vf_spec_u64_next_power_of_two() {
        let x: u64 = kani::any();
        kani::assume(x <= 0x8000_0000_0000_0000u64);
        let r = x.next_power_of_two(); // no panic / overflow under the precondition
        assert!(sp_is_pow2(r as u128), "sp_is_pow2(r)");
        assert!(r >= x, "r >= x");
        if x >= 1 {
            assert!((r as u128) < 2 * (x as u128), "x >= 1 ==> r < 2x");
        } else {
            assert!(r == 1, "x == 0 ==> r == 1");
        }
        kani::cover!(true, "harness end reachable");
    }

    #[kani::proof]
    #[kani::unwind(66)]
    fn vf_spec_usize_next_power_of_two() {
        let x: usize = kani::any();
        kani::assume(x as u128 <= 0x8000_0000_0000_0000u128);
        let r = x.next_power_of_two();
        assert!(sp_is_pow2(r as u128), "sp_is_pow2(r)");
        assert!(r >= x, "r >= x");
        if x >= 1 {
            assert!((r as u128) < 2 * (x as u128), "x >= 1 ==> r < 2x");
        } else {
            assert!(r == 1, "x == 0 ==> r == 1");
        }
        kani::cover!(true, "harness end reachable");
    }

    // sp_tz64(x) = if x == 0 { 64 } else if x & 1 == 1 { 0 } else { 1 + sp_tz64(x / 2) }
    fn sp_tz64(mut x: u64) -> u32 {
        if x == 0 {
            return 64;
        }
        let mut r = 0u32;
        while x & 1 != 1 {
            r += 1;
            x /= 2;
        }
        r
    }

    #[kani::proof]
    #[kani::unwind(66)]
    fn vf_spec_u64_trailing_zeros() {
        let x: u64 = kani::any();
        assert!(x.trailing_zeros() == sp_tz64(x), "u64::trailing_zeros == sp_tz64");
        kani::cover!(true, "harness end reachable");
    }

    // the 64-bit usize configuration the Verus prelude fixes with `global size_of usize == 8`
    #[kani::proof]
    fn vf_spec_usize_is_64_bit() {
        assert!(core::mem::size_of::<usize>() == 8, "size_of::<usize>() == 8");
        assert!(usize::MAX as u128 == u64::MAX as u128, "usize::MAX == u64::MAX");
        kani::cover!(true, "harness end reachable");
    }
}
