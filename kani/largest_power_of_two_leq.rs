// Appended to a scratch copy of src/lib.rs.
// Property (C01/C02): largest_power_of_two_leq(n) neither panics nor overflows for ANY usize
// (n / 2 + 1 <= 2^63, so next_power_of_two cannot overflow); for n >= 1 the result r is the largest
// power of two <= n:  r = 2^k,  r <= n < 2r.  n = 0 is outside the function's meaning (there is no
// power of two <= 0): nothing is required of the value there, only the absence of a panic.
#[cfg(kani)]
mod vf_kani_largest_power_of_two_leq {
    use super::*;

    #[kani::proof]
    fn vf_largest_power_of_two_leq() {
        let n: usize = kani::any();
        let r = largest_power_of_two_leq(n);
        if n >= 1 {
            assert!(r != 0 && (r & (r - 1)) == 0, "result is a power of two");
            assert!(r <= n, "result is at most n");
            assert!((n as u128) < 2 * (r as u128), "n is less than twice the result");
        }
        kani::cover!(true, "harness end reachable");
    }
}
