// Appended to a scratch copy of src/lib.rs (uses the `arrayvec` dependency of the crate and core).
// Audit of the dependency MODELS of /verif/prelude/deps.rs against the real code:
//   arrayvec::ArrayVec<T, CAP>: view Seq<T>; new() is empty; push appends and panics exactly when len == CAP
//   (the model makes len < CAP a precondition); pop returns the last element / None on empty; len; is_empty;
//   clear; deref to the slice of the elements.
//   <[T]>::chunks_exact(n) / ChunksExact::next / remainder: whole chunks in order, then the remainder.
// BOUNDED: instances only (T = u8, CAP = 4, operation scripts of length 6; slices of length <= 13, n in 1..=4).
#[cfg(kani)]
mod vf_kani_deps_models {
    use arrayvec::ArrayVec;

    #[kani::proof]
    #[kani::unwind(8)]
    fn vf_model_arrayvec() {
        let mut v: ArrayVec<u8, 4> = ArrayVec::new();
        let mut model: [u8; 4] = [0; 4];
        let mut n: usize = 0;
        assert!(v.len() == 0 && v.is_empty(), "new() is empty");
        let mut step = 0;
        while step < 6 {
            let op: u8 = kani::any();
            let x: u8 = kani::any();
            if op == 0 {
                // push: the model requires len < CAP; the real push panics otherwise (checked below)
                if n < 4 {
                    v.push(x);
                    model[n] = x;
                    n += 1;
                }
            } else if op == 1 {
                let r = v.pop();
                if n == 0 {
                    assert!(r.is_none(), "pop on empty is None");
                } else {
                    assert!(r == Some(model[n - 1]), "pop returns the last element");
                    n -= 1;
                }
            } else if op == 2 {
                v.clear();
                n = 0;
            }
            assert!(v.len() == n, "len == view length");
            assert!(v.is_empty() == (n == 0), "is_empty");
            let s: &[u8] = &v;
            assert!(s.len() == n, "deref length");
            let mut i = 0;
            while i < 4 {
                if i < n {
                    assert!(s[i] == model[i], "deref contents == view");
                    assert!(v[i] == model[i], "index through deref");
                }
                i += 1;
            }
            step += 1;
        }
        kani::cover!(n == 4, "a full vector is reachable");
        kani::cover!(true, "harness end reachable");
    }

    #[kani::proof]
    fn vf_model_arrayvec_push_full_panics() {
        // the model's precondition of push (len < CAP) is exactly the real failure condition:
        // push(x) is try_push(x).unwrap(), and try_push fails iff the vector is full
        let mut v: ArrayVec<u8, 2> = ArrayVec::new();
        assert!(v.try_push(1).is_ok() && v.try_push(2).is_ok(), "try_push succeeds below capacity");
        assert!(v.is_full() && v.len() == 2, "full at CAP elements");
        assert!(v.try_push(3).is_err(), "try_push (hence push) fails exactly when len == CAP");
        assert!(v.len() == 2, "a failed push leaves the vector unchanged");
        kani::cover!(true, "harness end reachable");
    }

    #[kani::proof]
    #[kani::unwind(16)]
    fn vf_model_chunks_exact() {
        let buf: [u8; 13] = kani::any();
        let len: usize = kani::any();
        let k: usize = kani::any();
        kani::assume(len <= 13 && 1 <= k && k <= 4);
        let s: &[u8] = &buf[..len];
        let mut it = s.chunks_exact(k);
        let whole = len - len % k;
        let rem = it.remainder();
        assert!(rem.len() == len % k, "remainder length");
        let mut j = 0;
        while j < 4 {
            if j < rem.len() {
                assert!(rem[j] == s[whole + j], "remainder == s[len - len % k ..]");
            }
            j += 1;
        }
        let mut pos = 0;
        let mut steps = 0;
        while steps < 14 {
            match it.next() {
                Some(c) => {
                    assert!(pos + k <= whole, "a chunk is only yielded while a whole one remains");
                    assert!(c.len() == k, "chunk length");
                    let mut i = 0;
                    while i < 4 {
                        if i < k {
                            assert!(c[i] == s[pos + i], "chunk == rest[..k]");
                        }
                        i += 1;
                    }
                    pos += k;
                }
                None => {
                    assert!(pos == whole, "None exactly when fewer than k elements of the whole part remain");
                    break;
                }
            }
            steps += 1;
        }
        assert!(it.remainder().len() == len % k, "remainder unchanged by next()");
        kani::cover!(len == 13 && k == 4, "3 chunks + remainder reachable");
        kani::cover!(true, "harness end reachable");
    }
}
