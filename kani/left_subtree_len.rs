// Appended to a scratch copy of src/hazmat.rs (child module: sees the parent's private items).
// Property (C09/C01): for every input length n > CHUNK_LEN, left_subtree_len(n) neither panics nor
// overflows and returns the largest power of two strictly below n:  r = 2^k,  r < n <= 2r.
#[cfg(kani)]
mod vf_kani_left_subtree_len {
    use super::*;

    #[kani::proof]
    fn vf_left_subtree_len() {
        let n: u64 = kani::any();
        kani::assume(n > CHUNK_LEN as u64);
        let r = left_subtree_len(n);
        assert!(r != 0 && (r & (r - 1)) == 0, "result is a power of two");
        assert!(r < n, "result is strictly less than the input length");
        assert!((n as u128) <= 2 * (r as u128), "input length is at most twice the result");
        kani::cover!(true, "harness end reachable");
    }
}
