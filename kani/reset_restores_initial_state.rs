// Appended to a scratch copy of src/lib.rs.
// Property (C10): reset() restores the initial state: after set_input_offset(1024 * k) (any k) and
// reset(), count() == 0 (and does not panic) and every field equals the one of a fresh Hasher built
// with the same constructor.  No input is hashed, so no compression function runs.
#[cfg(kani)]
mod vf_kani_reset_restores_initial_state {
    use super::*;
    use crate::hazmat::HasherExt;

    fn same_state(h: &Hasher, fresh: &Hasher) {
        assert!(h.initial_chunk_counter == fresh.initial_chunk_counter, "initial_chunk_counter restored");
        assert!(h.chunk_state.chunk_counter == fresh.chunk_state.chunk_counter, "chunk_state.chunk_counter restored");
        assert!(h.cv_stack.len() == fresh.cv_stack.len(), "cv_stack emptied");
        assert!(h.chunk_state.buf_len == fresh.chunk_state.buf_len, "chunk_state.buf_len restored");
        assert!(h.chunk_state.blocks_compressed == fresh.chunk_state.blocks_compressed, "chunk_state.blocks_compressed restored");
        assert!(h.chunk_state.cv == fresh.chunk_state.cv, "chunk_state.cv restored");
        assert!(h.chunk_state.flags == fresh.chunk_state.flags, "chunk_state.flags restored");
        assert!(h.key == fresh.key, "key kept");
    }

    #[kani::proof]
    fn vf_reset_after_set_input_offset() {
        let k: u64 = kani::any();
        kani::assume(k <= u64::MAX / CHUNK_LEN as u64);
        let fresh = Hasher::new();
        let mut h = Hasher::new();
        h.set_input_offset(CHUNK_LEN as u64 * k);
        h.reset();
        assert!(h.count() == 0, "count() == 0 after reset()");
        same_state(&h, &fresh);
        kani::cover!(true, "harness end reachable");
    }

    #[kani::proof]
    fn vf_reset_after_set_input_offset_keyed() {
        let k: u64 = kani::any();
        kani::assume(k <= u64::MAX / CHUNK_LEN as u64);
        let key: [u8; KEY_LEN] = kani::any();
        let fresh = Hasher::new_keyed(&key);
        let mut h = Hasher::new_keyed(&key);
        h.set_input_offset(CHUNK_LEN as u64 * k);
        h.reset();
        assert!(h.count() == 0, "count() == 0 after reset()");
        same_state(&h, &fresh);
        kani::cover!(true, "harness end reachable");
    }
}
