// Appended to a scratch copy of src/lib.rs.
// Property (C10): reset() restores the initial state.  A Hasher is constructed (Hasher::new() /
// Hasher::new_keyed(any key)); its state right after construction IS the initial state and is
// recorded field by field.  Then set_input_offset(1024 * k) for ANY k and reset(): count() == 0
// (and count() does not panic) and every recorded field has its initial value again.
// No input is hashed, so no compression function runs.
#[cfg(kani)]
mod vf_kani_reset_restores_initial_state {
    use super::*;
    use crate::hazmat::HasherExt;

    struct Snapshot {
        initial_chunk_counter: u64,
        chunk_counter: u64,
        cv_stack_len: usize,
        buf_len: u8,
        blocks_compressed: u8,
        flags: u8,
        cv: CVWords,
        key: CVWords,
    }

    fn snapshot(h: &Hasher) -> Snapshot {
        Snapshot {
            initial_chunk_counter: h.initial_chunk_counter,
            chunk_counter: h.chunk_state.chunk_counter,
            cv_stack_len: h.cv_stack.len(),
            buf_len: h.chunk_state.buf_len,
            blocks_compressed: h.chunk_state.blocks_compressed,
            flags: h.chunk_state.flags,
            cv: h.chunk_state.cv,
            key: h.key,
        }
    }

    fn check(h: &mut Hasher, k: u64) {
        let init = snapshot(h);
        assert!(init.initial_chunk_counter == 0 && init.chunk_counter == 0 && init.cv_stack_len == 0,
            "a new Hasher starts at chunk 0 with an empty stack");
        h.set_input_offset(CHUNK_LEN as u64 * k);
        h.reset();
        assert!(h.count() == 0, "count() == 0 after reset()");
        let now = snapshot(h);
        assert!(now.initial_chunk_counter == init.initial_chunk_counter, "initial_chunk_counter restored");
        assert!(now.chunk_counter == init.chunk_counter, "chunk_state.chunk_counter restored");
        assert!(now.cv_stack_len == init.cv_stack_len, "cv_stack emptied");
        assert!(now.buf_len == init.buf_len, "chunk_state.buf_len restored");
        assert!(now.blocks_compressed == init.blocks_compressed, "chunk_state.blocks_compressed restored");
        assert!(now.flags == init.flags, "chunk_state.flags restored");
        let mut i = 0;
        while i < 8 {
            assert!(now.cv[i] == init.cv[i], "chunk_state.cv restored");
            assert!(now.key[i] == init.key[i], "key kept");
            i += 1;
        }
    }

    #[kani::proof]
    #[kani::unwind(10)]
    fn vf_reset_after_set_input_offset() {
        let k: u64 = kani::any();
        kani::assume(k <= u64::MAX / CHUNK_LEN as u64);
        let mut h = Hasher::new();
        check(&mut h, k);
        kani::cover!(true, "harness end reachable");
    }

    #[kani::proof]
    #[kani::unwind(10)]
    fn vf_reset_after_set_input_offset_keyed() {
        let k: u64 = kani::any();
        kani::assume(k <= u64::MAX / CHUNK_LEN as u64);
        let key: [u8; KEY_LEN] = kani::any();
        let mut h = Hasher::new_keyed(&key);
        check(&mut h, k);
        kani::cover!(true, "harness end reachable");
    }
}
