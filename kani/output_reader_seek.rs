// Appended to a scratch copy of src/lib.rs.
// Property (C03): the position arithmetic of OutputReader.
// Invariant INV(counter, pwb):  pwb < 64  and  64 * counter + pwb <= u64::MAX.
//   position()        == 64 * counter + pwb, no overflow under INV
//   set_position(x)   -> position() == x, INV re-established, for every x
//   seek(Start(x))    -> Ok(x), position() == x
//   seek(Current(d))  -> t = position + d (in Z); t < 0 -> Err, state unchanged;
//                        otherwise Ok(min(t, u64::MAX)) and position() == that value
//   seek(End(_))      -> Err, state unchanged
// No compression function runs: only the counters of the reader are touched.
#[cfg(kani)]
mod vf_kani_output_reader_seek {
    use super::*;
    use std::io::{Seek, SeekFrom};

    fn reader(counter: u64, pwb: u8) -> OutputReader {
        let mut r = OutputReader::new(Output {
            input_chaining_value: *IV,
            block: [0; 64],
            block_len: 64,
            counter: 0,
            flags: 0,
            platform: Platform::Portable,
        });
        r.inner.counter = counter;
        r.position_within_block = pwb;
        r
    }

    fn any_reader() -> (OutputReader, u64, u8) {
        let counter: u64 = kani::any();
        let pwb: u8 = kani::any();
        kani::assume(pwb < 64);
        kani::assume(64 * (counter as u128) + (pwb as u128) <= u64::MAX as u128);
        (reader(counter, pwb), counter, pwb)
    }

    #[kani::proof]
    fn vf_position() {
        let (r, counter, pwb) = any_reader();
        let p = r.position();
        assert!(p as u128 == 64 * (counter as u128) + pwb as u128, "position == 64 * counter + position_within_block");
        kani::cover!(true, "harness end reachable");
    }

    #[kani::proof]
    fn vf_set_position() {
        let (mut r, _, _) = any_reader();
        let x: u64 = kani::any();
        r.set_position(x);
        assert!(r.position_within_block < 64, "invariant: position_within_block < 64");
        assert!(r.inner.counter == x / 64 && r.position_within_block as u64 == x % 64, "counter, offset == x div 64, x mod 64");
        assert!(r.position() == x, "position() == x after set_position(x)");
        kani::cover!(true, "harness end reachable");
    }

    #[kani::proof]
    fn vf_seek_start() {
        let (mut r, _, _) = any_reader();
        let x: u64 = kani::any();
        match r.seek(SeekFrom::Start(x)) {
            Ok(p) => assert!(p == x, "seek(Start(x)) returns x"),
            Err(_) => assert!(false, "seek(Start(x)) never fails"),
        }
        assert!(r.position_within_block < 64, "invariant: position_within_block < 64");
        assert!(r.position() == x, "position() == x after seek(Start(x))");
        kani::cover!(true, "harness end reachable");
    }

    #[kani::proof]
    fn vf_seek_current() {
        let (mut r, counter, pwb) = any_reader();
        let d: i64 = kani::any();
        let before = 64 * (counter as i128) + pwb as i128;
        let target = before + d as i128;
        match r.seek(SeekFrom::Current(d)) {
            Ok(p) => {
                assert!(target >= 0, "a negative target must be refused");
                let want = if target > u64::MAX as i128 { u64::MAX } else { target as u64 };
                assert!(p == want, "seek(Current(d)) returns min(position + d, u64::MAX)");
                assert!(r.position_within_block < 64, "invariant: position_within_block < 64");
                assert!(r.position() == want, "position() == min(position + d, u64::MAX)");
            }
            Err(_) => {
                assert!(target < 0, "only a negative target is refused");
                assert!(r.inner.counter == counter && r.position_within_block == pwb, "failed seek leaves the position unchanged");
            }
        }
        kani::cover!(true, "harness end reachable");
    }

    #[kani::proof]
    fn vf_seek_end() {
        let (mut r, counter, pwb) = any_reader();
        let d: i64 = kani::any();
        assert!(r.seek(SeekFrom::End(d)).is_err(), "seek(End(_)) is refused");
        assert!(r.inner.counter == counter && r.position_within_block == pwb, "failed seek leaves the position unchanged");
        kani::cover!(true, "harness end reachable");
    }
}
