// Appended to a scratch copy of src/lib.rs (uses only the `arrayref` dependency of the crate).
// Audit of extraction rule R1 and the trusted wrappers vf_array_ref / vf_array_mut_ref of
// /verif/prelude/core.rs against the REAL macros arrayref::array_ref! / array_mut_ref! (which expand
// to unsafe pointer casts):
//   requires off + N <= s.len()
//   ensures  r@ == s@.subrange(off, off + N)                                (array_ref)
//   ensures  writing through r changes exactly s[off .. off + N]            (array_mut_ref)
// BOUNDED: the wrappers are generic in T and N; checked for the instances below only
// (T = u8; N = 4 over slices of length <= 16; N = 32 over slices of length <= 72; every offset).
#[cfg(kani)]
mod vf_kani_prelude_array_ref {
    use arrayref::{array_mut_ref, array_ref};

    #[kani::proof]
    #[kani::unwind(34)]
    fn vf_spec_array_ref_u8_4() {
        let buf: [u8; 16] = kani::any();
        let len: usize = kani::any();
        let off: usize = kani::any();
        kani::assume(len <= 16 && off <= len && 4 <= len - off);
        let s: &[u8] = &buf[..len];
        let r: &[u8; 4] = array_ref!(s, off, 4);
        let mut i = 0;
        while i < 4 {
            assert!(r[i] == s[off + i], "array_ref!(s, off, N)[i] == s[off + i]");
            i += 1;
        }
        kani::cover!(true, "harness end reachable");
    }

    #[kani::proof]
    #[kani::unwind(34)]
    fn vf_spec_array_ref_u8_32() {
        let buf: [u8; 72] = kani::any();
        let len: usize = kani::any();
        let off: usize = kani::any();
        kani::assume(len <= 72 && off <= len && 32 <= len - off);
        let s: &[u8] = &buf[..len];
        let r: &[u8; 32] = array_ref!(s, off, 32);
        let mut i = 0;
        while i < 32 {
            assert!(r[i] == s[off + i], "array_ref!(s, off, N)[i] == s[off + i]");
            i += 1;
        }
        kani::cover!(true, "harness end reachable");
    }

    #[kani::proof]
    #[kani::unwind(18)]
    fn vf_spec_array_mut_ref_u8_4() {
        let old: [u8; 16] = kani::any();
        let mut buf = old;
        let len: usize = kani::any();
        let off: usize = kani::any();
        kani::assume(len <= 16 && off <= len && 4 <= len - off);
        let new: [u8; 4] = kani::any();
        {
            let s: &mut [u8] = &mut buf[..len];
            let r: &mut [u8; 4] = array_mut_ref!(s, off, 4);
            let mut i = 0;
            while i < 4 {
                assert!(r[i] == old[off + i], "array_mut_ref!(s, off, N)[i] == old(s)[off + i]");
                i += 1;
            }
            *r = new;
        }
        let mut j = 0;
        while j < 16 {
            if off <= j && j < off + 4 {
                assert!(buf[j] == new[j - off], "the window holds what was written through r");
            } else {
                assert!(buf[j] == old[j], "everything outside the window is unchanged");
            }
            j += 1;
        }
        kani::cover!(true, "harness end reachable");
    }
}
